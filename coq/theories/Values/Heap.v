(** Model "Heap" (C11 only): Python object graphs with identity.

    Locations are indices into a list of nodes, so aliasing and in-place mutation are
    expressible (they are not in [Values.PyVal]).  On top of it:

    - [encode_h]: jsonpickle 0.9.3 [Pickler.flatten(unpicklable=True)] reading the graph
      reachable from a root into the [json] AST of [Values.Codec], INCLUDING the [py/id]
      references the pickler emits when it meets a list or an object for the second time
      (pickler.py:103-124 [_log_ref]/[_mkref]/[_getref], :183-215 [_get_flattener]).
    - [decode_h]: [Unpickler.restore], which allocates ONLY new locations (appends to the heap),
      including the id table [_objs] (unpickler.py:531-542 [_mkref]) and the second restore pass
      that [_restore_from_dict] runs over the values of an object's state (unpickler.py:303-331,
      :347-361) - observed on this interpreter: a list inside an object's state is built twice,
      the id table gets both, so every [py/id] after such an object is shifted.
    - in-place mutations that touch exactly one existing location, allocation by the client,
    - the recording level: [get_data] = [pickle_copy] of [get_data_direct]
      (memory_recording.py:31-52, pickle_copy.py:4-10), [record_value] with the
      copy-on-interception flag (tape_recorder.py:853-874), cassettes as stores of immutable
      text (in_memory_tape_cassette.py:30-52, file_based_tape_cassette.py:23-39, :60-69,
      s3_tape_cassette.py:68-91, :135-178).

    Everything is fuelled (graphs can be cyclic); running out of fuel is the explicit error
    [OutOfFuel] (the Python counterpart is RecursionError).  Definitions only; proofs are in
    HeapFacts.v. *)
From Playback Require Import Base.Str Values.PyVal Values.Codec.
Open Scope list_scope.

(** ---- object graphs -------------------------------------------------------------------- *)

(** values without identity that matters: immutable and not containing anything mutable *)
Inductive atom :=
| ANone
| ABool (b : bool)
| AInt (z : Z)
| AFloat (repr : str)
| AStr (s : str)
| ABytes (b : list N)
| AClass (path : str)
| AUnser (tag : N).            (* an object whose serialization raises *)

Inductive ref :=
| RAtom (a : atom)
| RLoc (l : nat).

Inductive node :=
| NList (l : list ref)
| NTuple (l : list ref)                         (* immutable itself, may hold mutable things *)
| NSet (l : list ref)                           (* elements in iteration order *)
| NDict (d : list (str * ref))                  (* str-keyed, insertion order *)
| NObj (cls : str) (attrs : list (str * ref)).  (* plain object: class path and __dict__ *)

Definition heap := list node.

Definition children (nd : node) : list ref :=
  match nd with
  | NList l | NTuple l | NSet l => l
  | NDict d | NObj _ d => map snd d
  end.

Inductive err :=
| OutOfFuel          (* RecursionError *)
| Dangling           (* a location outside the heap: cannot happen in Python *)
| Unserializable     (* the encoder raised *)
| BadIndex           (* py/id outside the table: IndexError *)
| Unsupported        (* JSON shape outside the modelled fragment of the decoder *)
| KeyMissing         (* RecordingKeyError *)
| NoSuchRecording
| BadMutation.       (* the in-place operation raises (wrong type, index, key) *)

Inductive hres (A : Type) :=
| HOk (a : A)
| HErr (e : err).
Arguments HOk {A} a.
Arguments HErr {A} e.

(** map a state-passing partial function over a list, left to right *)
Section Thread.
  Context {St A B : Type}.
  Variable f : St -> A -> hres (St * B).
  Fixpoint thread_list (s : St) (l : list A) : hres (St * list B) :=
    match l with
    | [] => HOk (s, [])
    | x :: t =>
        match f s x with
        | HErr e => HErr e
        | HOk (s1, y) =>
            match thread_list s1 t with
            | HErr e => HErr e
            | HOk (s2, ys) => HOk (s2, y :: ys)
            end
        end
    end.
  Definition on_item (s : St) (kv : str * A) : hres (St * (str * B)) :=
    match f s (snd kv) with
    | HErr e => HErr e
    | HOk (s1, y) => HOk (s1, (fst kv, y))
    end.
End Thread.
Definition thread_items {St A B} (f : St -> A -> hres (St * B)) (s : St) (d : list (str * A))
  : hres (St * list (str * B)) := thread_list (on_item f) s d.

(** ---- encode: Pickler.flatten ------------------------------------------------------------ *)

Fixpoint index_of (l : nat) (seen : list nat) : option nat :=
  match seen with
  | [] => None
  | x :: t => if Nat.eqb x l then Some 0 else option_map S (index_of l t)
  end.

Definition TAG_ID := U"py/id".
Definition TAG_OBJECT := U"py/object".
Definition TAG_STATE := U"py/state".
Definition TAG_TUPLE := U"py/tuple".
Definition TAG_SET := U"py/set".
Definition TAG_BYTES := U"py/bytes".
Definition TAG_TYPE := U"py/type".

Definition id_json (i : nat) : json := JObj [(TAG_ID, JInt (Z.of_nat i))].

(** quoted-printable decoder for the texts [Codec.qp_simple] produces *)
Definition unhex (c : N) : N :=
  if ((48 <=? c) && (c <=? 57))%N then (c - 48)%N
  else if ((65 <=? c) && (c <=? 70))%N then (c - 55)%N else (c - 87)%N.
Fixpoint qp_dec_simple (s : str) : list N :=
  match s with
  | [] => []
  | c :: t =>
      if (c =? 61)%N then
        match t with
        | a :: b :: t' => (unhex a * 16 + unhex b)%N :: qp_dec_simple t'
        | _ => [c]
        end
      else c :: qp_dec_simple t
  end.

Section Codec.
  (** quoted-printable is an oracle, as in Values.Codec *)
  Variable qp : list N -> str.
  Variable qp_dec : str -> list N.

  Definition enc_atom (a : atom) : hres json :=
    match a with
    | ANone => HOk JNull
    | ABool b => HOk (JBool b)
    | AInt z => HOk (JInt z)
    | AFloat r => HOk (JFloat r)
    | AStr s => HOk (JStr s)
    | ABytes b => HOk (JObj [(TAG_BYTES, JStr (qp b))])
    | AClass p => HOk (JObj [(TAG_TYPE, JStr p)])
    | AUnser _ => HErr Unserializable
    end.

  (** dict items as the pickler visits them: sorted by key (pickler.py:424), reserved keys
      dropped (:476 util.is_picklable) *)
  Definition pick_items {A} (d : list (str * A)) : list (str * A) :=
    filter (fun kv => kept (fst kv)) (sort_items d).

  (** [seen] = the pickler's [_objs]: locations of the lists and objects met so far, in the
      order they got their id (the id is the position).  Only lists and object instances are
      logged (pickler.py:196-201, :227-237); tuples, sets and dicts are flattened again every
      time they are reached. *)
  Fixpoint encode_h (fuel : nat) (h : heap) (seen : list nat) (r : ref) : hres (list nat * json) :=
    match fuel with
    | O => HErr OutOfFuel
    | S f =>
      match r with
      | RAtom a => match enc_atom a with HOk j => HOk (seen, j) | HErr e => HErr e end
      | RLoc l =>
        match nth_error h l with
        | None => HErr Dangling
        | Some (NList rs) =>
            match index_of l seen with
            | Some i => HOk (seen, id_json i)
            | None =>
                match thread_list (encode_h f h) (seen ++ [l]) rs with
                | HOk (s2, js) => HOk (s2, JArr js)
                | HErr e => HErr e
                end
            end
        | Some (NTuple rs) =>
            match thread_list (encode_h f h) seen rs with
            | HOk (s2, js) => HOk (s2, JObj [(TAG_TUPLE, JArr js)])
            | HErr e => HErr e
            end
        | Some (NSet rs) =>
            match thread_list (encode_h f h) seen rs with
            | HOk (s2, js) => HOk (s2, JObj [(TAG_SET, JArr js)])
            | HErr e => HErr e
            end
        | Some (NDict d) =>
            match thread_items (encode_h f h) seen (pick_items d) with
            | HOk (s2, js) => HOk (s2, JObj js)
            | HErr e => HErr e
            end
        | Some (NObj c d) =>
            match index_of l seen with
            | Some i => HOk (seen, id_json i)
            | None =>
                (* py3.12: every object has __getstate__; it returns None for an empty
                   __dict__, else the __dict__ (pickler.py:333-342, :514-520) *)
                match d with
                | [] => HOk (seen ++ [l], JObj [(TAG_OBJECT, JStr c); (TAG_STATE, JNull)])
                | _ =>
                    match thread_items (encode_h f h) (seen ++ [l]) (pick_items d) with
                    | HOk (s2, js) => HOk (s2, JObj [(TAG_OBJECT, JStr c); (TAG_STATE, JObj js)])
                    | HErr e => HErr e
                    end
                end
            end
        end
      end
    end.

  (** the JSON (text) of [encode(value, unpicklable=True)] for the graph under [r] *)
  Definition encode_top (fuel : nat) (h : heap) (r : ref) : hres json :=
    match encode_h fuel h [] r with
    | HOk (_, j) => HOk j
    | HErr e => HErr e
    end.

  (** ---- decode: Unpickler.restore ---------------------------------------------------------- *)

  (** decoder state: the heap and the id table [_objs] *)
  Definition dst := (heap * list ref)%type.

  (** a new object always gets a new location: the end of the heap *)
  Definition alloc (st : dst) (nd : node) (track : bool) : dst * nat :=
    let l := length (fst st) in
    ((fst st ++ [nd], if track then snd st ++ [RLoc l] else snd st), l).

  Fixpoint heap_set (h : heap) (l : nat) (nd : node) : heap :=
    match h, l with
    | [], _ => []
    | _ :: t, O => nd :: t
    | x :: t, S l' => x :: heap_set t l' nd
    end.
  Definition fill (st : dst) (l : nat) (nd : node) : dst := (heap_set (fst st) l nd, snd st).

  (** tags [_restore] dispatches on before treating a dict as a plain dict (unpickler.py:122-150) *)
  Definition DISPATCH_TAGS : list str :=
    [TAG_BYTES; TAG_ID; U"py/ref"; U"py/iterator"; TAG_TYPE; U"py/repr"; U"py/reduce"; TAG_OBJECT;
     U"py/function"; TAG_TUPLE; TAG_SET].

  (** [_restore] applied a second time, to an already restored VALUE (unpickler.py:320 inside
      [_restore_from_dict(state, instance)]): a list is rebuilt (and logged in the id table
      again), a plain dict is rebuilt, anything else is returned as it is. *)
  Fixpoint re_restore (fuel : nat) (st : dst) (r : ref) : hres (dst * ref) :=
    match fuel with
    | O => HErr OutOfFuel
    | S f =>
      match r with
      | RAtom _ => HOk (st, r)
      | RLoc l =>
        match nth_error (fst st) l with
        | None => HErr Dangling
        | Some (NList rs) =>
            let '(st1, idx) := alloc st (NList []) true in
            match thread_list (re_restore f) st1 rs with
            | HOk (st2, rs') => HOk (fill st2 idx (NList rs'), RLoc idx)
            | HErr e => HErr e
            end
        | Some (NDict d) =>
            if has_any DISPATCH_TAGS d then HErr Unsupported
            else
              let '(st1, idx) := alloc st (NDict []) false in
              match thread_items (re_restore f) st1 (sort_items d) with
              | HOk (st2, d') => HOk (fill st2 idx (NDict d'), RLoc idx)
              | HErr e => HErr e
              end
        | Some _ => HOk (st, r)
        end
      end
    end.

  (** [Unpickler._restore] (unpickler.py:122-150), tag dispatch in the library's order.  Every
      container is a NEW location, appended when the library creates the object and filled in
      when its children are there (lists: :363-366 [parent = []; _mkref(parent); ...extend];
      objects: :246-287 proxy logged first, instance swapped in before the state is restored). *)
  Fixpoint decode_aux (fuel : nat) (st : dst) (j : json) : hres (dst * ref) :=
    match fuel with
    | O => HErr OutOfFuel
    | S f =>
      match j with
      | JNull => HOk (st, RAtom ANone)
      | JBool b => HOk (st, RAtom (ABool b))
      | JInt z => HOk (st, RAtom (AInt z))
      | JFloat r => HOk (st, RAtom (AFloat r))
      | JStr s => HOk (st, RAtom (AStr s))
      | JArr l =>
          let '(st1, idx) := alloc st (NList []) true in
          match thread_list (decode_aux f) st1 l with
          | HOk (st2, rs) => HOk (fill st2 idx (NList rs), RLoc idx)
          | HErr e => HErr e
          end
      | JObj d =>
        match assoc TAG_BYTES d with
        | Some (JStr s) => HOk (st, RAtom (ABytes (qp_dec s)))
        | Some _ => HErr Unsupported
        | None =>
        match assoc TAG_ID d with
        | Some (JInt k) =>
            if (k <? 0)%Z then HErr Unsupported
            else match nth_error (snd st) (Z.to_nat k) with
                 | Some r => HOk (st, r)
                 | None => HErr BadIndex
                 end
        | Some _ => HErr Unsupported
        | None =>
        if has_any [U"py/ref"; U"py/iterator"] d then HErr Unsupported else
        match assoc TAG_TYPE d with
        | Some (JStr p) => HOk (st, RAtom (AClass p))
        | Some _ => HErr Unsupported
        | None =>
        if has_any [U"py/repr"; U"py/reduce"] d then HErr Unsupported else
        match assoc TAG_OBJECT d with
        | Some (JStr c) =>
            (* _restore_object_instance: the new instance is logged first *)
            let '(st1, idx) := alloc st (NObj c []) true in
            (* only the form the pickler produces on this interpreter: py/object + py/state *)
            if existsb (fun kv => negb (str_eqb (fst kv) TAG_OBJECT || str_eqb (fst kv) TAG_STATE)) d
            then HErr Unsupported
            else
            match assoc TAG_STATE d with
            | None => HOk (st1, RLoc idx)
            | Some sj =>
                match decode_aux f st1 sj with
                | HErr e => HErr e
                | HOk (st2, sref) =>
                    (* _restore_state (unpickler.py:347-361): plain classes have no __setstate__ *)
                    match sref with
                    | RAtom _ => HOk (st2, sref)        (* `instance = state`: py/state null gives None *)
                    | RLoc sl =>
                        match nth_error (fst st2) sl with
                        | None => HErr Dangling
                        | Some (NDict items) =>
                            (* _restore_from_dict(state, instance): values restored AGAIN *)
                            match thread_items (re_restore f) st2 (sort_items items) with
                            | HOk (st3, attrs) => HOk (fill st3 idx (NObj c attrs), RLoc idx)
                            | HErr e => HErr e
                            end
                        | Some (NTuple _) => HErr Unsupported   (* the __slots__ state form *)
                        | Some _ => HOk (st2, sref)             (* `instance = state` *)
                        end
                    end
                end
            end
        | Some _ => HErr Unsupported
        | None =>
        if has_any [U"py/function"] d then HErr Unsupported else
        match assoc TAG_TUPLE d with
        | Some (JArr l) =>
            let '(st1, idx) := alloc st (NTuple []) false in
            match thread_list (decode_aux f) st1 l with
            | HOk (st2, rs) => HOk (fill st2 idx (NTuple rs), RLoc idx)
            | HErr e => HErr e
            end
        | Some _ => HErr Unsupported
        | None =>
        match assoc TAG_SET d with
        | Some (JArr l) =>
            let '(st1, idx) := alloc st (NSet []) false in
            match thread_list (decode_aux f) st1 l with
            | HOk (st2, rs) => HOk (fill st2 idx (NSet rs), RLoc idx)
            | HErr e => HErr e
            end
        | Some _ => HErr Unsupported
        | None =>
            (* _restore_dict (unpickler.py:383-394): items in key order *)
            let '(st1, idx) := alloc st (NDict []) false in
            match thread_items (decode_aux f) st1 (sort_items d) with
            | HOk (st2, d') => HOk (fill st2 idx (NDict d'), RLoc idx)
            | HErr e => HErr e
            end
        end end end end end end
      end
    end.

  (** [decode(text)]: a fresh Unpickler (empty id table) per call (unpickler.py:21-26) *)
  Definition decode_h (fuel : nat) (h : heap) (j : json) : hres (heap * ref) :=
    match decode_aux fuel (h, []) j with
    | HOk (st, r) => HOk (fst st, r)
    | HErr e => HErr e
    end.

  (** pickle_copy.py:10  decode(encode(value, unpicklable=True)) *)
  Definition pickle_copy (fuel : nat) (h : heap) (r : ref) : hres (heap * ref) :=
    match encode_top fuel h r with
    | HOk j => decode_h fuel h j
    | HErr e => HErr e
    end.
End Codec.

(** ---- in-place mutation ------------------------------------------------------------------ *)

Definition atom_eqb (a b : atom) : bool :=
  match a, b with
  | ANone, ANone => true
  | ABool x, ABool y => Bool.eqb x y
  | AInt x, AInt y => Z.eqb x y
  | AFloat x, AFloat y | AStr x, AStr y | AClass x, AClass y => str_eqb x y
  | ABytes x, ABytes y => list_eqb N.eqb x y
  | AUnser x, AUnser y => N.eqb x y
  | _, _ => false
  end.
Definition ref_eqb (a b : ref) : bool :=
  match a, b with
  | RAtom x, RAtom y => atom_eqb x y
  | RLoc x, RLoc y => Nat.eqb x y
  | _, _ => false
  end.

Inductive mutation :=
| MListSet (l i : nat) (v : ref)         (* x[i] = v *)
| MListAppend (l : nat) (v : ref)        (* x.append(v) *)
| MListDel (l i : nat)                   (* del x[i] *)
| MDictSet (l : nat) (k : str) (v : ref) (* x[k] = v *)
| MDictDel (l : nat) (k : str)           (* del x[k] *)
| MObjSet (l : nat) (k : str) (v : ref)  (* setattr(x, k, v) *)
| MObjDel (l : nat) (k : str)            (* delattr(x, k) *)
| MSetAdd (l : nat) (v : ref)            (* x.add(v) *)
| MSetRemove (l i : nat).                (* x.remove(e) for the i-th element e *)

Definition mut_loc (m : mutation) : nat :=
  match m with
  | MListSet l _ _ | MListAppend l _ | MListDel l _ | MDictSet l _ _ | MDictDel l _
  | MObjSet l _ _ | MObjDel l _ | MSetAdd l _ | MSetRemove l _ => l
  end.
(** the reference the operation stores, if any *)
Definition mut_val (m : mutation) : option ref :=
  match m with
  | MListSet _ _ v | MListAppend _ v | MDictSet _ _ v | MObjSet _ _ v | MSetAdd _ v => Some v
  | _ => None
  end.

Fixpoint list_set {A} (l : list A) (i : nat) (v : A) : option (list A) :=
  match l, i with
  | [], _ => None
  | _ :: t, O => Some (v :: t)
  | x :: t, S i' => option_map (cons x) (list_set t i' v)
  end.
Fixpoint list_del {A} (l : list A) (i : nat) : option (list A) :=
  match l, i with
  | [], _ => None
  | _ :: t, O => Some t
  | x :: t, S i' => option_map (cons x) (list_del t i')
  end.
(** d[k] = v keeps the position of an existing key, a new key goes to the end *)
Fixpoint item_set {A} (d : list (str * A)) (k : str) (v : A) : list (str * A) :=
  match d with
  | [] => [(k, v)]
  | (k', x) :: t => if str_eqb k k' then (k', v) :: t else (k', x) :: item_set t k v
  end.
Fixpoint item_del {A} (d : list (str * A)) (k : str) : option (list (str * A)) :=
  match d with
  | [] => None
  | (k', x) :: t => if str_eqb k k' then Some t else option_map (cons (k', x)) (item_del t k)
  end.

(** the node after the operation; None = the Python operation raises *)
Definition mutate_node (nd : node) (m : mutation) : option node :=
  match m, nd with
  | MListSet _ i v, NList l => option_map NList (list_set l i v)
  | MListAppend _ v, NList l => Some (NList (l ++ [v]))
  | MListDel _ i, NList l => option_map NList (list_del l i)
  | MDictSet _ k v, NDict d => Some (NDict (item_set d k v))
  | MDictDel _ k, NDict d => option_map NDict (item_del d k)
  | MObjSet _ k v, NObj c d => Some (NObj c (item_set d k v))
  | MObjDel _ k, NObj c d => option_map (NObj c) (item_del d k)
  | MSetAdd _ v, NSet l => Some (NSet (if existsb (ref_eqb v) l then l else l ++ [v]))
  | MSetRemove _ i, NSet l => option_map NSet (list_del l i)
  | _, _ => None
  end.

Definition apply_mut (h : heap) (m : mutation) : option heap :=
  match nth_error h (mut_loc m) with
  | None => None
  | Some nd =>
      match mutate_node nd m with
      | None => None
      | Some nd' => Some (heap_set h (mut_loc m) nd')
      end
  end.

(** ---- recording level ------------------------------------------------------------------------ *)

Section Recording.
  Variable qp : list N -> str.
  Variable qp_dec : str -> list N.

  (** a MemoryRecording is the location of its [recording_data] dict
      (memory_recording.py:18); get_data_direct :43-52, None = RecordingKeyError *)
  Definition get_data_direct (h : heap) (rec : nat) (k : str) : option ref :=
    match nth_error h rec with
    | Some (NDict d) => assoc k d
    | _ => None
    end.

  (** memory_recording.py:31-41 *)
  Definition get_data (fuel : nat) (h : heap) (rec : nat) (k : str) : hres (heap * ref) :=
    match get_data_direct h rec k with
    | None => HErr KeyMissing
    | Some r => pickle_copy qp qp_dec fuel h r
    end.

  (** memory_recording.py:21-29  recording_data[key] = value (the value itself, no copy) *)
  Definition set_data (h : heap) (rec : nat) (k : str) (v : ref) : option heap :=
    apply_mut h (MDictSet rec k v).

  Definition VALUE := U"value".

  (** tape_recorder.py:866-874: with the flag on the intercepted result is replaced by its
      pickle_copy - unless copying raises, then the original object is recorded (:869-871);
      then  recording[key] = {'value': recorded_result}. *)
  Definition record_value (copy : bool) (fuel : nat) (h : heap) (rec : nat) (k : str) (result : ref)
    : hres heap :=
    let '(h1, recorded) :=
      if copy then
        match pickle_copy qp qp_dec fuel h result with
        | HOk (h1, r') => (h1, r')
        | HErr _ => (h, result)
        end
      else (h, result) in
    match set_data (h1 ++ [NDict [(VALUE, recorded)]]) rec k (RLoc (length h1)) with
    | Some h2 => HOk h2
    | None => HErr BadMutation
    end.

  (** With an input data handler (tape_recorder.py:855-856) the value that goes through the lines
      above is NOT the function's return value but the handler's prepared form
      [prepare_input_for_recording(key, result, args, kwargs)]: any object, possibly a new container
      that embeds the result AND live objects of the call (an out-parameter the input filled, a
      request object).  The copy is taken AFTER the handler ran, of the prepared form, so
      [record_value] applies with [result := prepared form].  One concrete handler shape: *)
  Definition prepare_count_rows (h : heap) (result buf : ref) : heap * ref :=
    (h ++ [NDict [(U"count", result); (U"rows", buf)]], RLoc (length h)).
  Definition record_input_with_handler (copy : bool) (fuel : nat) (h : heap) (rec : nat) (k : str)
             (result buf : ref) : hres heap :=
    let '(hp, prepared) := prepare_count_rows h result buf in
    record_value copy fuel hp rec k prepared.

  (** what is recorded under [k]: the object stored under 'value' *)
  Definition recorded_value (h : heap) (rec : nat) (k : str) : option ref :=
    match get_data_direct h rec k with
    | Some (RLoc w) => match nth_error h w with
                       | Some (NDict d) => assoc VALUE d
                       | _ => None
                       end
    | _ => None
    end.

  (** A cassette holds TEXT per recording id (in-memory: a str in an OrderedDict; file: the file
      content; S3: compressed bytes).  Text has no locations: nothing in the heap can reach or
      change it.  save = encode the recording object; get = decode it into new locations. *)
  Definition cassette := list (str * json).

  Definition save_recording (fuel : nat) (h : heap) (cas : cassette) (id : str) (rec : ref) : hres cassette :=
    match encode_top qp fuel h rec with
    | HOk j => HOk ((id, j) :: cas)
    | HErr e => HErr e
    end.

  Definition get_recording (fuel : nat) (h : heap) (cas : cassette) (id : str) : hres (heap * ref) :=
    match assoc id cas with
    | None => HErr NoSuchRecording
    | Some j => decode_h qp_dec fuel h j
    end.
End Recording.

(** ---- full-identity shape (used by the correspondence runner only) -------------------------
    Like encode, but EVERY mutable container is numbered at its first visit and referenced
    afterwards, so the text determines the graph up to renaming of locations (and up to the
    identity of tuples). *)
Section Shape.
  Variable qp : list N -> str.
  Definition tagged (n : nat) (kind : str) (body : json) : json :=
    JObj [(U"n", JInt (Z.of_nat n)); (kind, body)].
  Fixpoint shape_h (fuel : nat) (h : heap) (seen : list nat) (r : ref) : hres (list nat * json) :=
    match fuel with
    | O => HErr OutOfFuel
    | S f =>
      match r with
      | RAtom (AUnser t) => HOk (seen, JObj [(U"unser", JInt (Z.of_N t))])
      | RAtom a => match enc_atom qp a with HOk j => HOk (seen, j) | HErr e => HErr e end
      | RLoc l =>
        match nth_error h l with
        | None => HErr Dangling
        | Some (NTuple rs) =>
            (* tuples are immutable: their identity is not part of the shape (CPython shares the
               empty tuple); a cycle through a tuple passes through a numbered node *)
            match thread_list (shape_h f h) seen rs with
            | HOk (s2, js) => HOk (s2, JObj [(U"tuple", JArr js)]) | HErr e => HErr e end
        | Some nd =>
          match index_of l seen with
          | Some i => HOk (seen, JObj [(U"ref", JInt (Z.of_nat i))])
          | None =>
            let n := length seen in
            let seen1 := seen ++ [l] in
            match nd with
            | NList rs =>
                match thread_list (shape_h f h) seen1 rs with
                | HOk (s2, js) => HOk (s2, tagged n (U"list") (JArr js)) | HErr e => HErr e end
            | NTuple rs => HErr Unsupported
            | NSet rs =>
                match thread_list (shape_h f h) seen1 rs with
                | HOk (s2, js) => HOk (s2, tagged n (U"set") (JArr js)) | HErr e => HErr e end
            | NDict d =>
                match thread_items (shape_h f h) seen1 d with
                | HOk (s2, js) => HOk (s2, tagged n (U"dict") (JObj js)) | HErr e => HErr e end
            | NObj c d =>
                match thread_items (shape_h f h) seen1 d with
                | HOk (s2, js) => HOk (s2, JObj [(U"n", JInt (Z.of_nat n)); (U"obj", JStr c); (U"attrs", JObj js)])
                | HErr e => HErr e end
            end
          end
        end
      end
    end.
End Shape.
