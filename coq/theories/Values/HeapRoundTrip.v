(** Round trip of a copy (C11_copy_faithful_partial): for JSON that is a canonical encoder
    output WITHOUT py/id (no list or object met twice), decoding it and encoding the decoded
    graph gives the same JSON.  (With py/id the statement is false for the faithful model: the
    decoder's second pass over object state shifts the id table, HeapFacts / Properties.C11
    [C11_copy_of_shared_lists_can_differ].) *)
From Playback Require Import Base.Str Base.StrFacts Values.PyVal Values.SortFacts Values.Codec Values.Heap Values.HeapFacts.
From Coq Require Import Permutation Lia Arith.
Open Scope list_scope.

(** ---- canonical key lists -------------------------------------------------------------------- *)

Fixpoint sorted_keys (ks : list str) : bool :=
  match ks with
  | [] => true
  | k :: t => match t with [] => true | k' :: _ => str_ltb k k' && sorted_keys t end
  end.

Definition canon_keys (ks : list str) : bool := sorted_keys ks && forallb kept ks.

Lemma sorted_keys_tail k t : sorted_keys (k :: t) = true -> sorted_keys t = true.
Proof. cbn. destruct t as [|k' t]; [reflexivity|]. intros H. apply andb_prop in H. apply H. Qed.

Lemma sort_items_sorted {A} (d : list (str * A)) : sorted_keys (map fst d) = true -> sort_items d = d.
Proof.
  induction d as [|[k x] d IH]; intros S; [reflexivity|].
  cbn [sort_items]. rewrite IH by (eapply sorted_keys_tail; exact S).
  destruct d as [|[k' x'] d]; [reflexivity|]. cbn in S. apply andb_prop in S. destruct S as [Lt _].
  cbn [insert_item fst]. rewrite (str_ltb_asym _ _ Lt). reflexivity.
Qed.

Lemma filter_kept_all {A} (d : list (str * A)) :
  forallb kept (map fst d) = true -> filter (fun kv => kept (fst kv)) d = d.
Proof.
  induction d as [|[k x] d IH]; intros F; [reflexivity|]. cbn in *. apply andb_prop in F. destruct F as [Fk Fd].
  rewrite Fk, IH by exact Fd. reflexivity.
Qed.

Lemma pick_items_canon {A} (d : list (str * A)) : canon_keys (map fst d) = true -> pick_items d = d.
Proof.
  unfold canon_keys, pick_items. intros C. apply andb_prop in C. destruct C as [S F].
  rewrite sort_items_sorted by exact S. apply filter_kept_all, F.
Qed.

(** ---- id-free canonical encoder output (follows the decoder's dispatch) ----------------------- *)

Section RT.
  Variable qp : list N -> str.
  Variable qp_dec : str -> list N.

  Definition single {A} (d : list A) : bool := match d with [_] => true | _ => false end.

  Fixpoint enc_ok (fuel : nat) (j : json) : bool :=
    match fuel with
    | O => false
    | S f =>
      match j with
      | JNull | JBool _ | JInt _ | JFloat _ | JStr _ => true
      | JArr l => forallb (enc_ok f) l
      | JObj d =>
        match assoc TAG_BYTES d with
        | Some (JStr s) => single d && str_eqb (qp (qp_dec s)) s
        | Some _ => false
        | None =>
        match assoc TAG_ID d with
        | Some _ => false
        | None =>
        if has_any [U"py/ref"; U"py/iterator"] d then false else
        match assoc TAG_TYPE d with
        | Some (JStr _) => single d
        | Some _ => false
        | None =>
        if has_any [U"py/repr"; U"py/reduce"] d then false else
        match assoc TAG_OBJECT d with
        | Some _ =>
            match d with
            | [(k1, JStr c); (k2, JObj items)] =>
                str_eqb k1 TAG_OBJECT && str_eqb k2 TAG_STATE &&
                negb (match items with [] => true | _ => false end) &&
                canon_keys (map fst items) && enc_ok f (JObj items)
            | _ => false
            end
        | None =>
        if has_any [U"py/function"] d then false else
        match assoc TAG_TUPLE d with
        | Some (JArr l) => single d && forallb (enc_ok f) l
        | Some _ => false
        | None =>
        match assoc TAG_SET d with
        | Some (JArr l) => single d && forallb (enc_ok f) l
        | Some _ => false
        | None => canon_keys (map fst d) && forallb (fun kv => enc_ok f (snd kv)) d
        end end end end end end
      end
    end.

  (** ---- tree representation: [r] in [h] is a tree-shaped graph whose encoding is [j]; [V] are
      the locations of its lists and objects in the order the pickler logs them ---------------- *)

  Fixpoint treps (P : ref -> json -> list nat -> Prop) (rs : list ref) (js : list json) (V : list nat) : Prop :=
    match rs, js with
    | [], [] => V = []
    | r :: rs', j :: js' =>
        exists V1 V2, V = V1 ++ V2 /\ P r j V1 /\ treps P rs' js' V2 /\ (forall x, In x V1 -> ~ In x V2)
    | _, _ => False
    end.

  Fixpoint trepi (P : ref -> json -> list nat -> Prop) (d : list (str * ref)) (js : list (str * json)) (V : list nat) : Prop :=
    match d, js with
    | [], [] => V = []
    | (k, r) :: d', (k', j) :: js' =>
        k = k' /\ exists V1 V2, V = V1 ++ V2 /\ P r j V1 /\ trepi P d' js' V2 /\ (forall x, In x V1 -> ~ In x V2)
    | _, _ => False
    end.

  Fixpoint trep (n : nat) (h : heap) (r : ref) (j : json) (V : list nat) : Prop :=
    match n with
    | O => False
    | S n' =>
      match r with
      | RAtom a => enc_atom qp a = HOk j /\ V = []
      | RLoc l =>
        match nth_error h l with
        | None => False
        | Some (NList rs) =>
            exists js V', j = JArr js /\ V = l :: V' /\ ~ In l V' /\ treps (trep n' h) rs js V'
        | Some (NTuple rs) => exists js, j = JObj [(TAG_TUPLE, JArr js)] /\ treps (trep n' h) rs js V
        | Some (NSet rs) => exists js, j = JObj [(TAG_SET, JArr js)] /\ treps (trep n' h) rs js V
        | Some (NDict d) =>
            exists js, j = JObj js /\ canon_keys (map fst d) = true /\ trepi (trep n' h) d js V
        | Some (NObj c d) =>
            exists js V', j = JObj [(TAG_OBJECT, JStr c); (TAG_STATE, JObj js)] /\ V = l :: V' /\ ~ In l V' /\
                          d <> [] /\ canon_keys (map fst d) = true /\ trepi (trep n' h) d js V'
        end
      end
    end.

  Lemma treps_impl (P Q : ref -> json -> list nat -> Prop) rs :
    forall js V, (forall r j V1, In r rs -> P r j V1 -> Q r j V1) -> treps P rs js V -> treps Q rs js V.
  Proof.
    induction rs as [|r rs IH]; intros [|j js] V H T; cbn in *; auto.
    destruct T as (V1 & V2 & E & P1 & T2 & D). exists V1, V2. repeat split; auto.
  Qed.

  Lemma trepi_impl (P Q : ref -> json -> list nat -> Prop) d :
    forall js V, (forall r j V1, In r (map snd d) -> P r j V1 -> Q r j V1) -> trepi P d js V -> trepi Q d js V.
  Proof.
    induction d as [|[k r] d IH]; intros [|[k' j] js] V H T; cbn in *; auto.
    destruct T as (Ek & V1 & V2 & E & P1 & T2 & D). split; [exact Ek|]. exists V1, V2. repeat split; auto.
  Qed.

  Lemma trepi_keys P d : forall js V, trepi P d js V -> map fst js = map fst d.
  Proof.
    induction d as [|[k r] d IH]; intros [|[k' j] js] V T; cbn in *; try contradiction; [reflexivity|].
    destruct T as (-> & V1 & V2 & _ & _ & T2 & _). f_equal. eapply IH; eauto.
  Qed.

  Lemma trep_mono : forall n m h r j V, n <= m -> trep n h r j V -> trep m h r j V.
  Proof.
    induction n as [|n IH]; intros m h r j V L T; [contradiction|].
    destruct m as [|m]; [lia|]. cbn [trep] in *. destruct r as [a|l]; [exact T|].
    destruct (nth_error h l) as [nd|]; [|contradiction].
    assert (M : forall r j V1, trep n h r j V1 -> trep m h r j V1) by (intros; eapply IH; eauto; lia).
    destruct nd as [rs|rs|rs|d|c d].
    - destruct T as (js & V' & ? & ? & ? & T). exists js, V'. repeat (split; [assumption|]).
      eapply treps_impl; [|exact T]. intros; apply M; assumption.
    - destruct T as (js & ? & T). exists js. split; [assumption|].
      eapply treps_impl; [|exact T]. intros; apply M; assumption.
    - destruct T as (js & ? & T). exists js. split; [assumption|].
      eapply treps_impl; [|exact T]. intros; apply M; assumption.
    - destruct T as (js & ? & ? & T). exists js. repeat (split; [assumption|]).
      eapply trepi_impl; [|exact T]. intros; apply M; assumption.
    - destruct T as (js & V' & ? & ? & ? & ? & ? & T). exists js, V'. repeat (split; [assumption|]).
      eapply trepi_impl; [|exact T]. intros; apply M; assumption.
  Qed.

  (** the representation only depends on the nodes reachable from [r] *)
  Lemma trep_frame : forall n h h' r j V,
    (forall l, reach h r l -> nth_error h l = nth_error h' l) -> trep n h r j V -> trep n h' r j V.
  Proof.
    induction n as [|n IH]; intros h h' r j V A T; [contradiction|].
    cbn [trep] in *. destruct r as [a|l]; [exact T|].
    rewrite <- (A l (reach_here _ _)).
    destruct (nth_error h l) as [nd|] eqn:En; [|contradiction].
    assert (M : forall c j V1, In c (children nd) -> trep n h c j V1 -> trep n h' c j V1).
    { intros c j1 V1 I. apply IH. intros x Rx. apply A. eapply reach_step; eauto. }
    destruct nd as [rs|rs|rs|d|c d]; cbn [children] in M.
    - destruct T as (js & V' & ? & ? & ? & T). exists js, V'. repeat (split; [assumption|]).
      eapply treps_impl; [|exact T]. intros; apply M; assumption.
    - destruct T as (js & ? & T). exists js. split; [assumption|].
      eapply treps_impl; [|exact T]. intros; apply M; assumption.
    - destruct T as (js & ? & T). exists js. split; [assumption|].
      eapply treps_impl; [|exact T]. intros; apply M; assumption.
    - destruct T as (js & ? & ? & T). exists js. repeat (split; [assumption|]).
      eapply trepi_impl; [|exact T]. intros; apply M; assumption.
    - destruct T as (js & V' & ? & ? & ? & ? & ? & T). exists js, V'. repeat (split; [assumption|]).
      eapply trepi_impl; [|exact T]. intros; apply M; assumption.
  Qed.

  Lemma trep_region (P : nat -> Prop) n h h' r j V :
    closed_set P h -> agree_on P h h' -> ref_in P r -> trep n h r j V -> trep n h' r j V.
  Proof.
    intros C A R. apply trep_frame. intros l Rl. apply A. eapply reach_closed; eauto.
  Qed.

  (** ---- a tree representation encodes to its JSON --------------------------------------------- *)

  Lemma index_of_None l seen : ~ In l seen -> index_of l seen = None.
  Proof.
    induction seen as [|x t IH]; intros N; [reflexivity|]. cbn.
    destruct (Nat.eqb x l) eqn:E; [apply Nat.eqb_eq in E; subst; exfalso; apply N; left; reflexivity|].
    rewrite IH; [reflexivity|]. intros I. apply N. right. exact I.
  Qed.

  Definition fresh_for (V seen : list nat) : Prop := forall x, In x V -> ~ In x seen.

  Lemma treps_thread (P : ref -> json -> list nat -> Prop) (F : list nat -> ref -> hres (list nat * json)) :
    (forall r j V1, P r j V1 -> forall seen, fresh_for V1 seen -> F seen r = HOk (seen ++ V1, j)) ->
    forall rs js V, treps P rs js V -> forall seen, fresh_for V seen ->
      thread_list F seen rs = HOk (seen ++ V, js).
  Proof.
    intros H. induction rs as [|r rs IH]; intros [|j js] V T seen Fr; cbn in T; try contradiction.
    - subst. cbn. rewrite app_nil_r. reflexivity.
    - destruct T as (V1 & V2 & -> & P1 & T2 & D). cbn.
      rewrite (H _ _ _ P1 seen) by (intros x I; apply Fr, in_or_app; left; exact I).
      rewrite (IH _ _ T2 (seen ++ V1)).
      + rewrite app_assoc. reflexivity.
      + intros x I2 I. apply in_app_or in I. destruct I as [I|I].
        * apply (Fr x); [apply in_or_app; right; exact I2|exact I].
        * apply (D x I I2).
  Qed.

  Lemma trepi_thread (P : ref -> json -> list nat -> Prop) (F : list nat -> ref -> hres (list nat * json)) :
    (forall r j V1, P r j V1 -> forall seen, fresh_for V1 seen -> F seen r = HOk (seen ++ V1, j)) ->
    forall d js V, trepi P d js V -> forall seen, fresh_for V seen ->
      thread_items F seen d = HOk (seen ++ V, js).
  Proof.
    intros H. unfold thread_items.
    induction d as [|[k r] d IH]; intros [|[k' j] js] V T seen Fr; cbn in T; try contradiction.
    - subst. cbn. rewrite app_nil_r. reflexivity.
    - destruct T as (-> & V1 & V2 & -> & P1 & T2 & D). cbn. unfold on_item at 1. cbn [snd fst].
      rewrite (H _ _ _ P1 seen) by (intros x I; apply Fr, in_or_app; left; exact I).
      rewrite (IH _ _ T2 (seen ++ V1)).
      + rewrite app_assoc. reflexivity.
      + intros x I2 I. apply in_app_or in I. destruct I as [I|I].
        * apply (Fr x); [apply in_or_app; right; exact I2|exact I].
        * apply (D x I I2).
  Qed.

  Theorem trep_encode : forall n h r j V,
    trep n h r j V -> forall seen, fresh_for V seen -> encode_h qp n h seen r = HOk (seen ++ V, j).
  Proof.
    induction n as [|n IH]; intros h r j V T seen Fr; [contradiction|].
    cbn [trep encode_h] in *. destruct r as [a|l].
    { destruct T as [E ->]. rewrite E, app_nil_r. reflexivity. }
    destruct (nth_error h l) as [nd|]; [|contradiction].
    assert (K : forall r j V1, trep n h r j V1 -> forall seen, fresh_for V1 seen ->
                encode_h qp n h seen r = HOk (seen ++ V1, j)) by (intros; apply IH; assumption).
    destruct nd as [rs|rs|rs|d|c d].
    - destruct T as (js & V' & -> & -> & Nl & T).
      rewrite index_of_None by (apply Fr; left; reflexivity).
      rewrite (treps_thread _ _ K _ _ _ T (seen ++ [l])).
      + rewrite <- app_assoc. reflexivity.
      + intros x I I2. apply in_app_or in I2. destruct I2 as [I2|[<-|[]]]; [|exact (Nl I)].
        apply (Fr x); [right; exact I|exact I2].
    - destruct T as (js & -> & T). rewrite (treps_thread _ _ K _ _ _ T seen Fr). reflexivity.
    - destruct T as (js & -> & T). rewrite (treps_thread _ _ K _ _ _ T seen Fr). reflexivity.
    - destruct T as (js & -> & C & T). rewrite (pick_items_canon d C).
      rewrite (trepi_thread _ _ K _ _ _ T seen Fr). reflexivity.
    - destruct T as (js & V' & -> & -> & Nl & Nd & C & T).
      rewrite index_of_None by (apply Fr; left; reflexivity).
      destruct d as [|kv d]; [contradiction Nd; reflexivity|].
      rewrite (pick_items_canon _ C).
      rewrite (trepi_thread _ _ K _ _ _ T (seen ++ [l])).
      + rewrite <- app_assoc. reflexivity.
      + intros x I I2. apply in_app_or in I2. destruct I2 as [I2|[<-|[]]]; [|exact (Nl I)].
        apply (Fr x); [right; exact I|exact I2].
  Qed.

  (** ---- bookkeeping ------------------------------------------------------------------------------ *)

  Definition frame (st st' : dst) : Prop :=
    length (fst st) <= length (fst st') /\
    forall l, l < length (fst st) -> nth_error (fst st') l = nth_error (fst st) l.

  Lemma frame_refl st : frame st st.
  Proof. split; auto. Qed.

  Lemma frame_trans a b c : frame a b -> frame b c -> frame a c.
  Proof. intros [L1 A1] [L2 A2]. split; [lia|]. intros l Hl. rewrite A2 by lia. apply A1, Hl. Qed.

  Lemma closed_set_agree (P : nat -> Prop) h h' : closed_set P h -> agree_on P h h' -> closed_set P h'.
  Proof. intros C A l nd Pl En. rewrite <- (A l Pl) in En. apply (C l nd Pl En). Qed.

  Lemma closed_set_equiv (P Q : nat -> Prop) h : (forall l, P l <-> Q l) -> closed_set P h -> closed_set Q h.
  Proof.
    intros E C l nd Ql En. eapply Forall_ref_in_impl; [apply E|]. apply (C l nd); [apply E, Ql|exact En].
  Qed.

  Lemma closed_set_union (P Q : nat -> Prop) h : closed_set P h -> closed_set Q h -> closed_set (fun l => P l \/ Q l) h.
  Proof.
    intros CP CQ l nd [Pl|Ql] En.
    - eapply Forall_ref_in_impl; [|apply (CP l nd Pl En)]. auto.
    - eapply Forall_ref_in_impl; [|apply (CQ l nd Ql En)]. auto.
  Qed.

  (** a set whose nodes all point into a larger set *)
  Definition points_into (P Q : nat -> Prop) (h : heap) : Prop :=
    forall l nd, P l -> nth_error h l = Some nd -> Forall (ref_in Q) (children nd).

  Lemma thread_items_as_list {St A B} (F : St -> A -> hres (St * B)) d :
    forall s s' d', thread_items F s d = HOk (s', d') ->
      thread_list F s (map snd d) = HOk (s', map snd d') /\ map fst d' = map fst d.
  Proof.
    unfold thread_items. induction d as [|[k x] d IH]; intros s s' d' E; cbn in E.
    - injection E as <- <-. split; reflexivity.
    - unfold on_item at 1 in E. cbn [snd fst] in E.
      destruct (F s x) as [[s1 y]|e] eqn:E1; [|discriminate].
      destruct (thread_list (on_item F) s1 d) as [[s2 ys]|e] eqn:E2; [|discriminate].
      injection E as <- <-. destruct (IH _ _ _ E2) as [T K]. cbn. rewrite E1, T, K. split; reflexivity.
  Qed.

  Lemma trepi_as_treps P d : forall js V,
    trepi P d js V <-> (map fst js = map fst d /\ treps P (map snd d) (map snd js) V).
  Proof.
    induction d as [|[k r] d IH]; intros [|[k' j] js] V; cbn.
    - split; [intros ->; split; reflexivity|intros [_ ->]; reflexivity].
    - split; [contradiction|intros [E _]; discriminate].
    - split; [contradiction|intros [E _]; discriminate].
    - split.
      + intros (-> & V1 & V2 & E & P1 & T & D). apply IH in T. destruct T as [K T].
        split; [f_equal; exact K|]. exists V1, V2. repeat split; auto.
      + intros (K & V1 & V2 & E & P1 & T & D). injection K as -> K.
        split; [reflexivity|]. exists V1, V2. repeat split; auto. apply IH. split; auto.
  Qed.

  (** ---- the second restore pass keeps the encoding ---------------------------------------------- *)

  Definition grow (Pc : nat -> Prop) (a b : nat) : nat -> Prop := fun l => Pc l \/ inr a b l.

  Lemma grow_mono Pc a b a' b' l : a' <= a -> b <= b' -> grow Pc a b l -> grow Pc a' b' l.
  Proof. unfold grow, inr. intros ? ? [?|?]; [left; assumption|right; lia]. Qed.

  Definition rr_pre (Pc : nat -> Prop) (st : dst) : Prop :=
    (forall l, Pc l -> l < length (fst st)) /\ closed_set Pc (fst st).

  Lemma agree_of_frame (P : nat -> Prop) st st' :
    frame st st' -> (forall l, P l -> l < length (fst st)) -> agree_on P (fst st) (fst st').
  Proof. intros [_ A] Lt l Pl. symmetry. apply A, Lt, Pl. Qed.

  Lemma rr_pre_frame Pc st st' : rr_pre Pc st -> frame st st' -> rr_pre Pc st'.
  Proof.
    intros [Lt Cl] F. split.
    - intros l Pl. destruct F as [L _]. specialize (Lt l Pl). lia.
    - eapply closed_set_agree; [exact Cl|]. apply agree_of_frame; assumption.
  Qed.

  Definition rr_ok (Pc : nat -> Prop) (n : nat) (st st' : dst) (a : ref) (j : json) (V : list nat) : Prop :=
    frame st st' /\
    ref_in (grow Pc (length (fst st)) (length (fst st'))) a /\
    closed_set (grow Pc (length (fst st)) (length (fst st'))) (fst st') /\
    exists V', (forall x, In x V' -> In x V \/ inr (length (fst st)) (length (fst st')) x) /\
               trep n (fst st') a j V'.

  Definition rrs_ok (Pc : nat -> Prop) (n : nat) (st st' : dst) (rs' : list ref) (js : list json) (V : list nat) : Prop :=
    frame st st' /\
    Forall (ref_in (grow Pc (length (fst st)) (length (fst st')))) rs' /\
    closed_set (grow Pc (length (fst st)) (length (fst st'))) (fst st') /\
    exists V', (forall x, In x V' -> In x V \/ inr (length (fst st)) (length (fst st')) x) /\
               treps (trep n (fst st')) rs' js V'.

  Lemma closed_grow_empty Pc a h : closed_set Pc h -> closed_set (grow Pc a a) h.
  Proof.
    apply closed_set_equiv. intros l. unfold grow, inr. split; [auto|intros [?|?]; [assumption|lia]].
  Qed.

  Definition rr_step (fr : nat) : Prop :=
    forall st c st' a, re_restore fr st c = HOk (st', a) ->
    forall Pc n j V, rr_pre Pc st -> ref_in Pc c -> trep n (fst st) c j V -> (forall x, In x V -> Pc x) ->
    rr_ok Pc n st st' a j V.

  Lemma rr_thread fr : rr_step fr ->
    forall rs st st' rs', thread_list (re_restore fr) st rs = HOk (st', rs') ->
    forall Pc n js V, rr_pre Pc st -> Forall (ref_in Pc) rs -> treps (trep n (fst st)) rs js V ->
      (forall x, In x V -> Pc x) -> rrs_ok Pc n st st' rs' js V.
  Proof.
    intros Step. induction rs as [|c t IH]; intros st st' rs' E Pc n js V Pre Fc T Sub; cbn in E.
    - injection E as <- <-. destruct js; cbn in T; [|contradiction]. subst V.
      split; [apply frame_refl|]. split; [constructor|]. split; [apply closed_grow_empty, Pre|].
      exists []. split; [intros x []|reflexivity].
    - destruct (re_restore fr st c) as [[s1 a1]|e] eqn:E1; [|discriminate].
      destruct (thread_list (re_restore fr) s1 t) as [[s2 t']|e] eqn:E2; [|discriminate].
      injection E as <- <-.
      destruct js as [|j js]; cbn in T; [contradiction|].
      destruct T as (V1 & V2 & -> & T1 & T2 & D).
      inversion Fc as [|? ? Rc Ft]; subst.
      assert (Sub1 : forall x, In x V1 -> Pc x) by (intros; apply Sub, in_or_app; auto).
      assert (Sub2 : forall x, In x V2 -> Pc x) by (intros; apply Sub, in_or_app; auto).
      destruct (Step _ _ _ _ E1 Pc n j V1 Pre Rc T1 Sub1) as (F1 & R1 & C1 & V1' & S1 & T1').
      assert (Pre1 : rr_pre Pc s1) by (eapply rr_pre_frame; eauto).
      assert (A1 : agree_on Pc (fst st) (fst s1)) by (apply agree_of_frame; [exact F1|apply Pre]).
      assert (T2' : treps (trep n (fst s1)) t js V2).
      { eapply treps_impl; [|exact T2]. intros r j1 Vx I. apply (trep_region Pc); [apply Pre|exact A1|].
        rewrite Forall_forall in Ft. apply Ft, I. }
      destruct (IH _ _ _ E2 Pc n js V2 Pre1 Ft T2' Sub2) as (F2 & R2 & C2 & V2' & S2 & T2'').
      pose proof (proj1 F1) as L1. pose proof (proj1 F2) as L2.
      assert (Lt1 : forall l, grow Pc (length (fst st)) (length (fst s1)) l -> l < length (fst s1)).
      { intros l [Pl|[_ Hl]]; [|exact Hl]. destruct Pre as [Lt _]. specialize (Lt l Pl). lia. }
      assert (A2 : agree_on (grow Pc (length (fst st)) (length (fst s1))) (fst s1) (fst s2)).
      { apply agree_of_frame; assumption. }
      split; [eapply frame_trans; eauto|]. split; [|split].
      + constructor.
        * eapply ref_in_impl; [|exact R1]. intros l. apply grow_mono; lia.
        * eapply Forall_impl; [|exact R2]. intros r. apply ref_in_impl. intros l. apply grow_mono; lia.
      + eapply closed_set_equiv with
          (P := fun l => grow Pc (length (fst st)) (length (fst s1)) l \/ grow Pc (length (fst s1)) (length (fst s2)) l).
        * intros l. unfold grow, inr. split; [intros [[?|?]|[?|?]]; auto; right; lia|].
          intros [?|?]; [left; left; assumption|].
          destruct (Nat.lt_ge_cases l (length (fst s1))); [left; right; lia|right; right; lia].
        * apply closed_set_union; [eapply closed_set_agree; eauto|exact C2].
      + exists (V1' ++ V2'). split.
        * intros x I. apply in_app_or in I. destruct I as [I|I].
          -- destruct (S1 x I) as [?|?]; [left; apply in_or_app; auto|right; unfold inr in *; lia].
          -- destruct (S2 x I) as [?|?]; [left; apply in_or_app; auto|right; unfold inr in *; lia].
        * cbn. exists V1', V2'. split; [reflexivity|]. split.
          { apply (trep_region (grow Pc (length (fst st)) (length (fst s1))) _ (fst s1)); assumption. }
          split; [exact T2''|].
          intros x I1 I2. destruct Pre as [Lt _].
          destruct (S1 x I1) as [X1|X1], (S2 x I2) as [X2|X2].
          -- exact (D x X1 X2).
          -- specialize (Lt x (Sub1 x X1)). unfold inr in X2. lia.
          -- specialize (Lt x (Sub2 x X2)). unfold inr in X1. lia.
          -- unfold inr in *. lia.
  Qed.

  (** closing a container: the placeholder at the old end of the heap is filled in *)
  Lemma finish_container (Pc : nat -> Prop) (st st1 st2 : dst) nd0 nd n' rs' js V0 V0' :
    fst st1 = fst st ++ [nd0] ->
    (forall l, Pc l -> l < length (fst st)) ->
    frame st1 st2 ->
    children nd = rs' ->
    Forall (ref_in (grow Pc (length (fst st1)) (length (fst st2)))) rs' ->
    closed_set (grow Pc (length (fst st1)) (length (fst st2))) (fst st2) ->
    (forall x, In x V0' -> In x V0 \/ inr (length (fst st1)) (length (fst st2)) x) ->
    (forall x, In x V0 -> Pc x) ->
    treps (trep n' (fst st2)) rs' js V0' ->
    let st' := fill st2 (length (fst st)) nd in
    frame st st' /\ length (fst st') = length (fst st2) /\ length (fst st) < length (fst st2) /\
    nth_error (fst st') (length (fst st)) = Some nd /\
    closed_set (grow Pc (length (fst st)) (length (fst st'))) (fst st') /\
    treps (trep n' (fst st')) rs' js V0' /\ ~ In (length (fst st)) V0' /\
    (forall x, In x V0' -> In x V0 \/ inr (length (fst st)) (length (fst st')) x).
  Proof.
    intros E1 Lt [L12 A12] K R C Sv Sub T. cbn zeta. unfold fill. cbn [fst snd].
    assert (L1 : length (fst st1) = S (length (fst st))) by (rewrite E1, app_length; cbn; lia).
    set (a0 := length (fst st)) in *. set (b := length (fst st2)) in *.
    rewrite heap_set_length. fold b.
    assert (Ag : agree_on (grow Pc (length (fst st1)) b) (fst st2) (heap_set (fst st2) a0 nd)).
    { intros l Gl. symmetry. apply heap_set_other. destruct Gl as [Pl|[Hl _]]; [specialize (Lt l Pl); lia|lia]. }
    split; [|split; [reflexivity|split; [lia|split; [apply heap_set_same; lia|]]]].
    { split; [cbn; rewrite heap_set_length; fold b; lia|]. intros l Hl. cbn [fst].
      rewrite heap_set_other by (fold a0 in Hl; lia). rewrite A12 by (fold a0 in Hl; lia).
      rewrite E1. apply nth_error_app1. exact Hl. }
    split; [|split; [|split]].
    - intros l nd' Gl En. destruct (Nat.eq_dec l a0) as [->|N].
      + rewrite heap_set_same in En by lia. injection En as <-. rewrite K.
        eapply Forall_impl; [|exact R]. intros r. apply ref_in_impl. intros x. apply grow_mono; lia.
      + rewrite heap_set_other in En by exact N.
        assert (G1 : grow Pc (length (fst st1)) b l).
        { destruct Gl as [Pl|[Lo Hi]]; [left; exact Pl|right; unfold inr; lia]. }
        eapply Forall_ref_in_impl; [|apply (C l nd' G1 En)]. intros x. apply grow_mono; lia.
    - eapply treps_impl; [|exact T]. intros r j Vx I.
      apply (trep_region (grow Pc (length (fst st1)) b) _ (fst st2)); [exact C|exact Ag|].
      rewrite Forall_forall in R. apply R, I.
    - intros I. destruct (Sv _ I) as [X|X]; [specialize (Lt _ (Sub _ X)); lia|unfold inr in X; lia].
    - intros x I. destruct (Sv _ I) as [X|X]; [left; exact X|right; unfold inr in *; lia].
  Qed.

  Lemma rr_identity (Pc : nat -> Prop) n st c j V :
    rr_pre Pc st -> ref_in Pc c -> trep n (fst st) c j V -> rr_ok Pc n st st c j V.
  Proof.
    intros Pre R T. split; [apply frame_refl|].
    split; [eapply ref_in_impl; [|exact R]; intros l Pl; left; exact Pl|].
    split; [apply closed_grow_empty, Pre|]. exists V. split; [auto|exact T].
  Qed.

  Lemma frame_snoc (st : dst) nd objs : frame st (fst st ++ [nd], objs).
  Proof. split; cbn; [rewrite app_length; lia|]. intros l Hl. apply nth_error_app1, Hl. Qed.

  Lemma rr_all : forall fr, rr_step fr.
  Proof.
    induction fr as [|f IH]; intros st c st' a E Pc n j V Pre Rc T Sub; [discriminate|].
    cbn [re_restore] in E. destruct c as [x|l]; [injection E as <- <-; apply rr_identity; assumption|].
    destruct (nth_error (fst st) l) as [nd|] eqn:En; [|discriminate].
    destruct nd as [rs|rs|rs|d|c d]; try (injection E as <- <-; apply rr_identity; assumption).
    - (* a list is rebuilt *)
      unfold alloc in E. cbn zeta in E.
      destruct (thread_list (re_restore f) (fst st ++ [NList []], snd st ++ [RLoc (length (fst st))]) rs)
        as [[st2 rs']|e] eqn:ET; [|discriminate].
      injection E as <- <-.
      destruct n as [|n']; [contradiction|]. cbn [trep] in T. rewrite En in T.
      destruct T as (js & V0 & -> & -> & Nl & T).
      pose proof Pre as [Lt Cl].
      set (st1 := (fst st ++ [NList []], snd st ++ [RLoc (length (fst st))])) in *.
      assert (F01 : frame st st1) by apply frame_snoc.
      assert (Pre1 : rr_pre Pc st1) by (apply (rr_pre_frame Pc st); assumption).
      assert (Frs : Forall (ref_in Pc) rs) by (apply (Cl l _ Rc En)).
      assert (T1 : treps (trep n' (fst st1)) rs js V0).
      { eapply treps_impl; [|exact T]. intros r j1 Vx I.
        apply (trep_region Pc _ (fst st)); [exact Cl|apply agree_of_frame; assumption|].
        rewrite Forall_forall in Frs; apply Frs, I. }
      assert (Sub0 : forall x, In x V0 -> Pc x) by (intros; apply Sub; right; assumption).
      destruct (rr_thread f IH _ _ _ _ ET Pc n' js V0 Pre1 Frs T1 Sub0) as (F12 & R2 & C2 & V0' & S2 & T2).
      destruct (finish_container Pc st st1 st2 (NList []) (NList rs') n' rs' js V0 V0'
                  eq_refl Lt F12 eq_refl R2 C2 S2 Sub0 T2) as (Fr & Len & Lt2 & Nth & Cl' & T' & NotIn & S').
      split; [exact Fr|]. split; [right; rewrite Len; unfold inr; lia|]. split; [exact Cl'|].
      exists (length (fst st) :: V0'). split.
      + intros x [<-|I]; [right; rewrite Len; unfold inr; lia|].
        destruct (S' x I) as [?|?]; [left; right; assumption|right; assumption].
      + cbn [trep]. rewrite Nth. exists js, V0'. repeat (split; [reflexivity || assumption|]). exact T'.
    - (* a plain dict is rebuilt *)
      destruct (has_any DISPATCH_TAGS d); [discriminate|].
      unfold alloc in E. cbn zeta in E.
      destruct (thread_items (re_restore f) (fst st ++ [NDict []], snd st) (sort_items d))
        as [[st2 d']|e] eqn:ET; [|discriminate].
      injection E as <- <-.
      destruct n as [|n']; [contradiction|]. cbn [trep] in T. rewrite En in T.
      destruct T as (js & -> & Ck & T).
      pose proof Pre as [Lt Cl].
      assert (Sd : sort_items d = d).
      { apply sort_items_sorted. unfold canon_keys in Ck. apply andb_prop in Ck. apply Ck. }
      rewrite Sd in ET.
      set (st1 := (fst st ++ [NDict []], snd st)) in *.
      assert (F01 : frame st st1) by apply frame_snoc.
      assert (Pre1 : rr_pre Pc st1) by (apply (rr_pre_frame Pc st); assumption).
      assert (Frs : Forall (ref_in Pc) (map snd d)) by (apply (Cl l _ Rc En)).
      apply thread_items_as_list in ET. destruct ET as [ET Kd].
      apply trepi_as_treps in T. destruct T as [Kj T].
      assert (T1 : treps (trep n' (fst st1)) (map snd d) (map snd js) V).
      { eapply treps_impl; [|exact T]. intros r j1 Vx I.
        apply (trep_region Pc _ (fst st)); [exact Cl|apply agree_of_frame; assumption|].
        rewrite Forall_forall in Frs; apply Frs, I. }
      destruct (rr_thread f IH _ _ _ _ ET Pc n' (map snd js) V Pre1 Frs T1 Sub) as (F12 & R2 & C2 & V0' & S2 & T2).
      destruct (finish_container Pc st st1 st2 (NDict []) (NDict d') n' (map snd d') (map snd js) V V0'
                  eq_refl Lt F12 eq_refl R2 C2 S2 Sub T2) as (Fr & Len & Lt2 & Nth & Cl' & T' & NotIn & S').
      split; [exact Fr|]. split; [right; rewrite Len; unfold inr; lia|]. split; [exact Cl'|].
      exists V0'. split; [exact S'|].
      cbn [trep]. rewrite Nth. exists js. split; [reflexivity|]. split; [rewrite Kd; exact Ck|].
      apply trepi_as_treps. split; [rewrite Kd; exact Kj|exact T'].
  Qed.

  (** ---- decoding an id-free canonical encoding gives a tree representation of it ------------------ *)

  Lemma combine_cons (Pc : nat -> Prop) n st s1 s2 a1 j V1 t' js V2 :
    rr_pre Pc st ->
    (forall x, In x V1 -> Pc x) -> (forall x, In x V2 -> Pc x) -> (forall x, In x V1 -> ~ In x V2) ->
    rr_ok Pc n st s1 a1 j V1 -> rrs_ok Pc n s1 s2 t' js V2 ->
    rrs_ok Pc n st s2 (a1 :: t') (j :: js) (V1 ++ V2).
  Proof.
    intros Pre Sub1 Sub2 D (F1 & R1 & C1 & V1' & S1 & T1') (F2 & R2 & C2 & V2' & S2 & T2'').
    pose proof (proj1 F1) as L1. pose proof (proj1 F2) as L2.
    assert (Lt1 : forall l, grow Pc (length (fst st)) (length (fst s1)) l -> l < length (fst s1)).
    { intros l [Pl|[_ Hl]]; [|exact Hl]. destruct Pre as [Lt _]. specialize (Lt l Pl). lia. }
    assert (A2 : agree_on (grow Pc (length (fst st)) (length (fst s1))) (fst s1) (fst s2)).
    { apply agree_of_frame; assumption. }
    split; [eapply frame_trans; eauto|]. split; [|split].
    + constructor.
      * eapply ref_in_impl; [|exact R1]. intros l. apply grow_mono; lia.
      * eapply Forall_impl; [|exact R2]. intros r. apply ref_in_impl. intros l. apply grow_mono; lia.
    + eapply closed_set_equiv with
        (P := fun l => grow Pc (length (fst st)) (length (fst s1)) l \/ grow Pc (length (fst s1)) (length (fst s2)) l).
      * intros l. unfold grow, inr. split; [intros [[?|?]|[?|?]]; auto; right; lia|].
        intros [?|?]; [left; left; assumption|].
        destruct (Nat.lt_ge_cases l (length (fst s1))); [left; right; lia|right; right; lia].
      * apply closed_set_union; [eapply closed_set_agree; eauto|exact C2].
    + exists (V1' ++ V2'). split.
      * intros x I. apply in_app_or in I. destruct I as [I|I].
        -- destruct (S1 x I) as [?|?]; [left; apply in_or_app; auto|right; unfold inr in *; lia].
        -- destruct (S2 x I) as [?|?]; [left; apply in_or_app; auto|right; unfold inr in *; lia].
      * cbn. exists V1', V2'. split; [reflexivity|]. split.
        { apply (trep_region (grow Pc (length (fst st)) (length (fst s1))) _ (fst s1)); assumption. }
        split; [exact T2''|].
        intros x I1 I2. destruct Pre as [Lt _].
        destruct (S1 x I1) as [X1|X1], (S2 x I2) as [X2|X2].
        -- exact (D x X1 X2).
        -- specialize (Lt x (Sub1 x X1)). unfold inr in X2. lia.
        -- specialize (Lt x (Sub2 x X2)). unfold inr in X1. lia.
        -- unfold inr in *. lia.
  Qed.

  Definition NoP : nat -> Prop := fun _ => False.

  Lemma rr_pre_NoP st : rr_pre NoP st.
  Proof. split; [intros l []|intros l nd []]. Qed.

  Definition dec_step (f : nat) : Prop :=
    forall st j st' r, enc_ok f j = true -> decode_aux qp_dec f st j = HOk (st', r) -> rr_ok NoP f st st' r j [].

  Lemma dec_thread f : dec_step f ->
    forall l st st' rs, forallb (enc_ok f) l = true -> thread_list (decode_aux qp_dec f) st l = HOk (st', rs) ->
      rrs_ok NoP f st st' rs l [].
  Proof.
    intros Step. induction l as [|x l IH]; intros st st' rs Ok E; cbn in E.
    - injection E as <- <-. split; [apply frame_refl|]. split; [constructor|].
      split; [apply closed_grow_empty; intros ? ? []|]. exists []. split; [intros ? []|reflexivity].
    - cbn in Ok. apply andb_prop in Ok. destruct Ok as [Ox Ol].
      destruct (decode_aux qp_dec f st x) as [[s1 r1]|e] eqn:E1; [|discriminate].
      destruct (thread_list (decode_aux qp_dec f) s1 l) as [[s2 rs']|e] eqn:E2; [|discriminate].
      injection E as <- <-.
      apply (combine_cons NoP f st s1 s2 r1 x [] rs' l []); try (intros ? []).
      + apply rr_pre_NoP.
      + apply Step; assumption.
      + apply IH; assumption.
  Qed.

  Lemma dec_container f nd nd0 objs1 st l st2 rs :
    dec_step f -> children nd = rs ->
    forallb (enc_ok f) l = true ->
    thread_list (decode_aux qp_dec f) (fst st ++ [nd0], objs1) l = HOk (st2, rs) ->
    let st' := fill st2 (length (fst st)) nd in
    frame st st' /\ length (fst st') = length (fst st2) /\ length (fst st) < length (fst st2) /\
    nth_error (fst st') (length (fst st)) = Some nd /\
    closed_set (grow NoP (length (fst st)) (length (fst st'))) (fst st') /\
    exists V0', treps (trep f (fst st')) rs l V0' /\ ~ In (length (fst st)) V0' /\
                (forall x, In x V0' -> inr (length (fst st)) (length (fst st')) x).
  Proof.
    intros Step K Ok ET.
    destruct (dec_thread f Step _ _ _ _ Ok ET) as (F12 & R2 & C2 & V0' & S2 & T2).
    destruct (finish_container NoP st (fst st ++ [nd0], objs1) st2 nd0 nd f rs l [] V0'
                eq_refl (fun l (F : NoP l) => match F with end) F12 K R2 C2 S2 (fun x (F : In x []) => match F with end) T2)
      as (Fr & Len & Lt2 & Nth & Cl' & T' & NotIn & S').
    cbn zeta. repeat (split; [assumption|]). exists V0'. repeat (split; [assumption|]).
    intros x I. destruct (S' x I) as [[]|?]; assumption.
  Qed.

  Lemma forallb_map_snd {A} (g : A -> bool) (d : list (str * A)) :
    forallb g (map snd d) = forallb (fun kv => g (snd kv)) d.
  Proof. induction d as [|kv d IH]; cbn; [reflexivity|]. rewrite IH. reflexivity. Qed.

  Lemma single_assoc {A} (d : list (str * A)) t v : single d = true -> assoc t d = Some v -> d = [(t, v)].
  Proof.
    destruct d as [|[k x] [|? ?]]; cbn; try discriminate. intros _.
    destruct (str_eqb t k) eqn:E; [|discriminate]. apply str_eqb_eq in E. subst. intros H; injection H as ->. reflexivity.
  Qed.

  Lemma canon_keys_kept ks k : canon_keys ks = true -> In k ks -> kept k = true.
  Proof.
    unfold canon_keys. intros C I. apply andb_prop in C. destruct C as [_ F]. rewrite forallb_forall in F. apply F, I.
  Qed.

  Lemma rr_ok_atom n st a j :
    enc_atom qp a = HOk j -> rr_ok NoP (S n) st st (RAtom a) j [].
  Proof.
    intros E. split; [apply frame_refl|]. split; [exact I|]. split; [apply closed_grow_empty; intros ? ? []|].
    exists []. split; [intros ? []|]. cbn. split; [exact E|reflexivity].
  Qed.

  Lemma self_in_grow (Pc : nat -> Prop) a b : a < b -> ref_in (grow Pc a b) (RLoc a).
  Proof. intros L. right. unfold inr. lia. Qed.

  Lemma self_inr a b : a < b -> inr a b a.
  Proof. unfold inr. lia. Qed.

  Ltac eval_in E t :=
    let b := eval vm_compute in t in change t with b in E.

  Lemma dec_all : forall f, dec_step f.
  Proof.
    induction f as [|f IH]; intros st j st' r Ok E; [discriminate|].
    cbn [decode_aux] in E. cbn [enc_ok] in Ok.
    destruct j as [|b|z|x|s|l|d]; try (injection E as <- <-; apply rr_ok_atom; reflexivity).
    - (* JArr *)
      unfold alloc in E. cbn zeta in E.
      destruct (thread_list (decode_aux qp_dec f) (fst st ++ [NList []], snd st ++ [RLoc (length (fst st))]) l)
        as [[st2 rs]|e] eqn:ET; [|discriminate].
      injection E as <- <-.
      destruct (dec_container f (NList rs) (NList []) _ st l st2 rs IH eq_refl Ok ET)
        as (Fr & Len & Lt2 & Nth & Cl' & V0' & T' & NotIn & S'); unfold heap in *.
      split; [exact Fr|]. split; [apply self_in_grow; unfold fill; cbn [fst]; rewrite ?heap_set_length; exact Lt2|]. split; [exact Cl'|].
      exists (length (fst st) :: V0'). split.
      + intros x [<-|I]; right; [apply self_inr; unfold fill; cbn [fst]; rewrite ?heap_set_length; exact Lt2|apply S', I].
      + cbn [trep]. unfold heap in *. rewrite Nth. exists l, V0'. repeat (split; [reflexivity || assumption|]). exact T'.
    - (* JObj: the decoder's dispatch *)
      destruct (assoc TAG_BYTES d) as [jb|] eqn:Eb.
      { destruct jb as [| | | |s| |]; try discriminate. apply andb_prop in Ok. destruct Ok as [Sg Q].
        apply str_eqb_eq in Q. rewrite (single_assoc _ _ _ Sg Eb). injection E as <- <-.
        apply rr_ok_atom. cbn. rewrite Q. reflexivity. }
      destruct (assoc TAG_ID d) as [ji|]; [discriminate|].
      destruct (has_any [U"py/ref"; U"py/iterator"] d); [discriminate|].
      destruct (assoc TAG_TYPE d) as [jt|] eqn:Et.
      { destruct jt as [| | | |p| |]; try discriminate. rewrite (single_assoc _ _ _ Ok Et). injection E as <- <-.
        apply rr_ok_atom. reflexivity. }
      destruct (has_any [U"py/repr"; U"py/reduce"] d); [discriminate|].
      destruct (assoc TAG_OBJECT d) as [jo|] eqn:Eo.
      { (* a plain object: py/object + py/state *)
        destruct d as [|[k1 v1] d1]; [discriminate Eo|].
        destruct d1 as [|[k2 v2] d2]; [destruct v1; discriminate Ok|].
        destruct d2 as [|? ?]; [|destruct v1; try discriminate Ok; destruct v2; discriminate Ok].
        destruct v1 as [| | | |c| |]; try discriminate Ok. destruct v2 as [| | | | | |items]; try discriminate Ok.
        apply andb_prop in Ok. destruct Ok as [Ok Oi]. apply andb_prop in Ok. destruct Ok as [Ok Ck].
        apply andb_prop in Ok. destruct Ok as [Ok Ne]. apply andb_prop in Ok. destruct Ok as [K1 K2].
        apply str_eqb_eq in K1, K2. subst k1 k2.
        vm_compute in Eo. injection Eo as <-.
        unfold alloc in E. cbn zeta in E.
        match type of E with context [existsb ?p ?l] => eval_in E (existsb p l) end.
        match type of E with context [assoc TAG_STATE ?l] => eval_in E (assoc TAG_STATE l) end.
        cbv iota in E.
        set (st1 := (fst st ++ [NObj c []], snd st ++ [RLoc (length (fst st))])) in *.
        destruct (decode_aux qp_dec f st1 (JObj items)) as [[st2 sref]|e] eqn:ES; [|discriminate].
        destruct (IH _ _ _ _ Oi ES) as (F12 & Rs & Cs & Vs & Ss & Ts).
        destruct f as [|f']; [discriminate Oi|].
        cbn [trep] in Ts.
        destruct sref as [a|sl].
        { exfalso. destruct Ts as [Ea _]. destruct a; cbn in Ea; try discriminate; injection Ea as <-;
            vm_compute in Ck; discriminate Ck. }
        destruct (nth_error (fst st2) sl) as [snd_|] eqn:En; [|contradiction].
        destruct snd_ as [rs|rs|rs|d0|c0 d0].
        - exfalso. destruct Ts as (js & V' & Ej & _). discriminate Ej.
        - exfalso. destruct Ts as (js & Ej & _). injection Ej as ->. vm_compute in Ck. discriminate Ck.
        - exfalso. destruct Ts as (js & Ej & _). injection Ej as ->. vm_compute in Ck. discriminate Ck.
        - destruct Ts as (js & Ej & Ck0 & Ti). injection Ej as <-.
          assert (Sd0 : sort_items d0 = d0).
          { apply sort_items_sorted. unfold canon_keys in Ck0. apply andb_prop in Ck0. apply Ck0. }
          rewrite Sd0 in E.
          destruct (thread_items (re_restore (S f')) st2 d0) as [[st3 attrs]|e] eqn:ET; [|discriminate].
          injection E as <- <-.
          apply thread_items_as_list in ET. destruct ET as [ET Ka].
          apply trepi_as_treps in Ti. destruct Ti as [Kj Tt].
          pose proof (proj1 F12) as L12. unfold heap in *.
          set (a1 := length (fst st1)) in *. set (b1 := length (fst st2)) in *.
          assert (Pre2 : rr_pre (inr a1 b1) st2).
          { split; [intros l [_ H]; exact H|]. eapply closed_set_equiv; [|exact Cs].
            intros l. unfold grow, NoP. tauto. }
          assert (Psl : inr a1 b1 sl) by (destruct Rs as [[]|H]; exact H).
          assert (Frs : Forall (ref_in (inr a1 b1)) (map snd d0)) by (apply (proj2 Pre2 sl _ Psl En)).
          assert (SubV : forall x, In x Vs -> inr a1 b1 x) by (intros x I; destruct (Ss x I) as [[]|H]; exact H).
          destruct (rr_thread (S f') (rr_all (S f')) _ _ _ _ ET (inr a1 b1) f' (map snd items) Vs Pre2 Frs Tt SubV)
            as (F23 & R3 & C3 & V3 & S3 & T3).
          pose proof (proj1 F23) as L23. unfold heap in *. fold b1 in L23, R3, C3, S3.
          set (b3 := length (fst st3)) in *.
          assert (R3' : Forall (ref_in (grow NoP a1 b3)) (map snd attrs)).
          { eapply Forall_impl; [|exact R3]. intros r0. apply ref_in_impl. intros l [[? ?]|[? ?]]; right; subst a1 b1 b3; unfold heap, inr in *; lia. }
          assert (C3' : closed_set (grow NoP a1 b3) (fst st3)).
          { eapply closed_set_equiv; [|exact C3]. intros l. unfold grow, NoP, inr. split.
            - intros [[? ?]|[? ?]]; right; subst a1 b1 b3; unfold heap in *; lia.
            - intros [[]|[? ?]]. destruct (Nat.lt_ge_cases l b1); [left|right]; subst a1 b1 b3; unfold heap in *; lia. }
          assert (S3' : forall x, In x V3 -> In x [] \/ inr a1 b3 x).
          { intros x I. right. destruct (S3 x I) as [X|[? ?]]; [apply SubV in X; subst a1 b1 b3; unfold heap, inr in *; lia|subst a1 b1 b3; unfold heap, inr in *; lia]. }
          destruct (finish_container NoP st st1 st3 (NObj c []) (NObj c attrs) f' (map snd attrs) (map snd items) [] V3
                      eq_refl (fun l (F : NoP l) => match F with end) (frame_trans _ _ _ F12 F23) eq_refl R3' C3' S3'
                      (fun x (F : In x []) => match F with end) T3)
            as (Fr & Len & Lt2 & Nth & Cl' & T' & NotIn & S'); unfold heap in *.
          split; [exact Fr|]. split; [apply self_in_grow; unfold fill; cbn [fst]; rewrite ?heap_set_length; exact Lt2|]. split; [exact Cl'|].
          exists (length (fst st) :: V3). split.
          + intros x [<-|I]; right; [apply self_inr; unfold fill; cbn [fst]; rewrite ?heap_set_length; exact Lt2|]. destruct (S' x I) as [[]|H]; exact H.
          + cbn [trep]. unfold heap in *. rewrite Nth. exists items, V3.
            split; [reflexivity|]. split; [reflexivity|]. split; [exact NotIn|].
            split.
            { intros ->. cbn in Ka. rewrite <- Ka in Kj. destruct items; [discriminate Ne|discriminate Kj]. }
            split; [rewrite Ka; exact Ck0|].
            apply trepi_as_treps. split; [rewrite Ka; exact Kj|].
            eapply treps_impl; [|exact T']. intros r0 j0 V1 _ T0. apply (trep_mono f' (S f')); [lia|exact T0].
        - exfalso. destruct Ts as (js & V' & Ej & _). injection Ej as ->. vm_compute in Ck. discriminate Ck. }
      destruct (has_any [U"py/function"] d); [discriminate|].
      destruct (assoc TAG_TUPLE d) as [jt|] eqn:Etu.
      { destruct jt as [| | | | |l|]; try discriminate. apply andb_prop in Ok. destruct Ok as [Sg Ol].
        rewrite (single_assoc _ _ _ Sg Etu).
        unfold alloc in E. cbn zeta in E.
        destruct (thread_list (decode_aux qp_dec f) (fst st ++ [NTuple []], snd st) l) as [[st2 rs]|e] eqn:ET; [|discriminate].
        injection E as <- <-.
        destruct (dec_container f (NTuple rs) (NTuple []) _ st l st2 rs IH eq_refl Ol ET)
          as (Fr & Len & Lt2 & Nth & Cl' & V0' & T' & NotIn & S'); unfold heap in *.
        split; [exact Fr|]. split; [apply self_in_grow; unfold fill; cbn [fst]; rewrite ?heap_set_length; exact Lt2|]. split; [exact Cl'|].
        exists V0'. split; [intros x I; right; apply S', I|].
        cbn [trep]. unfold heap in *. rewrite Nth. exists l. split; [reflexivity|exact T']. }
      destruct (assoc TAG_SET d) as [js|] eqn:Ese.
      { destruct js as [| | | | |l|]; try discriminate. apply andb_prop in Ok. destruct Ok as [Sg Ol].
        rewrite (single_assoc _ _ _ Sg Ese).
        unfold alloc in E. cbn zeta in E.
        destruct (thread_list (decode_aux qp_dec f) (fst st ++ [NSet []], snd st) l) as [[st2 rs]|e] eqn:ET; [|discriminate].
        injection E as <- <-.
        destruct (dec_container f (NSet rs) (NSet []) _ st l st2 rs IH eq_refl Ol ET)
          as (Fr & Len & Lt2 & Nth & Cl' & V0' & T' & NotIn & S'); unfold heap in *.
        split; [exact Fr|]. split; [apply self_in_grow; unfold fill; cbn [fst]; rewrite ?heap_set_length; exact Lt2|]. split; [exact Cl'|].
        exists V0'. split; [intros x I; right; apply S', I|].
        cbn [trep]. unfold heap in *. rewrite Nth. exists l. split; [reflexivity|exact T']. }
      (* a plain dict *)
      apply andb_prop in Ok. destruct Ok as [Ck Od].
      assert (Sd : sort_items d = d).
      { apply sort_items_sorted. unfold canon_keys in Ck. apply andb_prop in Ck. apply Ck. }
      rewrite Sd in E. unfold alloc in E. cbn zeta in E.
      destruct (thread_items (decode_aux qp_dec f) (fst st ++ [NDict []], snd st) d) as [[st2 d']|e] eqn:ET; [|discriminate].
      injection E as <- <-.
      apply thread_items_as_list in ET. destruct ET as [ET Kd].
      rewrite <- forallb_map_snd in Od.
      destruct (dec_container f (NDict d') (NDict []) _ st (map snd d) st2 (map snd d') IH eq_refl Od ET)
        as (Fr & Len & Lt2 & Nth & Cl' & V0' & T' & NotIn & S'); unfold heap in *.
      split; [exact Fr|]. split; [apply self_in_grow; unfold fill; cbn [fst]; rewrite ?heap_set_length; exact Lt2|]. split; [exact Cl'|].
      exists V0'. split; [intros x I; right; apply S', I|].
      cbn [trep]. unfold heap in *. rewrite Nth. exists d. split; [reflexivity|]. split; [rewrite Kd; exact Ck|].
      apply trepi_as_treps. split; [rewrite Kd; reflexivity|exact T'].
  Qed.

  (** ---- the round trip ------------------------------------------------------------------------------ *)

  Theorem roundtrip_idfree fuel h j h' r :
    enc_ok fuel j = true ->
    decode_h qp_dec fuel h j = HOk (h', r) ->
    encode_top qp fuel h' r = HOk j.
  Proof.
    unfold decode_h, encode_top. intros Ok D.
    destruct (decode_aux qp_dec fuel (h, []) j) as [[st' r0]|e] eqn:E; [|discriminate].
    injection D as <- <-.
    destruct (dec_all fuel _ _ _ _ Ok E) as (_ & _ & _ & V & _ & T).
    rewrite (trep_encode fuel (fst st') r0 j V T []); [reflexivity|]. intros x _ [].
  Qed.

  (** C11_copy_faithful_partial *)
  Theorem copy_faithful fuel h r j h' r' :
    encode_top qp fuel h r = HOk j -> enc_ok fuel j = true ->
    pickle_copy qp qp_dec fuel h r = HOk (h', r') ->
    encode_top qp fuel h' r' = HOk j.
  Proof.
    intros EJ Ok PC. unfold pickle_copy in PC. rewrite EJ in PC. eapply roundtrip_idfree; eauto.
  Qed.

  (** a read returns data that encodes like the stored datum *)
  Corollary get_data_faithful fuel h rec k stored j h' r :
    get_data_direct h rec k = Some stored ->
    encode_top qp fuel h stored = HOk j -> enc_ok fuel j = true ->
    get_data qp qp_dec fuel h rec k = HOk (h', r) ->
    encode_top qp fuel h' r = HOk j.
  Proof.
    intros ED EJ Ok G. unfold get_data in G. rewrite ED in G. eapply copy_faithful; eauto.
  Qed.

  (** with copy-on-interception what is recorded encodes like the result did at capture *)
  Corollary copy_on_faithful fuel h rec k result j h1 r' h2 :
    rec < length h ->
    encode_top qp fuel h result = HOk j -> enc_ok fuel j = true ->
    pickle_copy qp qp_dec fuel h result = HOk (h1, r') ->
    record_value qp qp_dec true fuel h rec k result = HOk h2 ->
    recorded_value h2 rec k = Some r' /\ encode_top qp fuel h2 r' = HOk j.
  Proof.
    intros Lr EJ Ok PC RV.
    destruct (copy_on_interception qp qp_dec _ _ _ _ _ _ _ _ Lr PC RV) as (RVal & _ & _ & _ & _ & Same & _ & Fr).
    split; [exact RVal|].
    pose proof (copy_faithful _ _ _ _ _ _ EJ Ok PC) as E1. unfold encode_top in *.
    rewrite <- (Fr h1); [exact E1|]. intros l Hl. apply Same, Hl.
  Qed.
End RT.
