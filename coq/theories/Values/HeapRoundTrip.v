(** Round trip of a copy (C11_copy_faithful_partial): for JSON that is a canonical encoder
    output WITHOUT py/id (no list or object met twice), decoding it and encoding the decoded
    graph gives the same JSON.  (With py/id the statement is false for the faithful model: the
    decoder's second pass over object state shifts the id table, HeapFacts / Properties.C11
    [C11_copy_of_shared_lists_can_differ].) *)
From Playback Require Import Base.Str Base.StrFacts Values.PyVal Values.SortFacts Values.Codec Values.Heap Values.HeapFacts.
From Coq Require Import Permutation Lia Arith.
Open Scope list_scope.

(** ---- canonical key lists -------------------------------------------------------------------- *)

Fixpoint sorted_keys (ks : list str) : bool :=
  match ks with
  | [] => true
  | k :: t => match t with [] => true | k' :: _ => str_ltb k k' && sorted_keys t end
  end.

Definition canon_keys (ks : list str) : bool := sorted_keys ks && forallb kept ks.

Lemma sorted_keys_tail k t : sorted_keys (k :: t) = true -> sorted_keys t = true.
Proof. cbn. destruct t as [|k' t]; [reflexivity|]. intros H. apply andb_prop in H. apply H. Qed.

Lemma sort_items_sorted {A} (d : list (str * A)) : sorted_keys (map fst d) = true -> sort_items d = d.
Proof.
  induction d as [|[k x] d IH]; intros S; [reflexivity|].
  cbn [sort_items]. rewrite IH by (eapply sorted_keys_tail; exact S).
  destruct d as [|[k' x'] d]; [reflexivity|]. cbn in S. apply andb_prop in S. destruct S as [Lt _].
  cbn [insert_item fst]. rewrite (str_ltb_asym _ _ Lt). reflexivity.
Qed.

Lemma filter_kept_all {A} (d : list (str * A)) :
  forallb kept (map fst d) = true -> filter (fun kv => kept (fst kv)) d = d.
Proof.
  induction d as [|[k x] d IH]; intros F; [reflexivity|]. cbn in *. apply andb_prop in F. destruct F as [Fk Fd].
  rewrite Fk, IH by exact Fd. reflexivity.
Qed.

Lemma pick_items_canon {A} (d : list (str * A)) : canon_keys (map fst d) = true -> pick_items d = d.
Proof.
  unfold canon_keys, pick_items. intros C. apply andb_prop in C. destruct C as [S F].
  rewrite sort_items_sorted by exact S. apply filter_kept_all, F.
Qed.

(** ---- id-free canonical encoder output (follows the decoder's dispatch) ----------------------- *)

Section RT.
  Variable qp : list N -> str.
  Variable qp_dec : str -> list N.

  Definition single {A} (d : list A) : bool := match d with [_] => true | _ => false end.

  Fixpoint enc_ok (fuel : nat) (j : json) : bool :=
    match fuel with
    | O => false
    | S f =>
      match j with
      | JNull | JBool _ | JInt _ | JFloat _ | JStr _ => true
      | JArr l => forallb (enc_ok f) l
      | JObj d =>
        match assoc TAG_BYTES d with
        | Some (JStr s) => single d && str_eqb (qp (qp_dec s)) s
        | Some _ => false
        | None =>
        match assoc TAG_ID d with
        | Some _ => false
        | None =>
        if has_any [U"py/ref"; U"py/iterator"] d then false else
        match assoc TAG_TYPE d with
        | Some (JStr _) => single d
        | Some _ => false
        | None =>
        if has_any [U"py/repr"; U"py/reduce"] d then false else
        match assoc TAG_OBJECT d with
        | Some _ =>
            match d with
            | [(k1, JStr c); (k2, JObj items)] =>
                str_eqb k1 TAG_OBJECT && str_eqb k2 TAG_STATE &&
                negb (match items with [] => true | _ => false end) &&
                canon_keys (map fst items) && enc_ok f (JObj items)
            | _ => false
            end
        | None =>
        if has_any [U"py/function"] d then false else
        match assoc TAG_TUPLE d with
        | Some (JArr l) => single d && forallb (enc_ok f) l
        | Some _ => false
        | None =>
        match assoc TAG_SET d with
        | Some (JArr l) => single d && forallb (enc_ok f) l
        | Some _ => false
        | None => canon_keys (map fst d) && forallb (fun kv => enc_ok f (snd kv)) d
        end end end end end end
      end
    end.

  (** ---- tree representation: [r] in [h] is a tree-shaped graph whose encoding is [j]; [V] are
      the locations of its lists and objects in the order the pickler logs them ---------------- *)

  Fixpoint treps (P : ref -> json -> list nat -> Prop) (rs : list ref) (js : list json) (V : list nat) : Prop :=
    match rs, js with
    | [], [] => V = []
    | r :: rs', j :: js' =>
        exists V1 V2, V = V1 ++ V2 /\ P r j V1 /\ treps P rs' js' V2 /\ (forall x, In x V1 -> ~ In x V2)
    | _, _ => False
    end.

  Fixpoint trepi (P : ref -> json -> list nat -> Prop) (d : list (str * ref)) (js : list (str * json)) (V : list nat) : Prop :=
    match d, js with
    | [], [] => V = []
    | (k, r) :: d', (k', j) :: js' =>
        k = k' /\ exists V1 V2, V = V1 ++ V2 /\ P r j V1 /\ trepi P d' js' V2 /\ (forall x, In x V1 -> ~ In x V2)
    | _, _ => False
    end.

  Fixpoint trep (n : nat) (h : heap) (r : ref) (j : json) (V : list nat) : Prop :=
    match n with
    | O => False
    | S n' =>
      match r with
      | RAtom a => enc_atom qp a = HOk j /\ V = []
      | RLoc l =>
        match nth_error h l with
        | None => False
        | Some (NList rs) =>
            exists js V', j = JArr js /\ V = l :: V' /\ ~ In l V' /\ treps (trep n' h) rs js V'
        | Some (NTuple rs) => exists js, j = JObj [(TAG_TUPLE, JArr js)] /\ treps (trep n' h) rs js V
        | Some (NSet rs) => exists js, j = JObj [(TAG_SET, JArr js)] /\ treps (trep n' h) rs js V
        | Some (NDict d) =>
            exists js, j = JObj js /\ canon_keys (map fst d) = true /\ trepi (trep n' h) d js V
        | Some (NObj c d) =>
            exists js V', j = JObj [(TAG_OBJECT, JStr c); (TAG_STATE, JObj js)] /\ V = l :: V' /\ ~ In l V' /\
                          d <> [] /\ canon_keys (map fst d) = true /\ trepi (trep n' h) d js V'
        end
      end
    end.

  Lemma treps_impl (P Q : ref -> json -> list nat -> Prop) rs :
    forall js V, (forall r j V1, In r rs -> P r j V1 -> Q r j V1) -> treps P rs js V -> treps Q rs js V.
  Proof.
    induction rs as [|r rs IH]; intros [|j js] V H T; cbn in *; auto.
    destruct T as (V1 & V2 & E & P1 & T2 & D). exists V1, V2. repeat split; auto.
  Qed.

  Lemma trepi_impl (P Q : ref -> json -> list nat -> Prop) d :
    forall js V, (forall r j V1, In r (map snd d) -> P r j V1 -> Q r j V1) -> trepi P d js V -> trepi Q d js V.
  Proof.
    induction d as [|[k r] d IH]; intros [|[k' j] js] V H T; cbn in *; auto.
    destruct T as (Ek & V1 & V2 & E & P1 & T2 & D). split; [exact Ek|]. exists V1, V2. repeat split; auto.
  Qed.

  Lemma trepi_keys P d : forall js V, trepi P d js V -> map fst js = map fst d.
  Proof.
    induction d as [|[k r] d IH]; intros [|[k' j] js] V T; cbn in *; try contradiction; [reflexivity|].
    destruct T as (-> & V1 & V2 & _ & _ & T2 & _). f_equal. eapply IH; eauto.
  Qed.

  Lemma trep_mono : forall n m h r j V, n <= m -> trep n h r j V -> trep m h r j V.
  Proof.
    induction n as [|n IH]; intros m h r j V L T; [contradiction|].
    destruct m as [|m]; [lia|]. cbn [trep] in *. destruct r as [a|l]; [exact T|].
    destruct (nth_error h l) as [nd|]; [|contradiction].
    assert (M : forall r j V1, trep n h r j V1 -> trep m h r j V1) by (intros; eapply IH; eauto; lia).
    destruct nd as [rs|rs|rs|d|c d].
    - destruct T as (js & V' & ? & ? & ? & T). exists js, V'. repeat (split; [assumption|]).
      eapply treps_impl; [|exact T]. intros; apply M; assumption.
    - destruct T as (js & ? & T). exists js. split; [assumption|].
      eapply treps_impl; [|exact T]. intros; apply M; assumption.
    - destruct T as (js & ? & T). exists js. split; [assumption|].
      eapply treps_impl; [|exact T]. intros; apply M; assumption.
    - destruct T as (js & ? & ? & T). exists js. repeat (split; [assumption|]).
      eapply trepi_impl; [|exact T]. intros; apply M; assumption.
    - destruct T as (js & V' & ? & ? & ? & ? & ? & T). exists js, V'. repeat (split; [assumption|]).
      eapply trepi_impl; [|exact T]. intros; apply M; assumption.
  Qed.

  (** the representation only depends on the nodes reachable from [r] *)
  Lemma trep_frame : forall n h h' r j V,
    (forall l, reach h r l -> nth_error h l = nth_error h' l) -> trep n h r j V -> trep n h' r j V.
  Proof.
    induction n as [|n IH]; intros h h' r j V A T; [contradiction|].
    cbn [trep] in *. destruct r as [a|l]; [exact T|].
    rewrite <- (A l (reach_here _ _)).
    destruct (nth_error h l) as [nd|] eqn:En; [|contradiction].
    assert (M : forall c j V1, In c (children nd) -> trep n h c j V1 -> trep n h' c j V1).
    { intros c j1 V1 I. apply IH. intros x Rx. apply A. eapply reach_step; eauto. }
    destruct nd as [rs|rs|rs|d|c d]; cbn [children] in M.
    - destruct T as (js & V' & ? & ? & ? & T). exists js, V'. repeat (split; [assumption|]).
      eapply treps_impl; [|exact T]. intros; apply M; assumption.
    - destruct T as (js & ? & T). exists js. split; [assumption|].
      eapply treps_impl; [|exact T]. intros; apply M; assumption.
    - destruct T as (js & ? & T). exists js. split; [assumption|].
      eapply treps_impl; [|exact T]. intros; apply M; assumption.
    - destruct T as (js & ? & ? & T). exists js. repeat (split; [assumption|]).
      eapply trepi_impl; [|exact T]. intros; apply M; assumption.
    - destruct T as (js & V' & ? & ? & ? & ? & ? & T). exists js, V'. repeat (split; [assumption|]).
      eapply trepi_impl; [|exact T]. intros; apply M; assumption.
  Qed.

  Lemma trep_region (P : nat -> Prop) n h h' r j V :
    closed_set P h -> agree_on P h h' -> ref_in P r -> trep n h r j V -> trep n h' r j V.
  Proof.
    intros C A R. apply trep_frame. intros l Rl. apply A. eapply reach_closed; eauto.
  Qed.

  (** ---- a tree representation encodes to its JSON --------------------------------------------- *)

  Lemma index_of_None l seen : ~ In l seen -> index_of l seen = None.
  Proof.
    induction seen as [|x t IH]; intros N; [reflexivity|]. cbn.
    destruct (Nat.eqb x l) eqn:E; [apply Nat.eqb_eq in E; subst; exfalso; apply N; left; reflexivity|].
    rewrite IH; [reflexivity|]. intros I. apply N. right. exact I.
  Qed.

  Definition fresh_for (V seen : list nat) : Prop := forall x, In x V -> ~ In x seen.

  Lemma treps_thread (P : ref -> json -> list nat -> Prop) (F : list nat -> ref -> hres (list nat * json)) :
    (forall r j V1, P r j V1 -> forall seen, fresh_for V1 seen -> F seen r = HOk (seen ++ V1, j)) ->
    forall rs js V, treps P rs js V -> forall seen, fresh_for V seen ->
      thread_list F seen rs = HOk (seen ++ V, js).
  Proof.
    intros H. induction rs as [|r rs IH]; intros [|j js] V T seen Fr; cbn in T; try contradiction.
    - subst. cbn. rewrite app_nil_r. reflexivity.
    - destruct T as (V1 & V2 & -> & P1 & T2 & D). cbn.
      rewrite (H _ _ _ P1 seen) by (intros x I; apply Fr, in_or_app; left; exact I).
      rewrite (IH _ _ T2 (seen ++ V1)).
      + rewrite app_assoc. reflexivity.
      + intros x I2 I. apply in_app_or in I. destruct I as [I|I].
        * apply (Fr x); [apply in_or_app; right; exact I2|exact I].
        * apply (D x I I2).
  Qed.

  Lemma trepi_thread (P : ref -> json -> list nat -> Prop) (F : list nat -> ref -> hres (list nat * json)) :
    (forall r j V1, P r j V1 -> forall seen, fresh_for V1 seen -> F seen r = HOk (seen ++ V1, j)) ->
    forall d js V, trepi P d js V -> forall seen, fresh_for V seen ->
      thread_items F seen d = HOk (seen ++ V, js).
  Proof.
    intros H. unfold thread_items.
    induction d as [|[k r] d IH]; intros [|[k' j] js] V T seen Fr; cbn in T; try contradiction.
    - subst. cbn. rewrite app_nil_r. reflexivity.
    - destruct T as (-> & V1 & V2 & -> & P1 & T2 & D). cbn. unfold on_item at 1. cbn [snd fst].
      rewrite (H _ _ _ P1 seen) by (intros x I; apply Fr, in_or_app; left; exact I).
      rewrite (IH _ _ T2 (seen ++ V1)).
      + rewrite app_assoc. reflexivity.
      + intros x I2 I. apply in_app_or in I. destruct I as [I|I].
        * apply (Fr x); [apply in_or_app; right; exact I2|exact I].
        * apply (D x I I2).
  Qed.

  Theorem trep_encode : forall n h r j V,
    trep n h r j V -> forall seen, fresh_for V seen -> encode_h qp n h seen r = HOk (seen ++ V, j).
  Proof.
    induction n as [|n IH]; intros h r j V T seen Fr; [contradiction|].
    cbn [trep encode_h] in *. destruct r as [a|l].
    { destruct T as [E ->]. rewrite E, app_nil_r. reflexivity. }
    destruct (nth_error h l) as [nd|]; [|contradiction].
    assert (K : forall r j V1, trep n h r j V1 -> forall seen, fresh_for V1 seen ->
                encode_h qp n h seen r = HOk (seen ++ V1, j)) by (intros; apply IH; assumption).
    destruct nd as [rs|rs|rs|d|c d].
    - destruct T as (js & V' & -> & -> & Nl & T).
      rewrite index_of_None by (apply Fr; left; reflexivity).
      rewrite (treps_thread _ _ K _ _ _ T (seen ++ [l])).
      + rewrite <- app_assoc. reflexivity.
      + intros x I I2. apply in_app_or in I2. destruct I2 as [I2|[<-|[]]]; [|exact (Nl I)].
        apply (Fr x); [right; exact I|exact I2].
    - destruct T as (js & -> & T). rewrite (treps_thread _ _ K _ _ _ T seen Fr). reflexivity.
    - destruct T as (js & -> & T). rewrite (treps_thread _ _ K _ _ _ T seen Fr). reflexivity.
    - destruct T as (js & -> & C & T). rewrite (pick_items_canon d C).
      rewrite (trepi_thread _ _ K _ _ _ T seen Fr). reflexivity.
    - destruct T as (js & V' & -> & -> & Nl & Nd & C & T).
      rewrite index_of_None by (apply Fr; left; reflexivity).
      destruct d as [|kv d]; [contradiction Nd; reflexivity|].
      rewrite (pick_items_canon _ C).
      rewrite (trepi_thread _ _ K _ _ _ T (seen ++ [l])).
      + rewrite <- app_assoc. reflexivity.
      + intros x I I2. apply in_app_or in I2. destruct I2 as [I2|[<-|[]]]; [|exact (Nl I)].
        apply (Fr x); [right; exact I|exact I2].
  Qed.
End RT.
