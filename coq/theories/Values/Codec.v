(** Model A, part 2: jsonpickle 0.9.3 [encode(v, unpicklable=True)] / [decode] on the tree
    domain, as observed on this interpreter (Python 3.12): Pickler._flatten + json.dumps with
    default separators and ensure_ascii, and Unpickler._restore.  Executable definitions only. *)
From Playback Require Import Base.Str Values.PyVal.
Open Scope list_scope.

Inductive json :=
| JNull
| JBool (b : bool)
| JInt (z : Z)
| JFloat (repr : str)        (* a float, printed by json.dumps as float.__repr__ *)
| JStr (s : str)
| JArr (l : list json)
| JObj (l : list (str * json)).

Section Bytes.
  (** [quopri.encodestring(b).decode()] / [quopri.decodestring] are oracles *)
  Variable qp : list N -> str.
  Variable qp_dec : str -> list N.

  (** None = the encoder raises *)
  (* reserved dict keys are dropped (util.is_picklable); the library sorts the items by key
     before flattening them, which gives the same list as sorting the flattened items by key *)
  Definition kept (k : str) : bool := negb (reserved k).
  Fixpoint flatten (v : pyval) : option json :=
    match v with
    | VNone => Some JNull
    | VBool b => Some (JBool b)
    | VInt z => Some (JInt z)
    | VFloat r => Some (JFloat r)
    | VStr s => Some (JStr s)
    | VBytes b => Some (JObj [(U"py/bytes", JStr (qp b))])
    | VList l => option_map JArr (opt_map_list flatten l)
    | VTuple l => option_map (fun js => JObj [(U"py/tuple", JArr js)]) (opt_map_list flatten l)
    | VSet l => option_map (fun js => JObj [(U"py/set", JArr js)]) (opt_map_list flatten l)
    | VDict d => option_map (fun js => JObj (sort_items js)) (opt_map_items kept flatten d)
    | VObj c d =>
        match d with
        | [] => Some (JObj [(U"py/object", JStr c); (U"py/state", JNull)])
        | _ => option_map (fun js => JObj [(U"py/object", JStr c); (U"py/state", JObj (sort_items js))])
                          (opt_map_items kept flatten d)
        end
    | VClass p => Some (JObj [(U"py/type", JStr p)])
    | VUnser _ => None
    end.

  (** Unpickler._restore on what flatten produces (tag dispatch in the library's order).
      None = the decoder raises or the shape is outside the model. *)
  Fixpoint restore (j : json) : option pyval :=
    match j with
    | JNull => Some VNone
    | JBool b => Some (VBool b)
    | JInt z => Some (VInt z)
    | JFloat r => Some (VFloat r)
    | JStr s => Some (VStr s)
    | JArr l => option_map VList (opt_map_list restore l)
    | JObj d =>
        (* children are restored first, then the object is re-read by its tag, with the
           has_tag checks in the library's order (unpickler.py _restore) *)
        match opt_map_items (fun _ => true) restore d with
        | None => None
        | Some items =>
        match assoc (U"py/bytes") items with
        | Some (VStr s) => Some (VBytes (qp_dec s))
        | Some _ => None
        | None =>
        if has_any [U"py/id"; U"py/ref"; U"py/iterator"] items then None
        else match assoc (U"py/type") items with
        | Some (VStr p) => Some (VClass p)
        | Some _ => None
        | None =>
        if has_any [U"py/repr"; U"py/reduce"] items then None
        else match assoc (U"py/object") items with
        | Some (VStr c) =>
            match assoc (U"py/state") items with
            | Some VNone => Some VNone              (* attribute-less object: comes back as None *)
            | Some (VDict a) => Some (VObj c a)
            | _ => None
            end
        | Some _ => None
        | None =>
        if has_any [U"py/function"] items then None
        else match assoc (U"py/tuple") items with
        | Some (VList l) => Some (VTuple l)
        | Some _ => None
        | None =>
        match assoc (U"py/set") items with
        | Some (VList l) => Some (VSet l)
        | Some _ => None
        | None => Some (VDict items)
        end end end end end end
    end.
End Bytes.

(** ---- json.dumps (default separators ", " and ": ", ensure_ascii=True) ---- *)

Definition hex_digit (n : N) : N := if (n <? 10)%N then (48 + n)%N else (87 + n)%N.  (* lower case *)
Definition hex4 (n : N) : str :=
  [hex_digit (n / 4096 mod 16); hex_digit (n / 256 mod 16); hex_digit (n / 16 mod 16); hex_digit (n mod 16)]%N.
Definition uesc (n : N) : str := 92%N :: 117%N :: hex4 n.       (* \uXXXX *)

Definition esc_char (c : N) : str :=
  if (c =? 34)%N then [92; 34]%N
  else if (c =? 92)%N then [92; 92]%N
  else if (c =? 10)%N then [92; 110]%N
  else if (c =? 13)%N then [92; 114]%N
  else if (c =? 9)%N then [92; 116]%N
  else if (c =? 8)%N then [92; 98]%N
  else if (c =? 12)%N then [92; 102]%N
  else if ((32 <=? c) && (c <=? 126))%N then [c]
  else if (c <? 65536)%N then uesc c
  else (* surrogate pair *)
    let v := (c - 65536)%N in
    uesc (55296 + v / 1024)%N ++ uesc (56320 + v mod 1024)%N.

Definition dumps_str (s : str) : str := 34%N :: flat_map esc_char s ++ [34%N].

Fixpoint dumps (j : json) : str :=
  match j with
  | JNull => U"null"
  | JBool true => U"true"
  | JBool false => U"false"
  | JInt z => show_Z z
  | JFloat r => r
  | JStr s => dumps_str s
  | JArr l =>
      U"[" ++ (fix go (l : list json) : str :=
                 match l with
                 | [] => []
                 | [x] => dumps x
                 | x :: l' => dumps x ++ U", " ++ go l'
                 end) l ++ U"]"
  | JObj d =>
      U"{" ++ (fix go (d : list (str * json)) : str :=
                 match d with
                 | [] => []
                 | [(k, x)] => dumps_str k ++ U": " ++ dumps x
                 | (k, x) :: d' => dumps_str k ++ U": " ++ dumps x ++ U", " ++ go d'
                 end) d ++ U"}"
  end.

(** A concrete quoted-printable encoder, valid for "simple" byte strings only (used by the
    correspondence runs; the theorems keep [qp] abstract): every byte is either printable and
    safe (33..126 except '=' and '.') or escaped as =XX (upper-case hex); no byte in
    {9,10,13,32,46} and the encoded text is shorter than one 76-column line. *)
Definition HEXU (n : N) : N := if (n <? 10)%N then (48 + n)%N else (55 + n)%N.
Definition qp_byte (b : N) : str :=
  if ((33 <=? b) && (b <=? 126) && negb (b =? 61) && negb (b =? 46))%N then [b]
  else [61; HEXU (b / 16); HEXU (b mod 16)]%N.
Definition qp_simple (b : list N) : str := flat_map qp_byte b.
Definition qp_dec_none (s : str) : list N := [].

(** [encode(v, unpicklable=True)]: None = raises *)
Definition encode_with (qp : list N -> str) (v : pyval) : option str := option_map dumps (flatten qp v).
Definition encode := encode_with qp_simple.
