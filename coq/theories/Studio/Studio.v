(** Model G - the playback studio (playback/studio/studio.py, 99 lines) with the two
    [extract_recording_category] variants of the cassettes and a small self-contained model of the
    in-process equalizer path (playback/studio/equalizer.py:158-222, :334-372).

    Definitions only (executable); the facts are in StudioFacts.v.

    Externals are explicit arguments, never axioms:
      [extract]  the cassette's [extract_recording_category]           (studio.py:64)
      [tuner]    [EqualizerTuner.create_category_tuning], may raise     (studio.py:81-85)
      [lookup]   [find_matching_recording_ids] for one category         (studio.py:90-91; recordings_lookup.py:27-49)
      [beh]      what the tuning's functions do with one recording      (equalizer.py:343-372)
      [keep]     [CompareExecutionConfig.keep_results_in_comparison]    (equalizer.py:176-181)

    The tuning is carried through every comparison as TAGS: a comparison records the tag of the
    playback function that ran for it, of the extractor, comparator and data extractor whose
    answers it holds, so "played under its own category's tuning" is a statement about fields.

    Not in this model (other work packages): dedicated comparison processes (C08/C13), the content
    of a lookup (C10/C16: here an oracle with the C10 specification as hypothesis), the recorder's
    replay itself (C01/C02: here [beh]).  Lazy result generators are lists: each element is produced
    by one complete [TapeRecorder.play] (tape_recorder.py:878-903 resets the playback state in its
    [finally]), so consumption order cannot influence an element. *)
From Playback Require Export Base.Str.
Open Scope list_scope.

Definition cat := str.        (* category = operation class name *)
Definition rid := str.        (* recording id *)
Definition tag := str.
Definition err := str.        (* exception: type name (+ text) *)

Inductive res (A : Type) : Type :=
| Ans (a : A)
| Raises (e : err).
Arguments Ans {A} a.
Arguments Raises {A} e.

(** ** [extract_recording_category] of the cassettes *)

(** in-memory (in_memory_tape_cassette.py:78-85) and file based (file_based_tape_cassette.py:50-57):
    [recording_id.split('/')[0]] - total *)
Definition extract_split (id : rid) : res cat := Ans (fst (split_first 47%N id)).

(** S3 (s3_tape_cassette.py:349-358): [parse] template '{category}/{day}/{id}', i.e. the anchored
    regular expression  (.+?)/(.+?)/(.+?)  with DOTALL: the category is the SHORTEST non-empty
    prefix p followed by '/' such that the rest splits as  day '/' id  with day and id non-empty;
    [assert result is not None] otherwise. *)
Definition is_nil {A} (l : list A) : bool := match l with [] => true | _ => false end.

Fixpoint day_id_ok (seen : bool) (r : str) : bool :=
  match r with
  | [] => false
  | x :: r' => (seen && N.eqb x 47%N && negb (is_nil r')) || day_id_ok true r'
  end.

Fixpoint extract_parse_from (acc : str) (s : str) : res cat :=
  match s with
  | [] => Raises (U"AssertionError")
  | x :: s' =>
      if negb (is_nil acc) && N.eqb x 47%N && day_id_ok false s' then Ans (List.rev acc)
      else extract_parse_from (x :: acc) s'
  end.
Definition extract_parse (id : rid) : res cat := extract_parse_from [] id.

(** ** Tunings, behaviours, comparisons *)

(** EqualizerTuning (equalizer_tuning.py:4-20): four functions; here their tags *)
Record tuning := Tuning {
  t_player : tag;         (* playback_function *)
  t_extractor : tag;      (* result_extractor *)
  t_comparator : tag;     (* comparator *)
  t_data : tag            (* comparison_data_extractor *)
}.

(** what happens when one recording is played and compared (the script of the real functions) *)
Inductive behaviour :=
| BOk                  (* everything returns, results equal *)
| BDiff                (* everything returns, results differ *)
| BPlayerRaises        (* the playback function raises an ordinary exception *)
| BExtractorRaises     (* the result extractor raises *)
| BComparatorRaises    (* the comparator raises *)
| BIncomplete          (* the recording holds no operation output: the extractor's search fails *)
| BMissing.            (* no such recording: [tape_cassette.get_recording] raises (tape_recorder.py:888) *)

Inductive status := Equal | Different | Failure.     (* EqualityStatus; Failure = EqualizerFailure *)
Inductive stage := Done | AtComparator | AtExtractor | AtNoOutput | AtPlayer | AtFetch.

Record comparison := Cmp {
  c_label : rid;                     (* Comparison.recording_id *)
  c_status : status;
  c_stage : stage;                   (* how far play-and-compare got *)
  c_player : option tag;             (* tag of the playback function whose output was compared / that raised *)
  c_extractor : option tag;
  c_comparator : option tag;
  c_data : option tag;
  c_subject : option rid;            (* the recording the tuning's functions were handed *)
  c_kept : option tag;               (* extractor tag on Comparison.expected/.actual (keep_results) *)
  c_attached : option rid;           (* Comparison.playback.original_recording.id *)
  c_journal : list (tag * rid)       (* (playback function, recording) runs made to produce this element *)
}.

(** equalizer.py:334-372 [_play_and_compare_recording] (catch-all at :368) followed by
    :171-212 of [run_comparison] (second catch-all at :203), in-process. *)
Definition run_one (beh : rid -> behaviour) (keep : bool) (tn : tuning) (id : rid) : comparison :=
  let ran := [(t_player tn, id)] in
  let kept := if keep then Some (t_extractor tn) else None in
  match beh id with
  | BMissing =>          (* :348 player raises before the playback function is reached; playback = None *)
      Cmp id Failure AtFetch None None None None None None None []
  | BPlayerRaises =>     (* :348 *)
      Cmp id Failure AtPlayer (Some (t_player tn)) None None None (Some id) None None ran
  | BExtractorRaises =>  (* :350; playback is kept, so with keep_results :177 raises again -> :203-212 *)
      Cmp id Failure AtExtractor None (Some (t_extractor tn)) None None (Some id) None
          (if keep then None else Some id) ran
  | BIncomplete =>       (* :350 *)
      Cmp id Failure AtNoOutput None None None None None None (if keep then None else Some id) ran
  | BComparatorRaises => (* :359 *)
      Cmp id Failure AtComparator (Some (t_player tn)) (Some (t_extractor tn)) (Some (t_comparator tn))
          (Some (t_data tn)) (Some id) kept (Some id) ran
  | BOk =>
      Cmp id Equal Done (Some (t_player tn)) (Some (t_extractor tn)) (Some (t_comparator tn))
          (Some (t_data tn)) (Some id) kept (Some id) ran
  | BDiff =>
      Cmp id Different Done (Some (t_player tn)) (Some (t_extractor tn)) (Some (t_comparator tn))
          (Some (t_data tn)) (Some id) kept (Some id) ran
  end.

(** result of one category: the comparisons (a lazy generator in Python) or the tuner's exception *)
Inductive cat_result :=
| CatRun (l : list comparison)
| CatError (e : err).

(** ** The studio *)
Section Studio.
  Variable extract : rid -> res cat.
  Variable tuner : cat -> res tuning.
  Variable lookup : cat -> res (list rid).
  Variable beh : rid -> behaviour.
  Variable keep : bool.

  (** studio.py:62-65  grouping = defaultdict(list); grouping[category].append(recording_id)
      (dict = association list in insertion order) *)
  Fixpoint add_group (c : cat) (id : rid) (g : list (cat * list rid)) : list (cat * list rid) :=
    match g with
    | [] => [(c, [id])]
    | (c', l) :: g' => if str_eqb c' c then (c', l ++ [id]) :: g' else (c', l) :: add_group c id g'
    end.

  Fixpoint group_from (g : list (cat * list rid)) (ids : list rid) : res (list (cat * list rid)) :=
    match ids with
    | [] => Ans g
    | id :: ids' =>
        match extract id with
        | Raises e => Raises e          (* :64 the cassette refuses the id: play() raises *)
        | Ans c => group_from (add_group c id g) ids'
        end
    end.

  (** studio.py:67  OrderedDict(sorted(grouping.items())): the keys are distinct, so comparing
      the (category, list) tuples never gets past the category; Python's [<] on str is
      code-point lexicographic = [str_ltb].  Any correct sort gives the same list. *)
  Fixpoint insert_item {A} (x : cat * A) (l : list (cat * A)) : list (cat * A) :=
    match l with
    | [] => [x]
    | y :: l' => if str_ltb (fst y) (fst x) then y :: insert_item x l' else x :: l
    end.
  Definition sort_items {A} (l : list (cat * A)) : list (cat * A) := fold_right insert_item [] l.

  (** studio.py:50  {c: None for c in self.categories}: duplicates collapse, first insertion order *)
  Fixpoint dedup_from (seen : list cat) (cs : list cat) : list cat :=
    match cs with
    | [] => []
    | c :: cs' => if existsb (str_eqb c) seen then dedup_from seen cs' else c :: dedup_from (c :: seen) cs'
    end.
  Definition dedup (cs : list cat) : list cat := dedup_from [] cs.

  (** studio.py:47-50.  [if self.recording_ids:] - None and the empty list both mean lookup mode;
      iterating [categories = None] raises TypeError. *)
  Definition categories_recordings (ids : option (list rid)) (cats : option (list cat))
    : res (list (cat * option (list rid))) :=
    match ids with
    | Some (id :: ids') =>
        match group_from [] (id :: ids') with
        | Raises e => Raises e
        | Ans g => Ans (map (fun p => (fst p, Some (snd p))) (sort_items g))
        end
    | _ =>
        match cats with
        | None => Raises (U"TypeError")
        | Some cs => Ans (map (fun c => (c, None)) (dedup cs))
        end
    end.

  (** studio.py:69-99 [_play_category] *)
  Definition play_category (c : cat) (ids : option (list rid)) : res cat_result :=
    match tuner c with
    | Raises e => Ans (CatError e)                          (* :81-85 the exception IS the result *)
    | Ans tn =>
        match ids with
        | Some (id :: ids') =>                              (* :87-88 *)
            Ans (CatRun (map (run_one beh keep tn) (id :: ids')))
        | _ =>                                              (* :89-91 None or [] -> lookup for THIS category *)
            match lookup c with
            | Raises e => Raises e
            | Ans l => Ans (CatRun (map (run_one beh keep tn) l))
            end
        end
    end.

  (** studio.py:52-55: result dict in the iteration order of categories_recordings (keys distinct) *)
  Fixpoint play_all (g : list (cat * option (list rid))) : res (list (cat * cat_result)) :=
    match g with
    | [] => Ans []
    | (c, ids) :: g' =>
        match play_category c ids with
        | Raises e => Raises e
        | Ans x =>
            match play_all g' with
            | Raises e => Raises e
            | Ans r => Ans ((c, x) :: r)
            end
        end
    end.

  Definition play (ids : option (list rid)) (cats : option (list cat)) : res (list (cat * cat_result)) :=
    match categories_recordings ids cats with
    | Raises e => Raises e
    | Ans g => play_all g
    end.

  (** vocabulary of the statements *)
  Definition has_cat (c : cat) (id : rid) : bool :=
    match extract id with Ans c' => str_eqb c' c | Raises _ => false end.

  Definition cat_result_of (c : cat) (l : list rid) : cat_result :=
    match tuner c with
    | Raises e => CatError e
    | Ans tn => CatRun (map (run_one beh keep tn) l)
    end.
End Studio.

Definition comparisons_of (x : cat_result) : list comparison :=
  match x with CatRun l => l | CatError _ => [] end.
Definition all_comparisons (r : list (cat * cat_result)) : list comparison :=
  concat (map (fun p => comparisons_of (snd p)) r).
Definition count_label (id : rid) (l : list comparison) : nat :=
  length (filter (fun cmp => str_eqb (c_label cmp) id) l).
Definition lookup_mode (ids : option (list rid)) : Prop := ids = None \/ ids = Some [].

(** "cmp was produced under tuning tn": every tag it carries is tn's, every run made for it was
    made by tn's playback function on the labelled recording, and a comparison that went all
    the way carries all four tags. *)
Definition opt_is {A} (o : option A) (a : A) : Prop := o = None \/ o = Some a.
Definition carries (tn : tuning) (cmp : comparison) : Prop :=
  opt_is (c_player cmp) (t_player tn) /\
  opt_is (c_extractor cmp) (t_extractor tn) /\
  opt_is (c_comparator cmp) (t_comparator tn) /\
  opt_is (c_data cmp) (t_data tn) /\
  opt_is (c_kept cmp) (t_extractor tn) /\
  opt_is (c_subject cmp) (c_label cmp) /\
  opt_is (c_attached cmp) (c_label cmp) /\
  (c_journal cmp = [] \/ c_journal cmp = [(t_player tn, c_label cmp)]) /\
  (c_stage cmp = Done ->
     c_player cmp = Some (t_player tn) /\ c_extractor cmp = Some (t_extractor tn) /\
     c_comparator cmp = Some (t_comparator tn) /\ c_data cmp = Some (t_data tn) /\
     c_subject cmp = Some (c_label cmp) /\ c_journal cmp = [(t_player tn, c_label cmp)]).
