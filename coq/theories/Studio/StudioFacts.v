(** Facts about model G (Studio.v).  All statements are for arbitrary externals
    (category extraction, tuner, lookup oracle, behaviours) and lists of any length. *)
From Playback Require Import Base.Str Base.StrFacts Studio.Studio.
From Coq Require Import Lia Permutation Sorted.
Open Scope list_scope.

Definition str_lt (a b : str) : Prop := str_ltb a b = true.

Ltac seq := repeat match goal with
  | H : str_eqb _ _ = true |- _ => apply str_eqb_eq in H
  | H : str_eqb _ _ = false |- _ => apply str_eqb_neq in H
  end.

Lemma str_eqb_true_iff a b : str_eqb a b = true <-> a = b.
Proof. apply str_eqb_eq. Qed.

Lemma rid_eq_dec : forall a b : rid, {a = b} + {a <> b}.
Proof. apply list_eq_dec. apply N.eq_dec. Qed.

(** ** strictly sorted lists of strings *)

Lemma ssorted_unique : forall l1 l2,
  StronglySorted str_lt l1 -> StronglySorted str_lt l2 -> (forall x, In x l1 <-> In x l2) -> l1 = l2.
Proof.
  induction l1 as [|a l1 IH]; intros l2 S1 S2 E.
  - destruct l2 as [|b l2]; [reflexivity|]. exfalso. apply (proj2 (E b)). left; reflexivity.
  - destruct l2 as [|b l2]; [exfalso; apply (proj1 (E a)); left; reflexivity|].
    apply StronglySorted_inv in S1. destruct S1 as [S1 F1].
    apply StronglySorted_inv in S2. destruct S2 as [S2 F2].
    rewrite Forall_forall in F1, F2.
    assert (a = b) as ->.
    { destruct (proj1 (E a) (or_introl eq_refl)) as [Eb|Ib]; [congruence|].
      destruct (proj2 (E b) (or_introl eq_refl)) as [Ea|Ia]; [congruence|].
      apply F2 in Ib. apply F1 in Ia. unfold str_lt in *.
      rewrite (str_ltb_asym _ _ Ib) in Ia. discriminate. }
    f_equal. apply IH; trivial. intros x; split; intros I.
    + destruct (proj1 (E x) (or_intror I)) as [Ex|I2]; [|exact I2].
      subst x. apply F1 in I. unfold str_lt in I. rewrite str_ltb_irrefl in I. discriminate.
    + destruct (proj2 (E x) (or_intror I)) as [Ex|I2]; [|exact I2].
      subst x. apply F2 in I. unfold str_lt in I. rewrite str_ltb_irrefl in I. discriminate.
Qed.

Lemma ssorted_nodup l : StronglySorted str_lt l -> NoDup l.
Proof.
  induction 1 as [|a l S IH F]; constructor; trivial.
  intros I. rewrite Forall_forall in F. apply F in I. unfold str_lt in I.
  rewrite str_ltb_irrefl in I. discriminate.
Qed.

Lemma ssorted_filter (p : str -> bool) l : StronglySorted str_lt l -> StronglySorted str_lt (filter p l).
Proof.
  induction 1 as [|a l S IH F]; cbn; [constructor|].
  destruct (p a); [|exact IH]. constructor; [exact IH|].
  rewrite Forall_forall in *. intros x I. apply filter_In in I. apply F, I.
Qed.

(** two association lists with the same keys whose values are determined by the key are equal *)
Lemma keyed_unique {A} (F : str -> A) : forall l1 l2 : list (str * A),
  map fst l1 = map fst l2 ->
  (forall c x, In (c, x) l1 -> x = F c) -> (forall c x, In (c, x) l2 -> x = F c) -> l1 = l2.
Proof.
  induction l1 as [|[c x] l1 IH]; intros [|[d y] l2] E H1 H2; cbn in E; try discriminate; [reflexivity|].
  inversion E as [[Ec Et]]. subst d.
  rewrite (H1 c x (or_introl eq_refl)), (H2 c y (or_introl eq_refl)). f_equal.
  apply IH; trivial; intros; [apply H1|apply H2]; right; assumption.
Qed.

(** ** Section: facts for fixed externals *)
Section Facts.
  Variable extract : rid -> res cat.
  Variable tuner : cat -> res tuning.
  Variable lookup : cat -> res (list rid).
  Variable beh : rid -> behaviour.
  Variable keep : bool.

  Notation has_cat := (has_cat extract).
  Notation group_from := (group_from extract).
  Notation play_category := (play_category tuner lookup beh keep).
  Notation play_all := (play_all tuner lookup beh keep).
  Notation play := (play extract tuner lookup beh keep).
  Notation cat_result_of := (cat_result_of tuner beh keep).
  Notation categories_recordings := (categories_recordings extract).

  Lemma has_cat_true c id : has_cat c id = true <-> extract id = Ans c.
  Proof.
    unfold Studio.has_cat. destruct (extract id) as [c'|e]; split; intros H; try discriminate.
    - seq. congruence.
    - inversion H. apply str_eqb_refl.
  Qed.

  (** *** grouping (studio.py:62-65) *)
  Fixpoint gassoc (c : cat) (g : list (cat * list rid)) : list rid :=
    match g with
    | [] => []
    | (c', l) :: g' => if str_eqb c' c then l else gassoc c g'
    end.

  Lemma add_group_assoc c id g c' :
    gassoc c' (add_group c id g) = if str_eqb c c' then gassoc c' g ++ [id] else gassoc c' g.
  Proof.
    induction g as [|[c0 l] g IH]; cbn.
    - destruct (str_eqb c c'); reflexivity.
    - destruct (str_eqb c0 c) eqn:E0; cbn.
      + seq. subst c0. destruct (str_eqb c c'); reflexivity.
      + rewrite IH. destruct (str_eqb c0 c') eqn:E1; [|reflexivity].
        destruct (str_eqb c c') eqn:E2; [|reflexivity]. seq. congruence.
  Qed.

  Lemma add_group_keys c id g c' : In c' (map fst (add_group c id g)) <-> c' = c \/ In c' (map fst g).
  Proof.
    induction g as [|[c0 l] g IH]; cbn.
    - intuition.
    - destruct (str_eqb c0 c) eqn:E0; cbn.
      + seq. subst. intuition.
      + rewrite IH. intuition.
  Qed.

  Lemma add_group_nodup c id g : NoDup (map fst g) -> NoDup (map fst (add_group c id g)).
  Proof.
    induction g as [|[c0 l] g IH]; cbn; intros N.
    - constructor; [intros []|constructor].
    - inversion N as [|? ? Nin N']; subst. destruct (str_eqb c0 c) eqn:E0; cbn.
      + constructor; assumption.
      + constructor; [|apply IH; assumption].
        rewrite add_group_keys. intros [->|I]; [|contradiction]. seq. congruence.
  Qed.

  Lemma add_group_nonempty c id g :
    Forall (fun p => snd p <> []) g -> Forall (fun p => snd p <> []) (add_group c id g).
  Proof.
    induction g as [|[c0 l] g IH]; cbn; intros F.
    - constructor; [cbn; discriminate|constructor].
    - inversion F; subst. destruct (str_eqb c0 c); constructor; cbn in *; auto.
      destruct l; discriminate.
  Qed.

  Lemma gassoc_notin c g : ~ In c (map fst g) -> gassoc c g = [].
  Proof.
    induction g as [|[c0 l] g IH]; cbn; intros N; [reflexivity|].
    destruct (str_eqb c0 c) eqn:E; [seq; subst; exfalso; apply N; left; reflexivity|].
    apply IH. intros I; apply N; right; exact I.
  Qed.

  Lemma gassoc_in c l g : NoDup (map fst g) -> In (c, l) g -> gassoc c g = l.
  Proof.
    induction g as [|[c0 l0] g IH]; cbn; intros N I; [contradiction|].
    inversion N as [|? ? Nin N']; subst. destruct I as [E|I].
    - inversion E; subst. rewrite str_eqb_refl. reflexivity.
    - destruct (str_eqb c0 c) eqn:E0.
      + seq. subst. exfalso. apply Nin. apply (in_map fst) in I. exact I.
      + apply IH; assumption.
  Qed.

  Lemma gassoc_key c g : In c (map fst g) -> In (c, gassoc c g) g.
  Proof.
    induction g as [|[c0 l0] g IH]; cbn; intros I; [contradiction|].
    destruct (str_eqb c0 c) eqn:E0.
    - seq. subst. left; reflexivity.
    - right. apply IH. destruct I as [E|I]; [seq; congruence|exact I].
  Qed.

  Lemma group_from_spec : forall ids g g', group_from g ids = Ans g' ->
    (forall c, gassoc c g' = gassoc c g ++ filter (has_cat c) ids) /\
    (forall c, In c (map fst g') <-> In c (map fst g) \/ exists id, In id ids /\ extract id = Ans c) /\
    (NoDup (map fst g) -> NoDup (map fst g')) /\
    (Forall (fun p => snd p <> []) g -> Forall (fun p => snd p <> []) g') /\
    (forall id, In id ids -> exists c, extract id = Ans c).
  Proof.
    induction ids as [|id ids IH]; cbn; intros g g' H.
    - inversion H; subst. split; [|split; [|split; [|split]]]; auto.
      + intros c. rewrite app_nil_r. reflexivity.
      + intros c. split; [auto|]. intros [I|[id [[] _]]]; exact I.
      + intros id [].
    - destruct (extract id) as [c0|e] eqn:Ex; [|discriminate].
      destruct (IH _ _ H) as (A & K & N & F & T). split; [|split; [|split; [|split]]].
      + intros c. rewrite A, add_group_assoc. unfold Studio.has_cat at 2. rewrite Ex.
        destruct (str_eqb c0 c); [rewrite <- app_assoc|]; reflexivity.
      + intros c. rewrite K, add_group_keys. split.
        * intros [[->|I]|[i [I E]]]; [right; exists id; split; [left; reflexivity|exact Ex]|left; exact I|].
          right. exists i. split; [right; exact I|exact E].
        * intros [I|[i [[->|I] E]]].
          -- left. right; exact I.
          -- left. left. congruence.
          -- right. exists i. split; assumption.
      + intros ND. apply N, add_group_nodup, ND.
      + intros Fg. apply F, add_group_nonempty, Fg.
      + intros i [->|I]; [eauto|apply T, I].
  Qed.

  Lemma group_from_total : forall ids g,
    (forall id, In id ids -> exists c, extract id = Ans c) -> exists g', group_from g ids = Ans g'.
  Proof.
    induction ids as [|id ids IH]; cbn; intros g T; [eauto|].
    destruct (T id (or_introl eq_refl)) as [c ->]. apply IH. intros i I; apply T; right; exact I.
  Qed.

  (** *** sorting the groups (studio.py:67) *)
  Lemma insert_perm {A} (x : cat * A) l : Permutation (insert_item x l) (x :: l).
  Proof.
    induction l as [|y l IH]; cbn; [reflexivity|].
    destruct (str_ltb _ _); [|reflexivity].
    rewrite IH. apply perm_swap.
  Qed.

  Lemma sort_perm {A} (l : list (cat * A)) : Permutation (sort_items l) l.
  Proof.
    induction l as [|x l IH]; cbn; [reflexivity|]. rewrite insert_perm. constructor. exact IH.
  Qed.

  Lemma insert_sorted {A} (x : cat * A) l :
    StronglySorted str_lt (map fst l) -> ~ In (fst x) (map fst l) ->
    StronglySorted str_lt (map fst (insert_item x l)).
  Proof.
    induction l as [|y l IH]; simpl; intros S N.
    - constructor; constructor.
    - apply StronglySorted_inv in S. destruct S as [S F].
      destruct (str_ltb _ _) eqn:L; simpl.
      + constructor; [apply IH; [exact S|intros I; apply N; right; exact I]|].
        eapply Permutation_Forall; [symmetry; apply Permutation_map, insert_perm|].
        cbn. constructor; [exact L|exact F].
      + assert (Lx : str_lt (fst x) (fst y)).
        { unfold str_lt. destruct (str_ltb (fst x) (fst y)) eqn:L2; [reflexivity|].
          exfalso. apply N. left. apply str_ltb_total; assumption. }
        constructor; [constructor; assumption|].
        constructor; [exact Lx|]. rewrite Forall_forall in *. intros z I.
        unfold str_lt in *. eapply str_ltb_trans; [exact Lx|apply F, I].
  Qed.

  Lemma sort_sorted {A} (l : list (cat * A)) :
    NoDup (map fst l) -> StronglySorted str_lt (map fst (sort_items l)).
  Proof.
    induction l as [|x l IH]; cbn; intros N; [constructor|].
    inversion N as [|? ? Nin N']; subst. apply insert_sorted; [apply IH, N'|].
    intros I. apply Nin. eapply Permutation_in; [apply Permutation_map, sort_perm|exact I].
  Qed.

  (** *** category list in lookup mode (studio.py:50) *)
  Lemma existsb_str c l : existsb (str_eqb c) l = true <-> In c l.
  Proof.
    rewrite existsb_exists. split.
    - intros [x [I E]]. seq. subst. exact I.
    - intros I. exists c. split; [exact I|apply str_eqb_refl].
  Qed.

  Lemma dedup_from_in : forall cs seen c, In c (dedup_from seen cs) <-> In c cs /\ ~ In c seen.
  Proof.
    induction cs as [|a cs IH]; cbn; intros seen c; [intuition|].
    destruct (existsb (str_eqb a) seen) eqn:E.
    - apply existsb_str in E. rewrite IH. split; [intuition|].
      intros [[->|I] N]; [contradiction|auto].
    - assert (Na : ~ In a seen) by (intros I; apply existsb_str in I; congruence).
      cbn. rewrite IH. cbn. split.
      + intros [->|[I N]]; [auto|]. split; [auto|]. intros I'; apply N; right; exact I'.
      + intros [[->|I] N]; [auto|]. destruct (rid_eq_dec a c) as [->|D]; [auto|].
        right. split; [exact I|]. intros [->|I']; [congruence|contradiction].
  Qed.

  Lemma dedup_from_nodup : forall cs seen, NoDup (dedup_from seen cs).
  Proof.
    induction cs as [|a cs IH]; cbn; intros seen; [constructor|].
    destruct (existsb (str_eqb a) seen); [apply IH|].
    constructor; [|apply IH]. rewrite dedup_from_in. intros [_ N]. apply N. left; reflexivity.
  Qed.

  Lemma dedup_from_filter (p : cat -> bool) : forall cs s1 s2,
    (forall x, p x = true -> existsb (str_eqb x) s1 = existsb (str_eqb x) s2) ->
    dedup_from s1 (filter p cs) = filter p (dedup_from s2 cs).
  Proof.
    induction cs as [|a cs IH]; cbn; intros s1 s2 H; [reflexivity|].
    destruct (p a) eqn:Pa; cbn.
    - rewrite (H a Pa). destruct (existsb (str_eqb a) s2) eqn:E; [apply IH, H|].
      cbn. rewrite Pa. f_equal. apply IH. intros x Px. cbn. rewrite (H x Px). reflexivity.
    - destruct (existsb (str_eqb a) s2) eqn:E; [apply IH, H|].
      cbn. rewrite Pa. apply IH. intros x Px. cbn. rewrite (H x Px).
      destruct (str_eqb x a) eqn:Ex; [|reflexivity]. seq. congruence.
  Qed.

  Lemma dedup_filter (p : cat -> bool) cs : dedup (filter p cs) = filter p (dedup cs).
  Proof. apply dedup_from_filter. reflexivity. Qed.

  Lemma dedup_in cs c : In c (dedup cs) <-> In c cs.
  Proof. unfold dedup. rewrite dedup_from_in. cbn. intuition. Qed.

  Lemma dedup_nodup cs : NoDup (dedup cs).
  Proof. apply dedup_from_nodup. Qed.

  (** *** play_all *)
  Definition entry_ok (p : cat * option (list rid)) (q : cat * cat_result) : Prop :=
    fst q = fst p /\ play_category (fst p) (snd p) = Ans (snd q).

  Lemma play_all_spec : forall g r, play_all g = Ans r <-> Forall2 entry_ok g r.
  Proof.
    induction g as [|[c ids] g IH]; cbn; intros r.
    - split; [intros H; inversion H; constructor|intros H; inversion H; reflexivity].
    - split.
      + destruct (play_category c ids) as [x|e] eqn:P; [|discriminate].
        destruct (play_all g) as [r'|e] eqn:R; [|discriminate].
        intros H; inversion H; subst. constructor; [split; [reflexivity|exact P]|apply IH; reflexivity].
      + intros H. inversion H as [|p q g' r' [E1 E2] F]; subst. cbn in *.
        rewrite E2. apply IH in F. rewrite F. destruct q; cbn in *; subst; reflexivity.
  Qed.

  Lemma Forall2_keys g r : Forall2 entry_ok g r -> map fst r = map fst g.
  Proof. induction 1 as [|p q g r [E _] F IH]; cbn; [reflexivity|]. rewrite E, IH. reflexivity. Qed.

  Lemma Forall2_in_r g r : Forall2 entry_ok g r -> forall q, In q r -> exists p, In p g /\ entry_ok p q.
  Proof.
    induction 1 as [|p q g r E F IH]; intros q' I; [destruct I|].
    destruct I as [<-|I]; [exists p; split; [left; reflexivity|exact E]|].
    destruct (IH _ I) as [p' [I' E']]. exists p'. split; [right; exact I'|exact E'].
  Qed.

  Lemma play_category_explicit c l : l <> [] -> play_category c (Some l) = Ans (cat_result_of c l).
  Proof.
    intros N. unfold Studio.play_category, Studio.cat_result_of.
    destruct (tuner c); [|reflexivity]. destruct l; [congruence|reflexivity].
  Qed.

  Lemma play_all_explicit : forall gs : list (cat * list rid),
    Forall (fun p => snd p <> []) gs ->
    play_all (map (fun p => (fst p, Some (snd p))) gs) = Ans (map (fun p => (fst p, cat_result_of (fst p) (snd p))) gs).
  Proof.
    induction gs as [|[c l] gs IH]; cbn; intros F; [reflexivity|].
    inversion F; subst. cbn in *. rewrite play_category_explicit by assumption.
    rewrite IH by assumption. reflexivity.
  Qed.

  (** *** explicit mode: the whole result characterised *)
  Definition explicit_result (ids : list rid) (r : list (cat * cat_result)) : Prop :=
    StronglySorted str_lt (map fst r) /\
    (forall c, In c (map fst r) <-> exists id, In id ids /\ extract id = Ans c) /\
    (forall c x, In (c, x) r -> x = cat_result_of c (filter (has_cat c) ids)).

  Lemma play_explicit_char ids cats r :
    ids <> [] -> play (Some ids) cats = Ans r ->
    explicit_result ids r /\ (forall id, In id ids -> exists c, extract id = Ans c).
  Proof.
    intros NE H. unfold Studio.play, Studio.categories_recordings in H.
    destruct ids as [|id0 ids0]; [congruence|]. set (ids := id0 :: ids0) in *.
    destruct (group_from [] ids) as [g|e] eqn:G; [|discriminate].
    destruct (group_from_spec _ _ _ G) as (A & K & N & F & T).
    specialize (N (NoDup_nil _)). specialize (F (Forall_nil _)).
    assert (Fs : Forall (fun p : cat * list rid => snd p <> []) (sort_items g)).
    { eapply Permutation_Forall; [symmetry; apply sort_perm|exact F]. }
    rewrite (play_all_explicit _ Fs) in H. inversion H; subst r. clear H.
    assert (KE : map fst (map (fun p : cat * list rid => (fst p, cat_result_of (fst p) (snd p))) (sort_items g))
                 = map fst (sort_items g)).
    { rewrite map_map. apply map_ext. reflexivity. }
    split; [|exact T]. repeat split.
    - rewrite KE. apply sort_sorted, N.
    - rewrite KE. intros I.
      apply (Permutation_in _ (Permutation_map fst (sort_perm g))) in I.
      apply K in I. destruct I as [[]|I]; exact I.
    - rewrite KE. intros I.
      apply (Permutation_in _ (Permutation_sym (Permutation_map fst (sort_perm g)))).
      apply K. right; exact I.
    - intros c x I. apply in_map_iff in I. destruct I as [[c' l] [E I]]. cbn in E. inversion E; subst c' x.
      apply (Permutation_in _ (sort_perm g)) in I.
      rewrite <- (gassoc_in _ _ _ N I). rewrite A. reflexivity.
  Qed.

  Lemma play_explicit_total ids cats :
    ids <> [] -> (forall id, In id ids -> exists c, extract id = Ans c) -> exists r, play (Some ids) cats = Ans r.
  Proof.
    intros NE T. unfold Studio.play, Studio.categories_recordings.
    destruct ids as [|id0 ids0]; [congruence|]. set (ids := id0 :: ids0) in *.
    destruct (group_from_total ids [] T) as [g G]. rewrite G.
    destruct (group_from_spec _ _ _ G) as (_ & _ & _ & F & _). specialize (F (Forall_nil _)).
    rewrite play_all_explicit; [eauto|].
    eapply Permutation_Forall; [symmetry; apply sort_perm|exact F].
  Qed.

  (** an explicit result is determined by the three conditions *)
  Lemma explicit_result_unique ids r1 r2 : explicit_result ids r1 -> explicit_result ids r2 -> r1 = r2.
  Proof.
    intros (S1 & K1 & V1) (S2 & K2 & V2).
    apply (keyed_unique (fun c => cat_result_of c (filter (has_cat c) ids))); trivial.
    apply ssorted_unique; trivial. intros c. rewrite K1, K2. reflexivity.
  Qed.

  (** *** lookup mode *)
  Lemma play_lookup_char ids cats r :
    lookup_mode ids -> play ids cats = Ans r ->
    exists cs, cats = Some cs /\ map fst r = dedup cs /\
      (forall c x, In (c, x) r -> play_category c None = Ans x).
  Proof.
    intros M H. unfold Studio.play, Studio.categories_recordings in H.
    assert (H' : match cats with None => Raises (U"TypeError")
                 | Some cs => play_all (map (fun c => (c, None)) (dedup cs)) end = Ans r).
    { destruct M as [->| ->]; destruct cats; exact H. }
    clear H. destruct cats as [cs|]; [|discriminate]. exists cs. split; [reflexivity|].
    apply play_all_spec in H'. split.
    - rewrite (Forall2_keys _ _ H'). rewrite map_map. cbn. apply map_id.
    - intros c x I. destruct (Forall2_in_r _ _ H' _ I) as [p [Ip [E1 E2]]].
      apply in_map_iff in Ip. destruct Ip as [c' [<- _]]. cbn in *. subst c'. exact E2.
  Qed.

  Lemma play_category_lookup c x :
    play_category c None = Ans x ->
    match tuner c with
    | Raises e => x = CatError e
    | Ans tn => exists l, lookup c = Ans l /\ x = CatRun (map (run_one beh keep tn) l)
    end.
  Proof.
    unfold Studio.play_category. destruct (tuner c) as [tn|e].
    - destruct (lookup c) as [l|e]; [|discriminate]. intros H; inversion H. eauto.
    - intros H; inversion H. reflexivity.
  Qed.

  (** *** tags *)
  Lemma run_one_label tn id : c_label (run_one beh keep tn id) = id.
  Proof. unfold run_one. destruct (beh id); reflexivity. Qed.

  Lemma map_run_one_labels tn l : map c_label (map (run_one beh keep tn) l) = l.
  Proof. rewrite map_map. rewrite (map_ext _ (fun x => x)); [apply map_id|apply run_one_label]. Qed.

  Lemma run_one_carries tn id : carries tn (run_one beh keep tn id).
  Proof.
    unfold carries, opt_is, run_one.
    destruct (beh id); destruct keep; cbn; repeat split; auto; try discriminate.
  Qed.

  Lemma run_one_played tn id : beh id <> BMissing -> c_journal (run_one beh keep tn id) = [(t_player tn, id)].
  Proof. unfold run_one. destruct (beh id); cbn; congruence. Qed.

  (** *** counting *)
  Lemma count_filter (p : rid -> bool) l x :
    count_occ rid_eq_dec (filter p l) x = if p x then count_occ rid_eq_dec l x else 0.
  Proof.
    induction l as [|a l IH]; cbn; [destruct (p x); reflexivity|].
    destruct (p a) eqn:Pa; cbn; destruct (rid_eq_dec a x) as [->|D]; rewrite ?IH; try rewrite Pa; try reflexivity.
  Qed.

  Lemma count_concat (ls : list (list rid)) x :
    count_occ rid_eq_dec (concat ls) x = list_sum (map (fun l => count_occ rid_eq_dec l x) ls).
  Proof. induction ls as [|l ls IH]; cbn; [reflexivity|]. rewrite count_occ_app, IH. reflexivity. Qed.

  (** only the slot of category c can hold x *)
  Lemma slot_count (G : cat -> list rid) x c : forall cs,
    NoDup cs -> (forall c', c' <> c -> count_occ rid_eq_dec (G c') x = 0) ->
    count_occ rid_eq_dec (concat (map G cs)) x = if in_dec rid_eq_dec c cs then count_occ rid_eq_dec (G c) x else 0.
  Proof.
    induction cs as [|a cs IH]; intros N Z; [reflexivity|].
    inversion N as [|? ? Nin N']; subst. cbn [map concat]. rewrite count_occ_app, (IH N' Z).
    destruct (in_dec rid_eq_dec c (a :: cs)) as [I|NI]; destruct (in_dec rid_eq_dec c cs) as [I'|NI'].
    - destruct (rid_eq_dec a c) as [->|D]; [contradiction|]. rewrite (Z a D). reflexivity.
    - destruct I as [->|I]; [lia|contradiction].
    - exfalso. apply NI. right; exact I'.
    - rewrite Z; [reflexivity|]. intros ->. apply NI. left; reflexivity.
  Qed.

  Lemma count_label_occ id l : count_label id l = count_occ rid_eq_dec (map c_label l) id.
  Proof.
    unfold count_label. induction l as [|a l IH]; cbn; [reflexivity|].
    destruct (str_eqb (c_label a) id) eqn:E; destruct (rid_eq_dec (c_label a) id) as [D|D]; cbn; seq; try congruence.
  Qed.

  Lemma keyed_map {A B} (F : cat -> A) (H : A -> B) : forall r : list (cat * A),
    (forall c x, In (c, x) r -> x = F c) -> map (fun p => H (snd p)) r = map (fun c => H (F c)) (map fst r).
  Proof.
    induction r as [|[c x] r IH]; cbn; intros V; [reflexivity|].
    rewrite (V c x (or_introl eq_refl)). f_equal. apply IH. intros; apply V; right; assumption.
  Qed.

  Lemma filter_perm (p : rid -> bool) l l' : Permutation l l' -> Permutation (filter p l) (filter p l').
  Proof.
    induction 1 as [|a l l' P IH|a b l|l1 l2 l3 P1 IH1 P2 IH2]; cbn.
    - constructor.
    - destruct (p a); [constructor|]; exact IH.
    - destruct (p a); destruct (p b); try reflexivity. apply perm_swap.
    - etransitivity; eassumption.
  Qed.

  Lemma map_fst_filter {A} (p : cat -> bool) (r : list (cat * A)) :
    map fst (filter (fun q => p (fst q)) r) = filter p (map fst r).
  Proof. induction r as [|[c x] r IH]; cbn; [reflexivity|]. destruct (p c); cbn; rewrite IH; reflexivity. Qed.

  (** *** C19 routing *)
  Lemma routing ids cats r :
    ids <> [] -> play (Some ids) cats = Ans r ->
    StronglySorted str_lt (map fst r) /\
    (forall c, In c (map fst r) <-> exists id, In id ids /\ extract id = Ans c) /\
    (forall c x, In (c, x) r -> x = cat_result_of c (filter (has_cat c) ids)) /\
    Permutation (concat (map (fun c => filter (has_cat c) ids) (map fst r))) ids /\
    (forall c l cmp, In (c, CatRun l) r -> In cmp l ->
       exists tn, tuner c = Ans tn /\ extract (c_label cmp) = Ans c /\ In (c_label cmp) ids /\
                  cmp = run_one beh keep tn (c_label cmp) /\ carries tn cmp) /\
    (forall id c tn, extract id = Ans c -> tuner c = Ans tn ->
       count_label id (all_comparisons r) = count_occ rid_eq_dec ids id).
  Proof.
    intros NE H. destruct (play_explicit_char _ _ _ NE H) as [(S & K & V) T].
    pose proof (ssorted_nodup _ S) as ND.
    split; [exact S|]. split; [exact K|]. split; [exact V|]. split; [|split].
    - (* the groups partition the input *)
      apply (Permutation_count_occ rid_eq_dec). intros x.
      destruct (extract x) as [c|e] eqn:Ex.
      + rewrite (slot_count (fun c => filter (has_cat c) ids) x c _ ND).
        * rewrite count_filter. rewrite (proj2 (has_cat_true c x) Ex).
          destruct (in_dec rid_eq_dec c (map fst r)) as [I|NI]; [reflexivity|].
          symmetry. apply count_occ_not_In. intros Ix. apply NI, K. eauto.
        * intros c' D. rewrite count_filter.
          destruct (Studio.has_cat extract c' x) eqn:Hc; [|reflexivity].
          apply has_cat_true in Hc. congruence.
      + transitivity 0.
        * clear ND K V S. induction (map fst r) as [|c cs IHc]; [reflexivity|].
          cbn [map concat]. rewrite count_occ_app, IHc, count_filter. unfold Studio.has_cat. rewrite Ex. reflexivity.
        * symmetry. apply count_occ_not_In. intros Ix. destruct (T _ Ix) as [c Ec]. congruence.
    - (* every comparison was produced by its own category's tuning *)
      intros c l cmp I Ic. pose proof (V _ _ I) as Ev. unfold Studio.cat_result_of in Ev.
      destruct (tuner c) as [tn|e] eqn:Tc; [|discriminate]. inversion Ev; subst l. clear Ev.
      apply in_map_iff in Ic. destruct Ic as [id [<- Iid]]. apply filter_In in Iid. destruct Iid as [Iid Hc].
      exists tn. rewrite run_one_label. split; [reflexivity|]. split; [apply has_cat_true, Hc|].
      split; [exact Iid|]. split; [reflexivity|apply run_one_carries].
    - (* each selected recording exactly once per occurrence *)
      intros id c tn Ex Tc. rewrite count_label_occ. unfold all_comparisons. rewrite concat_map, map_map.
      rewrite (keyed_map (fun c => cat_result_of c (filter (has_cat c) ids))
                         (fun x => map c_label (comparisons_of x)) r V).
      rewrite (slot_count _ id c _ ND).
      + unfold Studio.cat_result_of at 1. rewrite Tc. cbn [comparisons_of]. rewrite map_run_one_labels, count_filter.
        rewrite (proj2 (has_cat_true c id) Ex).
        destruct (in_dec rid_eq_dec c (map fst r)) as [I|NI]; [reflexivity|].
        symmetry. apply count_occ_not_In. intros Ix. apply NI, K. eauto.
      + intros c' D. apply count_occ_not_In. unfold Studio.cat_result_of.
        destruct (tuner c') as [tn'|e]; cbn [comparisons_of map]; [|intros []].
        rewrite map_run_one_labels. intros I. apply filter_In in I. destruct I as [_ Hc].
        apply has_cat_true in Hc. congruence.
  Qed.

  (** *** C19 tuner failure *)
  Lemma mode_cases (ids : option (list rid)) : (exists l, ids = Some l /\ l <> []) \/ lookup_mode ids.
  Proof.
    destruct ids as [[|a l]|]; [right; right; reflexivity|left; exists (a :: l); split; [reflexivity|discriminate]|
                                right; left; reflexivity].
  Qed.

  Lemma entry_char ids cats r c x :
    play ids cats = Ans r -> In (c, x) r ->
    match tuner c with
    | Raises e => x = CatError e
    | Ans tn => exists l, x = CatRun (map (run_one beh keep tn) l)
    end.
  Proof.
    intros H I. destruct (mode_cases ids) as [[l [-> NE]]|M].
    - destruct (play_explicit_char _ _ _ NE H) as [(_ & _ & V) _]. rewrite (V _ _ I).
      unfold Studio.cat_result_of. destruct (tuner c); eauto.
    - destruct (play_lookup_char _ _ _ M H) as (cs & _ & _ & V). apply V, play_category_lookup in I.
      destruct (tuner c); [|exact I]. destruct I as [l [_ E]]. eauto.
  Qed.

  Definition without_ids (c : cat) (ids : list rid) : list rid := filter (fun id => negb (has_cat c id)) ids.
  Definition without_cat (c : cat) (cs : list cat) : list cat := filter (fun c' => negb (str_eqb c' c)) cs.
  Definition without_entry (c : cat) (r : list (cat * cat_result)) : list (cat * cat_result) :=
    filter (fun q => negb (str_eqb (fst q) c)) r.

  Lemma filter_other_cat c c' ids : c' <> c -> filter (has_cat c') (without_ids c ids) = filter (has_cat c') ids.
  Proof.
    intros D. unfold without_ids. induction ids as [|a ids IH]; cbn; [reflexivity|].
    destruct (Studio.has_cat extract c a) eqn:Hc; cbn.
    - destruct (Studio.has_cat extract c' a) eqn:Hc'; [|exact IH].
      apply has_cat_true in Hc, Hc'. congruence.
    - rewrite IH. reflexivity.
  Qed.

  Lemma removal_explicit ids cats cats' r c :
    ids <> [] -> without_ids c ids <> [] -> play (Some ids) cats = Ans r ->
    play (Some (without_ids c ids)) cats' = Ans (without_entry c r).
  Proof.
    intros NE NE' H. destruct (play_explicit_char _ _ _ NE H) as [(S & K & V) T].
    assert (T' : forall id, In id (without_ids c ids) -> exists c0, extract id = Ans c0).
    { intros id I. apply filter_In in I. apply T, I. }
    destruct (play_explicit_total _ cats' NE' T') as [r' H']. rewrite H'. f_equal.
    destruct (play_explicit_char _ _ _ NE' H') as [R' _].
    apply (explicit_result_unique _ _ _ R'). unfold without_entry. split; [|split].
    - rewrite (map_fst_filter (fun k => negb (str_eqb k c))). apply ssorted_filter, S.
    - intros c'. rewrite (map_fst_filter (fun k => negb (str_eqb k c))), filter_In, K. split.
      + intros [[id [I E]] D]. exists id. split; [|exact E]. apply filter_In. split; [exact I|].
        unfold Studio.has_cat. rewrite E. exact D.
      + intros [id [I E]]. apply filter_In in I. destruct I as [I D]. split; [eauto|].
        unfold Studio.has_cat in D. rewrite E in D. exact D.
    - intros c' x I. apply filter_In in I. destruct I as [I D]. cbn in D.
      rewrite (V _ _ I). rewrite filter_other_cat; [reflexivity|].
      intros ->. rewrite str_eqb_refl in D. discriminate.
  Qed.

  Lemma play_lookup_unfold ids cs :
    lookup_mode ids -> play ids (Some cs) = play_all (map (fun c => (c, None)) (dedup cs)).
  Proof. intros [->| ->]; reflexivity. Qed.

  Lemma Forall2_filter (p : cat -> bool) g r :
    Forall2 entry_ok g r -> Forall2 entry_ok (filter (fun q => p (fst q)) g) (filter (fun q => p (fst q)) r).
  Proof.
    induction 1 as [|a b g r [E1 E2] F IH]; cbn; [constructor|].
    rewrite E1. destruct (p (fst a)); [constructor; [split; assumption|exact IH]|exact IH].
  Qed.

  Lemma removal_lookup ids cs r c :
    lookup_mode ids -> play ids (Some cs) = Ans r ->
    play ids (Some (without_cat c cs)) = Ans (without_entry c r).
  Proof.
    intros M H. rewrite play_lookup_unfold in * by exact M.
    apply play_all_spec in H. apply play_all_spec. unfold without_cat, without_entry.
    rewrite dedup_filter.
    apply (Forall2_filter (fun k => negb (str_eqb k c))) in H.
    assert (E : forall l : list cat,
      map (fun c0 : cat => (c0, @None (list rid))) (filter (fun c' : cat => negb (str_eqb c' c)) l) =
      filter (fun q : cat * option (list rid) => negb (str_eqb (fst q) c)) (map (fun c0 => (c0, None)) l)).
    { induction l as [|a l IH]; cbn; [reflexivity|]. destruct (negb (str_eqb a c)); cbn; rewrite IH; reflexivity. }
    rewrite E. exact H.
  Qed.

  Lemma tuner_failure_isolated ids cats r c e :
    play ids cats = Ans r -> tuner c = Raises e ->
    (forall x, In (c, x) r -> x = CatError e) /\
    (forall l cats', ids = Some l -> l <> [] -> without_ids c l <> [] ->
       play (Some (without_ids c l)) cats' = Ans (without_entry c r)) /\
    (forall cs, lookup_mode ids -> cats = Some cs ->
       play ids (Some (without_cat c cs)) = Ans (without_entry c r)).
  Proof.
    intros H Tc. split; [|split].
    - intros x I. pose proof (entry_char _ _ _ _ _ H I) as E. rewrite Tc in E. exact E.
    - intros l cats' -> NE NE'. eapply removal_explicit; eassumption.
    - intros cs M ->. apply removal_lookup; assumption.
  Qed.

  (** *** C19 lookup mode *)
  Lemma lookup_by_category ids cats r :
    lookup_mode ids -> play ids cats = Ans r ->
    exists cs, cats = Some cs /\ map fst r = dedup cs /\ NoDup (map fst r) /\
      (forall c, In c (map fst r) <-> In c cs) /\
      (forall c x, In (c, x) r ->
         match tuner c with
         | Raises e => x = CatError e
         | Ans tn => exists l, lookup c = Ans l /\ x = CatRun (map (run_one beh keep tn) l)
         end).
  Proof.
    intros M H. destruct (play_lookup_char _ _ _ M H) as (cs & -> & K & V).
    exists cs. split; [reflexivity|]. split; [exact K|]. rewrite K. split; [apply dedup_nodup|].
    split; [intros c; apply dedup_in|]. intros c x I. apply play_category_lookup, V, I.
  Qed.

  Section LookupSpec.
    (** the C10 specification of the lookup oracle: what is stored, and which stored recordings the
        lookup properties select (metadata filter incl. skip-incomplete, window) *)
    Variable store : list rid.
    Variable eligible : rid -> bool.
    Definition lookup_spec (c : cat) : list rid := filter (fun id => has_cat c id && eligible id) store.
    Hypothesis lookup_sound : forall c l, lookup c = Ans l ->
      NoDup l /\ forall id, In id l -> In id (lookup_spec c).

    Lemma lookup_exact_category ids cats r c l :
      lookup_mode ids -> play ids cats = Ans r -> In (c, CatRun l) r ->
      exists tn ids_c, tuner c = Ans tn /\ lookup c = Ans ids_c /\ l = map (run_one beh keep tn) ids_c /\
        map c_label l = ids_c /\ NoDup (map c_label l) /\
        (forall cmp, In cmp l ->
           In (c_label cmp) store /\ extract (c_label cmp) = Ans c /\ eligible (c_label cmp) = true /\ carries tn cmp) /\
        ((forall id, In id (lookup_spec c) -> In id ids_c) -> NoDup store ->
           Permutation (map c_label l) (lookup_spec c)).
    Proof.
      intros M H I. destruct (lookup_by_category _ _ _ M H) as (cs & _ & _ & _ & _ & V).
      specialize (V _ _ I). destruct (tuner c) as [tn|e]; [|discriminate].
      destruct V as [ids_c [L E]]. inversion E; subst l. clear E.
      destruct (lookup_sound _ _ L) as [ND Sd].
      exists tn, ids_c. rewrite map_run_one_labels.
      split; [reflexivity|]. split; [exact L|]. split; [reflexivity|]. split; [reflexivity|].
      split; [exact ND|]. split.
      - intros cmp Ic. apply in_map_iff in Ic. destruct Ic as [id [<- Iid]]. rewrite run_one_label.
        pose proof (Sd _ Iid) as Isp. apply filter_In in Isp. destruct Isp as [Is B].
        apply andb_true_iff in B. destruct B as [B1 B2].
        split; [exact Is|]. split; [apply has_cat_true, B1|]. split; [exact B2|apply run_one_carries].
      - intros Cp NS. apply NoDup_Permutation; [exact ND|apply NoDup_filter, NS|].
        intros id; split; [apply Sd|apply Cp].
    Qed.
  End LookupSpec.

  (** *** C19 order *)
  Lemma order_explicit ids ids' cats cats' r :
    ids <> [] -> Permutation ids ids' -> play (Some ids) cats = Ans r ->
    exists r', play (Some ids') cats' = Ans r' /\ map fst r' = map fst r /\
      forall c, Permutation (filter (has_cat c) ids) (filter (has_cat c) ids') /\
        forall x x', In (c, x) r -> In (c, x') r' ->
          x = cat_result_of c (filter (has_cat c) ids) /\ x' = cat_result_of c (filter (has_cat c) ids').
  Proof.
    intros NE P H. destruct (play_explicit_char _ _ _ NE H) as [(S & K & V) T].
    assert (NE' : ids' <> []).
    { intros ->. apply Permutation_sym, Permutation_nil in P. contradiction. }
    assert (T' : forall id, In id ids' -> exists c, extract id = Ans c).
    { intros id I. apply T. eapply Permutation_in; [symmetry; exact P|exact I]. }
    destruct (play_explicit_total _ cats' NE' T') as [r' H']. exists r'. split; [exact H'|].
    destruct (play_explicit_char _ _ _ NE' H') as [(S' & K' & V') _]. split.
    - apply ssorted_unique; trivial. intros c. rewrite K, K'. split; intros [id [I E]]; exists id; split; trivial.
      + eapply Permutation_in; [symmetry; exact P|exact I].
      + eapply Permutation_in; [exact P|exact I].
    - intros c. split; [apply filter_perm, P|]. intros x x' I I'. split; [apply V, I|apply V', I'].
  Qed.
End Facts.

(** the result for a category depends on the tuner only through that category *)
Lemma failure_independent extract t1 t2 lookup beh keep ids cats r1 r2 :
  play extract t1 lookup beh keep ids cats = Ans r1 ->
  play extract t2 lookup beh keep ids cats = Ans r2 ->
  map fst r1 = map fst r2 /\
  forall c, t1 c = t2 c -> forall x, In (c, x) r1 <-> In (c, x) r2.
Proof.
  intros H1 H2.
  assert (G : forall ta tb ra rb,
    play extract ta lookup beh keep ids cats = Ans ra -> play extract tb lookup beh keep ids cats = Ans rb ->
    map fst ra = map fst rb /\ forall c, ta c = tb c -> forall x, In (c, x) ra -> In (c, x) rb).
  { clear. intros ta tb ra rb Ha Hb. destruct (mode_cases ids) as [[l [-> NE]]|M].
    - destruct (play_explicit_char _ _ _ _ _ _ _ _ NE Ha) as [(Sa & Ka & Va) _].
      destruct (play_explicit_char _ _ _ _ _ _ _ _ NE Hb) as [(Sb & Kb & Vb) _].
      assert (KE : map fst ra = map fst rb).
      { apply ssorted_unique; trivial. intros c. rewrite Ka, Kb. reflexivity. }
      split; [exact KE|]. intros c E x I.
      assert (Ic : In c (map fst rb)). { rewrite <- KE. apply (in_map fst) in I. exact I. }
      apply in_map_iff in Ic. destruct Ic as [[c' x'] [Ec I']]. cbn in Ec. subst c'.
      rewrite (Va _ _ I). rewrite (Vb _ _ I') in I'. unfold cat_result_of in *. rewrite E. exact I'.
    - destruct (play_lookup_char _ _ _ _ _ _ _ _ M Ha) as (cs & -> & Ka & Va).
      destruct (play_lookup_char _ _ _ _ _ _ _ _ M Hb) as (cs' & Ecs & Kb & Vb). inversion Ecs; subst cs'.
      split; [congruence|]. intros c E x I.
      assert (Ic : In c (map fst rb)). { rewrite Kb, <- Ka. apply (in_map fst) in I. exact I. }
      apply in_map_iff in Ic. destruct Ic as [[c' x'] [Ec I']]. cbn in Ec. subst c'.
      pose proof (Va _ _ I) as Pa. pose proof (Vb _ _ I') as Pb.
      unfold play_category in Pa, Pb. rewrite E in Pa. rewrite Pa in Pb. inversion Pb; subst. exact I'. }
  destruct (G _ _ _ _ H1 H2) as [K F]. destruct (G _ _ _ _ H2 H1) as [_ F'].
  split; [exact K|]. intros c E x. split; [apply F, E|apply F'; symmetry; exact E].
Qed.
