(** Python [str] as a list of code points, with the handful of string operations the
    modelled code uses.  Definitions only (executable); facts are in StrFacts.v. *)
From Coq Require Export List NArith ZArith Bool.
From Coq Require Import String Ascii DecimalString DecimalN DecimalZ.
Export ListNotations.
Export String.StringSyntax.
Open Scope list_scope.

Definition str := list N.

Definition of_string (s : string) : str := map N_of_ascii (list_ascii_of_string s).
Notation "'U' s" := (of_string s%string) (at level 0, s at level 0, only parsing).

Fixpoint list_eqb {A} (eqb : A -> A -> bool) (a b : list A) : bool :=
  match a, b with
  | [], [] => true
  | x :: a', y :: b' => eqb x y && list_eqb eqb a' b'
  | _, _ => false
  end.

Definition str_eqb : str -> str -> bool := list_eqb N.eqb.

(** lexicographic comparison by code point = Python's [<] on str *)
Fixpoint str_ltb (a b : str) : bool :=
  match a, b with
  | [], [] => false
  | [], _ :: _ => true
  | _ :: _, [] => false
  | x :: a', y :: b' => if N.ltb x y then true else if N.eqb x y then str_ltb a' b' else false
  end.
Definition str_leb (a b : str) : bool := negb (str_ltb b a).

Fixpoint prefixb (p s : str) : bool :=
  match p, s with
  | [], _ => true
  | x :: p', y :: s' => N.eqb x y && prefixb p' s'
  | _ :: _, [] => false
  end.

Definition suffixb (p s : str) : bool := prefixb (List.rev p) (List.rev s).

(** [infixb p s]: p occurs in s (Python's [p in s]) *)
Fixpoint infixb (p s : str) : bool :=
  prefixb p s || match s with [] => false | _ :: s' => infixb p s' end.

(** split at the first occurrence of character [c]: (before, Some after) or (s, None) *)
Fixpoint split_first (c : N) (s : str) : str * option str :=
  match s with
  | [] => ([], None)
  | x :: s' => if N.eqb x c then ([], Some s')
               else let '(a, b) := split_first c s' in (x :: a, b)
  end.

(** Python's [s.split(c)] for a one-character separator *)
Fixpoint split_on (c : N) (s : str) : list str :=
  match s with
  | [] => [[]]
  | x :: s' =>
      if N.eqb x c then [] :: split_on c s'
      else match split_on c s' with
           | [] => [[x]]
           | h :: t => (x :: h) :: t
           end
  end.

Definition replace_char (c d : N) (s : str) : str := map (fun x => if N.eqb x c then d else x) s.

(** decimal printing *)
Definition str_of_uint (d : Decimal.uint) : str := of_string (NilEmpty.string_of_uint d).
Definition show_N (n : N) : str := of_string (NilEmpty.string_of_uint (N.to_uint n)).
Definition show_nat (n : nat) : str := show_N (N.of_nat n).
Definition show_Z (z : Z) : str :=
  match z with
  | Z0 => U"0"
  | Zpos p => show_N (Npos p)
  | Zneg p => 45%N :: show_N (Npos p)
  end.

Definition concat_str (l : list str) : str := List.concat l.

(** [join sep l] = Python's [sep.join(l)] *)
Fixpoint join (sep : str) (l : list str) : str :=
  match l with
  | [] => []
  | [x] => x
  | x :: l' => x ++ sep ++ join sep l'
  end.

(** indices (0-based) at which [check] fails *)
Fixpoint bad_indices_from {A} (n : nat) (check : A -> bool) (l : list A) : list nat :=
  match l with
  | [] => []
  | x :: l' => if check x then bad_indices_from (S n) check l' else n :: bad_indices_from (S n) check l'
  end.
Definition bad_indices {A} (check : A -> bool) (l : list A) : list nat := bad_indices_from 0 check l.

Definition option_eqb {A} (eqb : A -> A -> bool) (a b : option A) : bool :=
  match a, b with
  | None, None => true
  | Some x, Some y => eqb x y
  | _, _ => false
  end.
