From Playback Require Import Base.Str.
From Coq Require Import Lia.
Open Scope list_scope.

Lemma list_eqb_eq {A} (eqb : A -> A -> bool) (H : forall x y, eqb x y = true <-> x = y) :
  forall a b, list_eqb eqb a b = true <-> a = b.
Proof.
  induction a as [|x a IH]; destruct b as [|y b]; cbn; split; intros E; try congruence; try discriminate.
  - apply andb_true_iff in E. destruct E as [E1 E2]. apply H in E1. apply IH in E2. congruence.
  - inversion E; subst. apply andb_true_iff. split; [apply H; reflexivity|apply IH; reflexivity].
Qed.

Lemma str_eqb_eq a b : str_eqb a b = true <-> a = b.
Proof. apply list_eqb_eq. intros; apply N.eqb_eq. Qed.
Lemma str_eqb_refl a : str_eqb a a = true.
Proof. apply str_eqb_eq; reflexivity. Qed.
Lemma str_eqb_neq a b : str_eqb a b = false <-> a <> b.
Proof. rewrite <- str_eqb_eq. destruct (str_eqb a b); split; congruence. Qed.
Lemma str_eqb_sym a b : str_eqb a b = str_eqb b a.
Proof.
  destruct (str_eqb a b) eqn:E.
  - apply str_eqb_eq in E; subst. symmetry; apply str_eqb_refl.
  - symmetry. apply str_eqb_neq. apply str_eqb_neq in E. congruence.
Qed.

(** str_ltb is a strict total order *)
Lemma str_ltb_irrefl a : str_ltb a a = false.
Proof. induction a as [|x a IH]; cbn; [reflexivity|]. rewrite N.ltb_irrefl, N.eqb_refl. exact IH. Qed.

Ltac nb := repeat match goal with
  | H : (_ <? _)%N = true |- _ => apply N.ltb_lt in H
  | H : (_ <? _)%N = false |- _ => apply N.ltb_ge in H
  | H : (_ =? _)%N = true |- _ => apply N.eqb_eq in H
  | H : (_ =? _)%N = false |- _ => apply N.eqb_neq in H end.
Lemma str_ltb_trans a : forall b c, str_ltb a b = true -> str_ltb b c = true -> str_ltb a c = true.
Proof.
  induction a as [|x a IH]; intros b c; destruct b as [|y b]; destruct c as [|z c]; cbn;
    intros H1 H2; try congruence.
  destruct (x <? y)%N eqn:L1; destruct (x =? y)%N eqn:E1; destruct (y <? z)%N eqn:L2; destruct (y =? z)%N eqn:E2;
  destruct (x <? z)%N eqn:L3; destruct (x =? z)%N eqn:E3; try congruence; nb; try lia.
  eapply IH; eauto.
Qed.

Lemma str_ltb_asym a : forall b, str_ltb a b = true -> str_ltb b a = false.
Proof.
  intros b H. destruct (str_ltb b a) eqn:E; [|reflexivity].
  pose proof (str_ltb_trans _ _ _ H E) as C. rewrite str_ltb_irrefl in C. discriminate.
Qed.

Lemma str_ltb_total a : forall b, str_ltb a b = false -> str_ltb b a = false -> a = b.
Proof.
  induction a as [|x a IH]; intros b; destruct b as [|y b]; cbn; intros H1 H2; try congruence.
  destruct (x <? y)%N eqn:L1; destruct (x =? y)%N eqn:E1; destruct (y <? x)%N eqn:L2; destruct (y =? x)%N eqn:E2;
   try congruence; nb; try lia.
  subst. f_equal. apply IH; assumption.
Qed.

Lemma prefixb_app p s : prefixb p (p ++ s) = true.
Proof. induction p as [|x p IH]; cbn; [reflexivity|]. rewrite N.eqb_refl. exact IH. Qed.
Lemma prefixb_spec p s : prefixb p s = true <-> exists r, s = p ++ r.
Proof.
  revert s; induction p as [|x p IH]; intros s; cbn.
  - split; [intros _; exists s; reflexivity|reflexivity].
  - destruct s as [|y s]; [split; [discriminate|intros [r E]; discriminate]|].
    rewrite andb_true_iff, N.eqb_eq, IH. split.
    + intros [-> [r ->]]. exists r; reflexivity.
    + intros [r E]. inversion E; subst. split; [reflexivity|exists r; reflexivity].
Qed.

(** unique decomposition at the first / last occurrence of a separator *)
Lemma split_first_unique {A} (x : A) : forall l1 r1 l2 r2,
  l1 ++ x :: r1 = l2 ++ x :: r2 -> ~ In x l1 -> ~ In x l2 -> l1 = l2 /\ r1 = r2.
Proof.
  induction l1 as [|a l1 IH]; intros r1 l2 r2 E N1 N2; destruct l2 as [|b l2]; cbn in *.
  - inversion E; auto.
  - inversion E; subst. exfalso; apply N2; left; reflexivity.
  - inversion E; subst. exfalso; apply N1; left; reflexivity.
  - inversion E; subst. destruct (IH r1 l2 r2 H1) as [-> ->]; auto.
Qed.

Lemma split_last_unique {A} (x : A) l1 r1 l2 r2 :
  l1 ++ x :: r1 = l2 ++ x :: r2 -> ~ In x r1 -> ~ In x r2 -> l1 = l2 /\ r1 = r2.
Proof.
  intros E H1 H2.
  assert (R : List.rev r1 ++ x :: List.rev l1 = List.rev r2 ++ x :: List.rev l2).
  { apply (f_equal (@List.rev A)) in E. rewrite !List.rev_app_distr in E. cbn in E. rewrite <- !app_assoc in E. exact E. }
  destruct (split_first_unique x _ _ _ _ R) as [P Q].
  - rewrite <- in_rev; exact H1.
  - rewrite <- in_rev; exact H2.
  - split; [apply (f_equal (@List.rev A)) in Q|apply (f_equal (@List.rev A)) in P];
      rewrite !List.rev_involutive in *; congruence.
Qed.

(** decimal printing: injective, digits only *)
From Coq Require Import String Ascii DecimalString DecimalN.

Lemma N_of_ascii_inj a b : N_of_ascii a = N_of_ascii b -> a = b.
Proof. intros E. rewrite <- (ascii_N_embedding a), <- (ascii_N_embedding b). congruence. Qed.

Lemma of_string_inj s t : of_string s = of_string t -> s = t.
Proof.
  unfold of_string. revert t. induction s as [|a s IH]; intros [|b t]; cbn; intros E; try discriminate; [reflexivity|].
  inversion E as [[E1 E2]]. apply N_of_ascii_inj in E1. apply IH in E2. congruence.
Qed.

Lemma show_N_inj n m : show_N n = show_N m -> n = m.
Proof.
  unfold show_N. intros E. apply of_string_inj in E.
  assert (H : N.to_uint n = N.to_uint m).
  { apply (f_equal NilEmpty.uint_of_string) in E. rewrite !NilEmpty.usu in E. congruence. }
  apply (f_equal N.of_uint) in H. rewrite !DecimalN.Unsigned.of_to in H. exact H.
Qed.

Definition is_digit (c : N) : Prop := (48 <= c <= 57)%N.

Lemma uint_digits d : Forall is_digit (of_string (NilEmpty.string_of_uint d)).
Proof.
  induction d; cbn; constructor; try exact IHd; unfold is_digit; cbn; lia.
Qed.

Lemma show_N_digits n : Forall is_digit (show_N n).
Proof. apply uint_digits. Qed.

Lemma show_N_nonempty n : show_N n <> [].
Proof.
  unfold show_N. destruct n as [|p]; cbn; [discriminate|].
  pose proof (DecimalPos.Unsigned.to_uint_nonnil p) as H.
  destruct (Pos.to_uint p); cbn; congruence.
Qed.

Lemma digits_not_in c s : Forall is_digit s -> ~ is_digit c -> ~ In c s.
Proof. intros F N I. rewrite Forall_forall in F. apply N, F, I. Qed.
