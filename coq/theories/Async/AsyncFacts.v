(** Facts about model E (AsyncModel.v): the invariant over all reachable states and what it
    gives when the flusher is done. *)
From Coq Require Import List NArith ZArith Bool Arith Lia Permutation.
From Playback Require Import Values.PyVal Async.AsyncModel.
Import ListNotations.
Open Scope list_scope.

(** * Small list facts *)

Lemma take_from_spec : forall i p x p',
  take_from i p = Some (x, p') ->
  i < length p /\ length p' = length p /\
  nth i p [] = x :: nth i p' [] /\
  (forall j, j <> i -> nth j p' [] = nth j p []).
Proof.
  induction i as [|i IH]; intros p x p' H; destruct p as [|l r]; cbn in H; try discriminate.
  - destruct l as [|y l]; try discriminate. inversion H; subst; clear H. cbn.
    repeat split; try lia. intros [|j] Hj; [lia | reflexivity].
  - destruct l as [|y l].
    + destruct (take_from i r) as [[x0 r']|] eqn:T; try discriminate. inversion H; subst; clear H.
      destruct (IH _ _ _ T) as (A & B & C & D). cbn. repeat split; try lia; auto.
      intros [|j] Hj; [reflexivity | apply D; lia].
    + destruct (take_from i r) as [[x0 r']|] eqn:T; try discriminate. inversion H; subst; clear H.
      destruct (IH _ _ _ T) as (A & B & C & D). cbn. repeat split; try lia; auto.
      intros [|j] Hj; [reflexivity | apply D; lia].
Qed.

Lemma all_done_take_from : forall p i, all_done p = true -> take_from i p = None.
Proof.
  induction p as [|l r IH]; intros i H; destruct i; cbn in *; auto.
  - destruct l; [reflexivity | discriminate].
  - apply andb_true_iff in H. destruct H as [H1 H2]. rewrite (IH i H2). destruct l; reflexivity.
Qed.

Lemma all_done_nth : forall p i, all_done p = true -> nth i p [] = [].
Proof.
  induction p as [|l r IH]; intros i H; destruct i; cbn in *; auto.
  - destruct l; [reflexivity | discriminate].
  - apply andb_true_iff in H. apply IH, H.
Qed.

Lemma take_from_enabled : forall p i x l, nth i p [] = x :: l -> exists p', take_from i p = Some (x, p').
Proof.
  induction p as [|l0 r IH]; intros i x l H.
  - destruct i; discriminate.
  - destruct i; cbn in H.
    + subst. cbn. eauto.
    + destruct (IH _ _ _ H) as [p' E]. cbn. rewrite E. destruct l0; eauto.
Qed.

Lemma accepted_snoc : forall h x b, accepted (h ++ [(x, b)]) = if b then accepted h ++ [x] else accepted h.
Proof.
  intros. unfold accepted. rewrite filter_app, map_app. cbn. destruct b; cbn; auto using app_nil_r.
Qed.

Lemma issued_snoc : forall i h j x b,
  issued i (h ++ [((j, x), b)]) = if Nat.eqb j i then issued i h ++ [x] else issued i h.
Proof.
  intros. unfold issued. rewrite filter_app, map_app. cbn. destruct (Nat.eqb j i); cbn; auto using app_nil_r.
Qed.

Lemma run_ops_snoc : forall view l st x,
  run_ops_v view st (l ++ [x]) =
  let '(s1, f1) := run_ops_v view st l in let '(s2, ok) := apply_op s1 (view (snd x)) in (s2, f1 ++ [(x, ok)]).
Proof.
  intros view. induction l as [|y l IH]; intros st x; cbn.
  - destruct (apply_op st (view (snd x))); reflexivity.
  - destruct (apply_op st (view (snd y))) as [s1 ok1]. rewrite IH.
    destruct (run_ops_v view s1 l) as [s2 f2]. destruct (apply_op s2 (view (snd x))); reflexivity.
Qed.

Lemma run_ops_log_fst : forall view l st, map fst (snd (run_ops_v view st l)) = l.
Proof.
  intros view. induction l as [|y l IH]; intros st; cbn; auto.
  destruct (apply_op st (view (snd y))) as [s1 ok1]. specialize (IH s1). destruct (run_ops_v view s1 l).
  cbn in *. congruence.
Qed.

(** * The invariant *)

Lemma inv_init : forall nrec w, Inv nrec w (init nrec w).
Proof.
  intros. unfold Inv, init, enq; cbn. repeat split; auto; try discriminate. intros e [].
Qed.

Ltac inv_some H := inversion H; subst; clear H.

Lemma inv_step : forall nrec w s s', Inv nrec w s -> step s s' -> Inv nrec w s'.
Proof.
  intros nrec w s s' (I1 & I2 & I3 & I4 & I5 & I6 & I7 & I8) [c H].
  unfold enq in *.
  destruct c; cbn in H.
  - (* produce *)
    destruct (take_from i (pending s)) as [[x p']|] eqn:T; try discriminate.
    destruct (take_from_spec _ _ _ _ T) as (A & B & C & D).
    assert (NS : stop s = false).
    { destruct (stop s) eqn:S; auto. rewrite (all_done_take_from _ i (I2 eq_refl)) in T. discriminate. }
    destruct (is_abort x) eqn:AB.
    { (* abort: carried out at the caller, nothing enqueued *)
      inv_some H.
      unfold Inv, enq; cbn [pending aclosed buffer fl stop applied wstore hist].
      rewrite accepted_snoc. repeat split; auto; try solve [congruence].
      + intros j. rewrite issued_snoc. destruct (Nat.eqb i j) eqn:E.
        * apply Nat.eqb_eq in E. subst j. rewrite <- I7, C, <- app_assoc. reflexivity.
        * apply Nat.eqb_neq in E. rewrite D by congruence. apply I7.
      + intros e Hin. apply in_app_or in Hin. destruct Hin as [Hin | [<- | []]]; auto. cbn. lia. }
    destruct (lock_held (fl s)) eqn:LH; try discriminate. inv_some H.
    unfold Inv, enq; cbn [pending aclosed buffer fl stop applied wstore hist].
    rewrite accepted_snoc. repeat split; auto;
      try solve [rewrite <- I1; rewrite !app_assoc; reflexivity];
      try solve [congruence];
      try solve [destruct (fl s); auto; congruence].
    + intros j. rewrite issued_snoc. destruct (Nat.eqb i j) eqn:E.
      * apply Nat.eqb_eq in E. subst j. rewrite <- I7, C, <- app_assoc. reflexivity.
      * apply Nat.eqb_neq in E. rewrite D by congruence. apply I7.
    + intros e Hin. apply in_app_or in Hin. destruct Hin as [Hin | [<- | []]]; auto. cbn. lia.
  - (* reject *)
    destruct (take_from i (pending s)) as [[x p']|] eqn:T; try discriminate.
    destruct (is_write x && mem_nat (o_rec x) (aclosed s)); try discriminate. inv_some H.
    destruct (take_from_spec _ _ _ _ T) as (A & B & C & D).
    assert (NS : stop s = false).
    { destruct (stop s) eqn:S; auto. rewrite (all_done_take_from _ i (I2 eq_refl)) in T. discriminate. }
    unfold Inv, enq; cbn [pending aclosed buffer fl stop applied wstore hist].
    rewrite accepted_snoc. repeat split; auto; try solve [congruence].
    + intros j. rewrite issued_snoc. destruct (Nat.eqb i j) eqn:E.
      * apply Nat.eqb_eq in E. subst j. rewrite <- I7, C, <- app_assoc. reflexivity.
      * apply Nat.eqb_neq in E. rewrite D by congruence. apply I7.
    + intros e Hin. apply in_app_or in Hin. destruct Hin as [Hin | [<- | []]]; auto. cbn. lia.
  - (* check *)
    destruct (fl s) eqn:F; try discriminate.
    destruct (Bool.eqb b (stop s)); try discriminate. inv_some H.
    unfold Inv, enq; cbn [pending aclosed buffer fl stop applied wstore hist].
    destruct (stop s) eqn:S; cbn [inflight] in *; repeat split; auto.
  - (* lock *)
    destruct (fl s) eqn:F; try discriminate; inv_some H;
      unfold Inv, enq; cbn [pending aclosed buffer fl stop applied wstore hist inflight] in *; repeat split; auto.
  - (* swap *)
    destruct (fl s) eqn:F; try discriminate; inv_some H;
      unfold Inv, enq; cbn [pending aclosed buffer fl stop applied wstore hist inflight] in *;
      repeat split; auto; rewrite <- I1, ?app_nil_r; reflexivity.
  - (* exec *)
    destruct (fl s) as [ | | | [|x r] | | | | [|x r] | ] eqn:F; try discriminate;
      destruct (apply_op (wstore s) (snd x)) as [st' ok] eqn:AP; inv_some H;
      unfold Inv, enq; cbn [pending aclosed buffer fl stop applied wstore hist inflight] in *;
      (repeat split; auto;
       [ rewrite <- I1, map_app, <- app_assoc; reflexivity
       | rewrite map_app; cbn [map fst]; unfold run_ops in *; rewrite run_ops_snoc, <- I5; cbn [snd]; rewrite AP; reflexivity ]).
  - (* wait *)
    destruct (fl s) as [ | | | [|x r] | | | | | ] eqn:F; try discriminate; inv_some H;
      unfold Inv, enq; cbn [pending aclosed buffer fl stop applied wstore hist inflight] in *; repeat split; auto.
  - (* wake *)
    destruct (fl s) eqn:F; try discriminate; inv_some H;
      unfold Inv, enq; cbn [pending aclosed buffer fl stop applied wstore hist inflight] in *; repeat split; auto.
  - (* close *)
    destruct (all_done (pending s)) eqn:AD; cbn in H; try discriminate.
    destruct (stop s) eqn:S; cbn in H; try discriminate. inv_some H.
    unfold Inv, enq; cbn [pending aclosed buffer fl stop applied wstore hist].
    repeat split; auto. destruct (fl s); auto.
  - (* done *)
    destruct (fl s) as [ | | | | | | | [|x r] | ] eqn:F; try discriminate; inv_some H;
      unfold Inv, enq; cbn [pending aclosed buffer fl stop applied wstore hist inflight] in *; repeat split; auto.
Qed.

Lemma reach_inv : forall nrec w s, reach nrec w s -> Inv nrec w s.
Proof. induction 1; eauto using inv_init, inv_step. Qed.

(** * Exactly once: per-producer histories determine the multiset *)

Lemma perm_filter_split : forall {A} (f : A -> bool) (l : list A),
  Permutation l (filter f l ++ filter (fun x => negb (f x)) l).
Proof.
  induction l as [|x l IH]; cbn; auto.
  destruct (f x); cbn.
  - constructor. exact IH.
  - apply Permutation_cons_app. exact IH.
Qed.

Definition dec_tag (e : top * bool) : top * bool := ((pred (tag_of e), op_of e), snd e).

Lemma issued_dec : forall h i,
  issued i (map dec_tag (filter (fun e => negb (Nat.eqb (tag_of e) 0)) h)) = issued (S i) h.
Proof.
  induction h as [|[[t x] b] h IH]; intros i; cbn; auto.
  unfold issued in *. cbn. destruct t as [|t]; cbn.
  - apply IH.
  - destruct (Nat.eqb t i); cbn; rewrite IH; reflexivity.
Qed.

Lemma perm_of_issued : forall (w : list (list op)) (h : list (top * bool)),
  (forall e, In e h -> tag_of e < length w) ->
  (forall i, issued i h = nth i w []) ->
  Permutation (map op_of h) (concat w).
Proof.
  induction w as [|l w IH]; intros h Hb Hi.
  - destruct h as [|e h]; cbn; auto. specialize (Hb e (or_introl eq_refl)). cbn in Hb. lia.
  - cbn [concat].
    set (f := fun e : top * bool => Nat.eqb (tag_of e) 0).
    eapply Permutation_trans. { apply Permutation_map. apply (perm_filter_split f). }
    rewrite map_app. apply Permutation_app.
    + specialize (Hi 0). cbn in Hi. rewrite <- Hi. unfold issued, f, tag_of, op_of.
      apply Permutation_refl.
    + specialize (IH (map dec_tag (filter (fun e => negb (f e)) h))).
      assert (E : map op_of (map dec_tag (filter (fun e => negb (f e)) h)) =
                  map op_of (filter (fun e => negb (f e)) h)).
      { rewrite map_map. apply map_ext. intros [[t x] b]; reflexivity. }
      rewrite <- E. apply IH.
      * intros e Hin. apply in_map_iff in Hin. destruct Hin as (e0 & <- & Hin).
        apply filter_In in Hin. destruct Hin as [Hin Hf]. specialize (Hb _ Hin). cbn in Hb.
        unfold f in Hf. unfold dec_tag, tag_of in *. cbn.
        destruct (fst (fst e0)); cbn in *; [discriminate | lia].
      * intros i. unfold f. rewrite issued_dec. apply (Hi (S i)).
Qed.

(** * Refinement: when the flusher is done *)

Lemma refines_sync : forall nrec w s,
  reach nrec w s -> fl s = Done ->
  (* every enqueued request reached the wrapped cassette exactly once, in enqueue order *)
  map fst (applied s) = enq s /\
  (* the wrapped cassette and every outcome are exactly those of synchronous recording of the same requests *)
  (wstore s, applied s) = run_ops (init_store nrec) (enq s) /\
  wstore s = sync_apply (init_store nrec) (enq s) /\
  (* nothing pending anywhere *)
  buffer s = [] /\ all_done (pending s) = true /\
  (* the request history is, per producer, exactly its workload in request order *)
  (forall i, issued i (hist s) = nth i w []) /\
  (* and globally a permutation of all requested operations *)
  Permutation (map op_of (hist s)) (concat w).
Proof.
  intros nrec w s R D. destruct (reach_inv _ _ _ R) as (I1 & I2 & I3 & I4 & I5 & I6 & I7 & I8).
  rewrite D in *. cbn [inflight] in I1. rewrite I4, !app_nil_r in I1.
  assert (AD : all_done (pending s) = true) by auto.
  assert (IS : forall i, issued i (hist s) = nth i w []).
  { intros i. rewrite <- I7, (all_done_nth _ i AD), app_nil_r. reflexivity. }
  repeat split; auto.
  - rewrite <- I1. exact I5.
  - unfold sync_apply. rewrite <- I1, <- I5. reflexivity.
  - apply perm_of_issued; auto.
Qed.

(** two complete runs that enqueued in the same order stored the same thing, whatever the schedule *)
Lemma schedule_independent : forall nrec w w' s s',
  reach nrec w s -> reach nrec w' s' -> fl s = Done -> fl s' = Done -> enq s = enq s' ->
  wstore s = wstore s' /\ applied s = applied s'.
Proof.
  intros nrec w w' s s' R R' D D' E.
  destruct (refines_sync _ _ _ R D) as (_ & A & _). destruct (refines_sync _ _ _ R' D') as (_ & A' & _).
  rewrite E in A. rewrite <- A' in A. inversion A. auto.
Qed.

(** with one producer and nothing refused, the stored state is that of running its workload synchronously *)
Lemma single_producer : forall nrec l s,
  reach nrec [l] s -> fl s = Done -> forallb snd (hist s) = true ->
  wstore s = sync_apply (init_store nrec) (map (fun x => (0, x)) l).
Proof.
  intros nrec l s R D ALL.
  destruct (refines_sync _ _ _ R D) as (_ & _ & A & _ & _ & IS & _).
  destruct (reach_inv _ _ _ R) as (_ & _ & _ & _ & _ & _ & _ & I8).
  rewrite A. f_equal. specialize (IS 0). cbn in IS. rewrite <- IS. unfold enq.
  clear - ALL I8. induction (hist s) as [|[[t x] b] h IH]; cbn; auto.
  cbn in ALL. apply andb_true_iff in ALL. destruct ALL as [B ALL]. cbn in B. subst b.
  assert (T : t = 0). { specialize (I8 _ (or_introl eq_refl)). cbn in I8. lia. }
  subst t. unfold accepted, issued in *. cbn. f_equal. apply IH; auto. intros e Hin. apply I8. right. exact Hin.
Qed.

(** * A failing operation does not block later ones *)

Lemma failure_does_not_block : forall nrec w s x r,
  reach nrec w s -> (fl s = Batch (x :: r) \/ fl s = Final (x :: r)) ->
  exists s', step_fn false CExec s = Some s' /\
             applied s' = applied s ++ [(x, snd (apply_op (wstore s) (snd x)))] /\
             inflight (fl s') = r /\
             (* whatever the outcome, the next operation (if any) is enabled in turn *)
             (forall y r', r = y :: r' -> exists s'', step_fn false CExec s' = Some s'' /\
                                                     map fst (applied s'') = map fst (applied s) ++ [x; y]).
Proof.
  intros nrec w s x r _ [F | F]; cbn; rewrite F;
    destruct (apply_op (wstore s) (snd x)) as [st' ok] eqn:AP; eexists; (split; [reflexivity|]);
    cbn [applied fl inflight snd]; (split; [reflexivity|]); (split; [reflexivity|]);
    intros y r' ->; cbn;
    destruct (apply_op st' (snd y)) as [st'' ok'] eqn:AP'; eexists; (split; [reflexivity|]);
    cbn [applied]; rewrite !map_app, <- app_assoc; reflexivity.
Qed.

(** * Producers are never blocked by storage calls *)

Lemma producers_never_blocked : forall nrec w s i x l,
  reach nrec w s -> nth i (pending s) [] = x :: l ->
  (* the request can be enqueued right now ... *)
  (lock_held (fl s) = false /\ exists s', step_fn false (CProduce i) s = Some s') \/
  (* ... or the flusher is inside its two-statement swap (no storage call in there) and the
     request can be enqueued right after that single step *)
  (lock_held (fl s) = true /\ inflight (fl s) = [] /\
   exists s1 s2, step_fn false CSwap s = Some s1 /\ applied s1 = applied s /\ wstore s1 = wstore s /\
                 step_fn false (CProduce i) s1 = Some s2).
Proof.
  intros nrec w s i x l _ P. destruct (take_from_enabled _ _ _ _ P) as [p' T].
  destruct (is_abort x) eqn:AB; destruct (lock_held (fl s)) eqn:LH.
  - right. split; auto. destruct (fl s) eqn:F; try discriminate; (split; [reflexivity|]);
      cbn; rewrite F; do 2 eexists; (split; [reflexivity|]); cbn; rewrite T, AB; auto.
  - left. split; auto. cbn. rewrite T, AB. eauto.
  - right. split; auto. destruct (fl s) eqn:F; try discriminate; (split; [reflexivity|]);
      cbn; rewrite F; do 2 eexists; (split; [reflexivity|]); cbn; rewrite T, AB; auto.
  - left. split; auto. cbn. rewrite T, AB, LH. eauto.
Qed.

(** in particular while the flusher is executing wrapped storage operations *)
Lemma not_blocked_during_storage : forall nrec w s i x l ops,
  reach nrec w s -> (fl s = Batch ops \/ fl s = Final ops) -> nth i (pending s) [] = x :: l ->
  exists s', step_fn false (CProduce i) s = Some s'.
Proof.
  intros nrec w s i x l ops R F P.
  destruct (producers_never_blocked _ _ _ _ _ _ R P) as [[_ E] | [LH _]]; auto.
  destruct F as [F | F]; rewrite F in LH; discriminate.
Qed.

(** * Progress *)

Lemma dist_bound : forall s, dist s <= length (buffer s) + length (inflight (fl s)) + 8.
Proof. intros s. unfold dist. destruct (fl s); cbn; lia. Qed.

Lemma dist_zero : forall s, dist s = 0 <-> fl s = Done.
Proof. intros s. unfold dist. destruct (fl s); split; intros; try discriminate; try lia; auto. Qed.

(** after close, every enabled step is the flusher's and brings it one step closer to Done *)
Lemma after_close_step : forall nrec w s s',
  reach nrec w s -> stop s = true -> step s s' -> stop s' = true /\ S (dist s') = dist s.
Proof.
  intros nrec w s s' R S [c H]. destruct (reach_inv _ _ _ R) as (_ & I2 & _).
  specialize (I2 S). unfold dist.
  destruct c; cbn in H.
  - rewrite (all_done_take_from _ i I2) in H. discriminate.
  - rewrite (all_done_take_from _ i I2) in H. discriminate.
  - destruct (fl s) eqn:F; try discriminate. destruct (Bool.eqb b (stop s)); try discriminate.
    inv_some H. cbn. rewrite S. cbn. auto.
  - destruct (fl s) eqn:F; try discriminate; inv_some H; cbn; auto.
  - destruct (fl s) eqn:F; try discriminate; inv_some H; cbn; rewrite ?Nat.add_0_r; auto.
  - destruct (fl s) as [ | | | [|x r] | | | | [|x r] | ] eqn:F; try discriminate;
      destruct (apply_op (wstore s) (snd x)); inv_some H; cbn; auto.
  - destruct (fl s) as [ | | | [|x r] | | | | | ] eqn:F; try discriminate; inv_some H; cbn; auto.
  - destruct (fl s) eqn:F; try discriminate; inv_some H; cbn; auto.
  - rewrite S in H. rewrite andb_false_r in H. discriminate.
  - destruct (fl s) as [ | | | | | | | [|x r] | ] eqn:F; try discriminate; inv_some H; cbn; auto.
Qed.

(** and as long as the flusher is not Done one such step is enabled *)
Lemma after_close_enabled : forall nrec w s,
  reach nrec w s -> stop s = true -> fl s <> Done ->
  exists c s', flusher_choice s = Some c /\ step_fn false c s = Some s'.
Proof.
  intros nrec w s R S ND. destruct (reach_inv _ _ _ R) as (_ & _ & I3 & _).
  unfold flusher_choice. destruct (fl s) as [ | | | [|x r] | | | | [|x r] | ] eqn:F;
    try (exfalso; apply ND; reflexivity);
    try (destruct (apply_op (wstore s) (snd x)) as [st' ok] eqn:AP);
    eexists; eexists; (split; [reflexivity|]); cbn; rewrite F; rewrite ?AP, ?Bool.eqb_reflx; reflexivity.
Qed.

Lemma progress : forall nrec w s,
  reach nrec w s -> stop s = true ->
  let s' := run_flusher (dist s) s in
  reach nrec w s' /\ fl s' = Done /\ dist s <= length (buffer s) + length (inflight (fl s)) + 8.
Proof.
  intros nrec w s R S. cbn zeta. split; [|split; [|apply dist_bound]].
  - remember (dist s) as n eqn:E. clear E. revert s R S.
    induction n as [|n IH]; intros s R S; cbn; auto.
    destruct (flusher_choice s) as [c|] eqn:FC; auto.
    destruct (step_fn false c s) as [s1|] eqn:ST; auto.
    assert (St : step s s1) by (exists c; exact ST).
    apply IH; [econstructor; eauto | eapply after_close_step; eauto].
  - remember (dist s) as n eqn:E. revert s R S E.
    induction n as [|n IH]; intros s R S E; cbn.
    + apply dist_zero. auto.
    + assert (ND : fl s <> Done). { intros D. apply dist_zero in D. lia. }
      destruct (after_close_enabled _ _ _ R S ND) as (c & s1 & FC & ST). rewrite FC, ST.
      assert (St : step s s1) by (exists c; exact ST).
      destruct (after_close_step _ _ _ _ R S St) as [S1 D1].
      apply IH; auto. { econstructor; eauto. } lia.
Qed.

(** * The deterministic runner only visits reachable states *)

Lemma strict_is_step : forall c s s', step_fn true c s = Some s' -> step_fn false c s = Some s'.
Proof.
  intros c s s' H. destruct c; cbn in *; auto.
  destruct (take_from i (pending s)) as [[x p']|]; auto. destruct (is_abort x); auto.
  destruct (lock_held (fl s)); auto.
  destruct (is_write x && mem_nat (o_rec x) (aclosed s)); cbn in *; [discriminate | exact H].
Qed.

(** * abort_recording (T:52-59): carried out at the caller, the wrapped cassette never hears of it *)

(** an abort request is never blocked - not even while the flusher holds the lock - and never refused *)
Lemma abort_never_blocked : forall strict s i x p',
  take_from i (pending s) = Some (x, p') -> is_abort x = true ->
  exists s', step_fn strict (CProduce i) s = Some s'.
Proof. intros strict s i x p' T A. cbn. rewrite T, A. eauto. Qed.

(** what it changes: the AsyncRecording is closed; buffer, flusher, applied operations, wrapped cassette and the
    enqueue order are untouched (in particular a pending save of that recording stays pending) *)
Lemma abort_not_seen_by_wrapped : forall strict s s' i x p',
  take_from i (pending s) = Some (x, p') -> is_abort x = true ->
  step_fn strict (CProduce i) s = Some s' ->
  buffer s' = buffer s /\ fl s' = fl s /\ applied s' = applied s /\ wstore s' = wstore s /\ enq s' = enq s /\
  stop s' = stop s /\ aclosed s' = o_rec x :: aclosed s /\ pending s' = p'.
Proof.
  intros strict s s' i x p' T A H. cbn in H. rewrite T, A in H. inversion H; subst; clear H.
  unfold enq; cbn [pending aclosed buffer fl stop applied wstore hist]. rewrite accepted_snoc. repeat split; reflexivity.
Qed.

(** synchronously an abort closes the recording object and stores nothing: the stored recordings are unchanged *)
Lemma abort_sync_saved : forall st x, is_abort x = true ->
  saved (fst (apply_op st x)) = saved st /\
  (o_fail x = false -> nm_get (o_rec x) (live st) <> None -> snd (apply_op st x) = true).
Proof.
  intros st x A. unfold is_abort in A. unfold apply_op.
  destruct (o_fail x); [split; [reflexivity | discriminate]|].
  destruct (nm_get (o_rec x) (live st)) as [r|]; [|split; [reflexivity | intros _ N; congruence]].
  destruct (o_kind x); try discriminate. split; reflexivity.
Qed.


Lemma run_schedule_reach : forall nrec w strict cs s s',
  reach nrec w s -> run_schedule strict cs s = Some s' -> reach nrec w s'.
Proof.
  intros nrec w strict cs. unfold run_schedule. induction cs as [|c cs IH]; intros s s' R H; cbn in H.
  - inversion H; subst; auto.
  - destruct (step_fn_v (fun x => x) strict c s) as [s1|] eqn:ST; try discriminate.
    apply (IH s1); auto. econstructor; eauto. exists c.
    destruct strict; [apply strict_is_step|]; exact ST.
Qed.

(** F12 (repaired by /repo commit ba7c02c): under the pre-fix behaviour - the flusher reads the caller's dict when it
    runs the operation - a caller that keeps using a dict after passing it to add_metadata gets a stored recording
    that differs from synchronous recording of the same requests *)
Definition alias_work : list (list op) :=
  [[Op 0 0 (AddMetaMut [(0%N, VInt 1)] 1%N (VInt 2)) false; Op 1 0 Save false]].
Definition alias_sched : list choice :=
  [CProduce 0; CProduce 0; CClose; CCheck true; CLock; CSwap; CExec; CExec; CDone].

Lemma legacy_argument_alias :
  exists nrec w cs s, legacy_run_schedule true cs (init nrec w) = Some s /\ fl s = Done /\
                      wstore s <> sync_apply (init_store nrec) (enq s).
Proof.
  exists 1, alias_work, alias_sched.
  destruct (legacy_run_schedule true alias_sched (init 1 alias_work)) as [s|] eqn:E; [|vm_compute in E; discriminate].
  exists s. split; [reflexivity|]. vm_compute in E. inversion E. split; [reflexivity|]. vm_compute. discriminate.
Qed.

(** the same workload and schedule on the current code: stored = synchronous *)
Lemma argument_alias_repaired :
  exists s, run_schedule true alias_sched (init 1 alias_work) = Some s /\ fl s = Done /\
            wstore s = sync_apply (init_store 1) (enq s).
Proof.
  destruct (run_schedule true alias_sched (init 1 alias_work)) as [s|] eqn:E; [|vm_compute in E; discriminate].
  exists s. split; [reflexivity|]. vm_compute in E. inversion E. split; reflexivity.
Qed.
