(** Model E - the asynchronous record-only cassette
    (playback/tape_cassettes/asynchronous/async_record_only_tape_cassette.py, "A:" below)
    in front of a wrapped cassette (playback/tape_cassette.py "T:", playback/recording.py "R:",
    in-memory cassette "M:" = playback/tape_cassettes/in_memory/in_memory_tape_cassette.py).

    Definitions only (executable); the proofs are in AsyncFacts.v.

    Atomic steps are the code regions between lock / event operations and wrapped storage
    calls.  The reduction from Python's finer interleavings to these steps rests on the
    fact that every access to [_recording_operation_buffer] sits inside [with self._lock:]
    (checked on every run by the harness' ast gate) - it is an argument, not a Coq theorem. *)
From Coq Require Import List NArith ZArith Bool Arith.
From Playback Require Import Values.PyVal.
Import ListNotations.
Open Scope list_scope.

(** * The wrapped cassette (what synchronous recording would do) *)

Definition key := N.
(** A recorded value is a Python value WITH its type ([Values.PyVal.pyval]): [VInt 1], [VBool true] and
    [VFloat "1.0"] compare equal in Python ([1 == True == 1.0]) and are three different recorded values, [VNone] is a
    value like any other (a key holding None is not an absent key), and so are the empty containers.  The cassette
    never looks at a value: synchronous recording stores whatever it is given (R:35-37 [_set_data],
    memory_recording.py:67 [recording_metadata.update(metadata)] - no comparison with what is already there), so the
    model stores it unconditionally too, and the runner compares stored values constructor by constructor
    ([RunC12.val_eqb]). *)
Definition val := pyval.
(** a Python dict with str keys, kept sorted by key (dict equality ignores order) *)
Definition dict := list (key * val).

Fixpoint dict_set (k : key) (v : val) (d : dict) : dict :=
  match d with
  | [] => [(k, v)]
  | (k', v') :: d' =>
      if N.eqb k k' then (k, v) :: d'
      else if N.ltb k k' then (k, v) :: d
      else (k', v') :: dict_set k v d'
  end.

(** dict.update(other), items of [other] in its iteration order *)
Definition dict_update (kv : list (key * val)) (d : dict) : dict :=
  fold_left (fun acc e => dict_set (fst e) (snd e) acc) kv d.

(** maps keyed by a recording ordinal, sorted *)
Fixpoint nm_get {A} (r : nat) (m : list (nat * A)) : option A :=
  match m with
  | [] => None
  | (r', a) :: m' => if Nat.eqb r r' then Some a else nm_get r m'
  end.

Fixpoint nm_set {A} (r : nat) (a : A) (m : list (nat * A)) : list (nat * A) :=
  match m with
  | [] => [(r, a)]
  | (r', a') :: m' =>
      if Nat.eqb r r' then (r, a) :: m'
      else if Nat.ltb r r' then (r, a) :: m
      else (r', a') :: nm_set r a m'
  end.

(** a live wrapped recording: MemoryRecording.recording_data / recording_metadata, Recording._closed (R:14) *)
Record rec_state := RecState { r_data : dict; r_meta : dict; r_closed : bool }.

(** the wrapped cassette: live recording objects + what has been saved (M:37 stores a snapshot) *)
Record store := Store { live : list (nat * rec_state); saved : list (nat * (dict * dict)) }.

Definition init_store (nrec : nat) : store :=
  Store (map (fun r => (r, RecState [] [] false)) (seq 0 nrec)) [].

(** the three state-changing requests of the property *)
Inductive opk :=
| SetData (k : key) (v : val)          (* recording.set_data(k, v)        A:148-157 *)
| AddMeta (kv : list (key * val))      (* recording.add_metadata({..})    A:159-168 *)
| AddMetaMut (kv : list (key * val)) (k : key) (v : val)
                                       (* d = {kv}; recording.add_metadata(d); d[k] = v  - the caller keeps using
                                          its dict after the request returned (see [legacy_late_view]) *)
| Save                                 (* cassette.save_recording(rec)    A:89-95, T:60-67 *)
| Abort.                               (* cassette.abort_recording(rec)   T:52-59 (not overridden by the wrapper):
                                          [recording.close()] on the recording it is given and nothing else.
                                          Asynchronously that is the AsyncRecording: nothing is enqueued, the wrapped
                                          cassette never hears of it; synchronously it is the wrapped recording. *)

(** [o_idx]: position in its producer's workload (identification only);
    [o_fail]: the wrapped storage raises an Exception for this call, before touching anything *)
Record op := Op { o_idx : nat; o_rec : nat; o_kind : opk; o_fail : bool }.

Definition is_write (x : op) : bool :=
  match o_kind x with Save | Abort => false | _ => true end.

Definition is_abort (x : op) : bool :=
  match o_kind x with Abort => true | _ => false end.

(** What the flusher executes for a request.  Since /repo commit ba7c02c, A:166 copies the caller's dict
    ([metadata = dict(metadata)]) before A:168 enqueues [lambda: self.wrapped_recording.add_metadata(metadata)]:
    the flusher applies the items as they were during the call, whatever the caller does to its dict afterwards -
    the view of the current code is the identity ([step_fn], [step], [reach] below).

    Before that commit the closure held the caller's dict object itself, so the items were read when the flusher
    ran the operation, i.e. after the caller's later change (the change is part of the producer's atomic step here).
    That behaviour is kept only as [legacy_late_view] for the witness C12_argument_alias_refuted (finding F12).
    Synchronous recording copies the items during the call (memory_recording.py:67
    [self.recording_metadata.update(metadata)]). *)
Definition legacy_late_view (x : op) : op :=
  match o_kind x with
  | AddMetaMut kv k v => Op (o_idx x) (o_rec x) (AddMeta (kv ++ [(k, v)])) (o_fail x)
  | _ => x
  end.

(** One request executed against the wrapped cassette: new store and whether the call returned
    normally ([false] = it raised an Exception).  Unknown recording ordinals cannot be produced by
    the harness; they are answered [false] (no effect) rather than given a default. *)
Definition apply_op (st : store) (x : op) : store * bool :=
  if o_fail x then (st, false)
  else match nm_get (o_rec x) (live st) with
       | None => (st, false)
       | Some r =>
           match o_kind x with
           | SetData k v =>
               if r_closed r then (st, false)                                  (* R:35 assert not self._closed *)
               else (Store (nm_set (o_rec x) (RecState (dict_set k v (r_data r)) (r_meta r) false) (live st))
                           (saved st), true)
           | AddMeta kv | AddMetaMut kv _ _ =>                                 (* items as they are during the call *)
               if r_closed r then (st, false)                                  (* R:83 assert not self._closed *)
               else (Store (nm_set (o_rec x) (RecState (r_data r) (dict_update kv (r_meta r)) false) (live st))
                           (saved st), true)
           | Save =>                                                           (* T:66 _save_recording, T:67 close *)
               (Store (nm_set (o_rec x) (RecState (r_data r) (r_meta r) true) (live st))
                      (nm_set (o_rec x) (r_data r, r_meta r) (saved st)), true)
           | Abort =>                                                          (* T:59 recording.close(), no assert *)
               (Store (nm_set (o_rec x) (RecState (r_data r) (r_meta r) true) (live st)) (saved st), true)
           end
       end.

(** a request tagged with the producer (caller thread) that issued it *)
Definition top := (nat * op)%type.

(** run requests one after the other under a view of their arguments, logging each outcome *)
Fixpoint run_ops_v (view : op -> op) (st : store) (l : list top) : store * list (top * bool) :=
  match l with
  | [] => (st, [])
  | x :: r =>
      let '(st1, ok) := apply_op st (view (snd x)) in
      let '(st2, log) := run_ops_v view st1 r in
      (st2, (x, ok) :: log)
  end.

(** synchronous recording: every request takes effect during the call *)
Definition run_ops : store -> list top -> store * list (top * bool) := run_ops_v (fun x => x).

Definition sync_apply (st : store) (l : list top) : store := fst (run_ops st l).

(** * The asynchronous wrapper as a transition system *)

(** program counter of the flusher thread (A:97-127) *)
Inductive pc :=
| Loop                      (* about to evaluate [not self._stop_event.is_set()]        A:102 *)
| PreSwap                   (* inside the loop, about to enter [with self._lock]        A:103 -> A:118 *)
| Locked                    (* holds the lock, between A:118 and the end of A:120 *)
| Batch (ops : list top)    (* executing the swapped-out operations                     A:123-127 *)
| Waiting                   (* in [self._stop_event.wait(interval)]                     A:104 *)
| PreFinal                  (* left the loop, about to do the final flush               A:108 -> A:118 *)
| FLocked                   (* final flush, holds the lock *)
| Final (ops : list top)    (* executing the final batch *)
| Done.                     (* thread finished                                          A:109 *)

Record state := State {
  pending : list (list op);     (* per producer: requests not issued yet *)
  aclosed : list nat;           (* recordings whose AsyncRecording has been closed (T:67 via A:89) *)
  buffer : list top;            (* self._recording_operation_buffer                      A:27 *)
  fl : pc;
  stop : bool;                  (* self._stop_event                                       A:28 *)
  applied : list (top * bool);  (* operations that reached the wrapped cassette, with outcome *)
  wstore : store;               (* the wrapped cassette *)
  hist : list (top * bool)      (* ghost: every request issued so far, in issue order;
                                   [true] = enqueued, [false] = not enqueued: refused at the caller (R:35/R:83),
                                   or an [Abort], which is carried out entirely at the caller (T:59) *)
}.

Definition init (nrec : nat) (w : list (list op)) : state :=
  State w [] [] Loop false [] (init_store nrec) [].

Definition all_done (p : list (list op)) : bool :=
  forallb (fun l => match l with [] => true | _ => false end) p.

(** pop the next request of producer [i] *)
Fixpoint take_from (i : nat) (p : list (list op)) : option (op * list (list op)) :=
  match p, i with
  | [], _ => None
  | (x :: l) :: r, O => Some (x, l :: r)
  | [] :: _, O => None
  | l :: r, S j => match take_from j r with Some (x, r') => Some (x, l :: r') | None => None end
  end.

Definition inflight (p : pc) : list top :=
  match p with Batch l | Final l => l | _ => [] end.

Definition lock_held (p : pc) : bool :=
  match p with Locked | FLocked => true | _ => false end.

(** requests that were enqueued, in enqueue order *)
Definition accepted (h : list (top * bool)) : list top := map fst (filter snd h).
(** requests issued by producer [i], in issue order *)
Definition issued (i : nat) (h : list (top * bool)) : list op :=
  map (fun e => snd (fst e)) (filter (fun e => Nat.eqb (fst (fst e)) i) h).
Definition enq (s : state) : list top := accepted (hist s).

Definition mem_nat (r : nat) (l : list nat) : bool := existsb (Nat.eqb r) l.

Inductive choice :=
| CProduce (i : nat)    (* producer i: one complete set_data / add_metadata / save_recording call that enqueues  A:80-87;
                           or one complete abort_recording call: closes the AsyncRecording, enqueues nothing, takes no lock  T:59 *)
| CReject (i : nat)     (* producer i: a write on a closed AsyncRecording raises at the caller, nothing enqueued   R:35, R:83 *)
| CCheck (b : bool)     (* flusher evaluates is_set() and reads b                                                  A:102 *)
| CLock                 (* flusher acquires the lock                                                               A:118 *)
| CSwap                 (* flusher takes the buffer, installs a fresh one, releases                                A:119-120 *)
| CExec                 (* flusher runs the next operation of its batch; an Exception is logged and skipped        A:124-127 *)
| CWait                 (* batch exhausted, flusher calls wait(interval)                                           A:104 *)
| CWake                 (* wait returns (timer fired or event set - any time)                                      A:104 *)
| CClose                (* close(): the stop event is set - "requested before close": all producers are done       A:48-49 *)
| CDone.                (* final batch exhausted, thread ends                                                      A:109 *)

(** [strict]: producers run their calls without being preempted between "enqueue the save" and
    "close the AsyncRecording" (T:66-67), so a write on a recording whose save has been requested is
    always refused.  Non-strict ([false]) over-approximates that window: such a write may also be
    accepted (it then fails at the wrapped recording, R:35). *)
Definition step_fn_v (view : op -> op) (strict : bool) (c : choice) (s : state) : option state :=
  match c with
  | CProduce i =>
      match take_from i (pending s) with
      | None => None
      | Some (x, p') =>
          if is_abort x
          then Some (State p' (o_rec x :: aclosed s) (buffer s) (fl s) (stop s) (applied s) (wstore s)
                           (hist s ++ [((i, x), false)]))
          else
          if lock_held (fl s) then None else
          if strict && is_write x && mem_nat (o_rec x) (aclosed s) then None else
          Some (State p' (if is_write x then aclosed s else o_rec x :: aclosed s)
                      (buffer s ++ [(i, x)]) (fl s) (stop s) (applied s) (wstore s)
                      (hist s ++ [((i, x), true)]))
      end
  | CReject i =>
      match take_from i (pending s) with
      | None => None
      | Some (x, p') =>
          if is_write x && mem_nat (o_rec x) (aclosed s)
          then Some (State p' (aclosed s) (buffer s) (fl s) (stop s) (applied s) (wstore s)
                           (hist s ++ [((i, x), false)]))
          else None
      end
  | CCheck b =>
      match fl s with
      | Loop => if Bool.eqb b (stop s)
                then Some (State (pending s) (aclosed s) (buffer s) (if stop s then PreFinal else PreSwap)
                                 (stop s) (applied s) (wstore s) (hist s))
                else None
      | _ => None
      end
  | CLock =>
      match fl s with
      | PreSwap => Some (State (pending s) (aclosed s) (buffer s) Locked (stop s) (applied s) (wstore s) (hist s))
      | PreFinal => Some (State (pending s) (aclosed s) (buffer s) FLocked (stop s) (applied s) (wstore s) (hist s))
      | _ => None
      end
  | CSwap =>
      match fl s with
      | Locked => Some (State (pending s) (aclosed s) [] (Batch (buffer s)) (stop s) (applied s) (wstore s) (hist s))
      | FLocked => Some (State (pending s) (aclosed s) [] (Final (buffer s)) (stop s) (applied s) (wstore s) (hist s))
      | _ => None
      end
  | CExec =>
      match fl s with
      | Batch (x :: r) =>
          let '(st', ok) := apply_op (wstore s) (view (snd x)) in
          Some (State (pending s) (aclosed s) (buffer s) (Batch r) (stop s) (applied s ++ [(x, ok)]) st' (hist s))
      | Final (x :: r) =>
          let '(st', ok) := apply_op (wstore s) (view (snd x)) in
          Some (State (pending s) (aclosed s) (buffer s) (Final r) (stop s) (applied s ++ [(x, ok)]) st' (hist s))
      | _ => None
      end
  | CWait =>
      match fl s with
      | Batch [] => Some (State (pending s) (aclosed s) (buffer s) Waiting (stop s) (applied s) (wstore s) (hist s))
      | _ => None
      end
  | CWake =>
      match fl s with
      | Waiting => Some (State (pending s) (aclosed s) (buffer s) Loop (stop s) (applied s) (wstore s) (hist s))
      | _ => None
      end
  | CClose =>
      if all_done (pending s) && negb (stop s)
      then Some (State (pending s) (aclosed s) (buffer s) (fl s) true (applied s) (wstore s) (hist s))
      else None
  | CDone =>
      match fl s with
      | Final [] => Some (State (pending s) (aclosed s) (buffer s) Done (stop s) (applied s) (wstore s) (hist s))
      | _ => None
      end
  end.

(** the current code: the flusher applies exactly what was passed *)
Definition step_fn : bool -> choice -> state -> option state := step_fn_v (fun x => x).

(** the step relation the theorems quantify over: any enabled choice, non-strict (the larger relation) *)
Definition step (s s' : state) : Prop := exists c, step_fn false c s = Some s'.

Inductive reach (nrec : nat) (w : list (list op)) : state -> Prop :=
| reach_init : reach nrec w (init nrec w)
| reach_step s s' : reach nrec w s -> step s s' -> reach nrec w s'.

(** deterministic runner for the correspondence: [None] as soon as a choice is not enabled *)
Fixpoint run_schedule_v (view : op -> op) (strict : bool) (cs : list choice) (s : state) : option state :=
  match cs with
  | [] => Some s
  | c :: cs' => match step_fn_v view strict c s with
                | Some s' => run_schedule_v view strict cs' s'
                | None => None
                end
  end.
Definition run_schedule : bool -> list choice -> state -> option state := run_schedule_v (fun x => x).
(** the pre-ba7c02c code (witness of F12 only) *)
Definition legacy_run_schedule : bool -> list choice -> state -> option state := run_schedule_v legacy_late_view.

(** * The invariant (statement only; proved in AsyncFacts.v) *)

Definition tag_of (e : top * bool) : nat := fst (fst e).
Definition op_of (e : top * bool) : op := snd (fst e).

Definition Inv (nrec : nat) (w : list (list op)) (s : state) : Prop :=
  (* I1: what was applied, then what the flusher holds, then the buffer = the enqueue order *)
  map fst (applied s) ++ inflight (fl s) ++ buffer s = enq s /\
  (* I2: the stop event is set only after every producer finished *)
  (stop s = true -> all_done (pending s) = true) /\
  (* I3: the flusher leaves its loop only after the stop event is set *)
  (match fl s with PreFinal | FLocked | Final _ | Done => stop s = true | _ => True end) /\
  (* I4: nothing is left in the buffer behind the final swap *)
  (match fl s with Final _ | Done => buffer s = [] | _ => True end) /\
  (* I5: the wrapped cassette and the outcome log are those of running the applied operations synchronously *)
  (wstore s, applied s) = run_ops (init_store nrec) (map fst (applied s)) /\
  (* I6: per producer, issued requests followed by pending requests = its workload (order-preserving merge,
         nothing lost, nothing invented) *)
  length (pending s) = length w /\
  (forall i, issued i (hist s) ++ nth i (pending s) [] = nth i w []) /\
  (forall e, In e (hist s) -> fst (fst e) < length w).

(** * Progress after close *)

(** the flusher's only enabled choice, given its program counter *)
Definition flusher_choice (s : state) : option choice :=
  match fl s with
  | Loop => Some (CCheck (stop s))
  | PreSwap | PreFinal => Some CLock
  | Locked | FLocked => Some CSwap
  | Batch (_ :: _) | Final (_ :: _) => Some CExec
  | Batch [] => Some CWait
  | Waiting => Some CWake
  | Final [] => Some CDone
  | Done => None
  end.

(** number of flusher steps to [Done] once the stop event is set *)
Definition dist (s : state) : nat :=
  match fl s with
  | Done => 0
  | Final r => 1 + length r
  | FLocked => 2 + length (buffer s)
  | PreFinal => 3 + length (buffer s)
  | Loop => 4 + length (buffer s)
  | Waiting => 5 + length (buffer s)
  | Batch r => 6 + length r + length (buffer s)
  | Locked => 7 + length (buffer s)
  | PreSwap => 8 + length (buffer s)
  end.

Fixpoint run_flusher (n : nat) (s : state) : state :=
  match n with
  | O => s
  | S n' => match flusher_choice s with
            | Some c => match step_fn false c s with
                        | Some s' => run_flusher n' s'
                        | None => s
                        end
            | None => s
            end
  end.
