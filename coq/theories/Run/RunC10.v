(** Correspondence runner for C10: one case = a history of saves, one lookup, and what the three REAL
    cassettes listed for it (ids replaced by the ordinal of the recording's first save in the history).
    The model is run on the same history and lookup; externals are replayed from the case: the day-folder
    texts (strftime), the directory listing order (os.listdir), scripted shuffle / choice.  The fnmatch oracle
    of the theorems is instantiated with Cassette.GlobClass.glob_fn (fnmatch.translate incl. character classes). *)
From Playback Require Export Base.Str Cassette.Matcher Cassette.Window Cassette.Lookup.
From Playback Require Import Cassette.GlobClass.
From Coq Require Export QArith.
Open Scope nat_scope.
Open Scope list_scope.

(** what a cassette answered: the listed ordinals in listing order, or the exception it raised
    (1 TypeError, 2 NoSuchRecording, 3 AssertionError, 4 IndexError, 5 KeyError, 6 AttributeError, 8 out of fuel (model only), 9 other) *)
Inductive obs := OIds (l : list nat) | ORaised (code : nat).

Inductive case :=
| Case (hist : list rec)              (* saves, oldest first *)
       (days : list (Z * str))        (* day index -> strftime('%Y%m%d') text *)
       (kp : str)                     (* S3 key_prefix as given to the constructor *)
       (cat : str) (filter : meta) (limit : option nat)
       (random : nat)                 (* 0 ordered; 1 real RNG; 2 scripted RNG: shuffle = reverse, choice from [sched] *)
       (sched : list nat)
       (start end_ : option Z) (now : Z)
       (skip : option bool)           (* None: iter_recording_ids; Some b: find_matching_recording_ids(skip_incomplete=b) *)
       (listdir : list nat)           (* os.listdir order of the file cassette's directory, as ordinals *)
       (o_mem o_file o_s3 : obs)
| CatCase (id : str) (mem_cat : str) (s3_cat : option str).   (* extract_recording_category; None = AssertionError *)

Definition fmt_of (days : list (Z * str)) (d : Z) : str :=
  match find (fun p => Z.eqb (fst p) d) days with Some p => snd p | None => U"?" end.

(** json.loads(jsonpickle.encode(metadata)) on the metadata value domain: a class reference is seen
    as the dict {"py/type": "<module>.<name>"}; everything else is JSON-native and unchanged *)
Definition class_name (tag : N) : str :=
  if N.eqb tag 1 then U"lib.pyvals.OpaqueA" else if N.eqb tag 2 then U"lib.pyvals.OpaqueB" else U"builtins.dict".
Fixpoint enc_val (v : mval) : mval :=
  match v with
  | MOpaque t => MDict [(U"py/type", MStr (class_name t))]
  | MList l => MList (map enc_val l)
  | MDict d => MDict (map (fun kv => (fst kv, enc_val (snd kv))) d)
  | _ => v
  end.
Definition enc_run (m : meta) : meta := map (fun kv => (fst kv, enc_val (snd kv))) m.

Fixpoint index_of (p : rec -> bool) (n : nat) (h : list rec) : nat :=
  match h with
  | [] => 4999
  | r :: h' => if p r then n else index_of p (S n) h'
  end.
Definition ord_of (idf : rec -> str) (h : list rec) (id : str) : nat := index_of (fun r => str_eqb (idf r) id) 0 h.

Definition mem_nat (x : nat) (l : list nat) : bool := existsb (Nat.eqb x) l.
Definition same_set (a b : list nat) : bool :=
  Nat.eqb (length a) (length b) && forallb (fun x => mem_nat x b) a && forallb (fun x => mem_nat x a) b.
Fixpoint nodup_nat (l : list nat) : bool :=
  match l with [] => true | x :: l' => negb (mem_nat x l') && nodup_nat l' end.

Definition code_of (e : exn) : nat :=
  match e with TypeError => 1 | NoSuchRecording => 2 | AssertionError => 3 | IndexError => 4 | KeyError => 5 | AttributeError => 6 end.

(** model answer as ordinals *)
Definition to_obs (idf : rec -> str) (h : list rec) (r : lres (list str)) : obs :=
  match r with
  | Listed ids => OIds (map (ord_of idf h) ids)
  | LRaises e => ORaised (code_of e)
  | OutOfFuel => ORaised 8
  end.

(** exact: same set of ordinals, same cardinality *)
Definition agree_exact (model impl : obs) : bool :=
  match model, impl with
  | OIds a, OIds b => same_set a b
  | ORaised x, ORaised y => Nat.eqb x y
  | _, _ => false
  end.
(** the selection is not determined (real RNG under a limit): same cardinality as the model's listing,
    no duplicates, inside the model's unlimited listing *)
Definition agree_card (model model_unlimited impl : obs) : bool :=
  match model, model_unlimited, impl with
  | OIds a, OIds u, OIds b => Nat.eqb (length a) (length b) && nodup_nat b && forallb (fun x => mem_nat x u) b
  | ORaised x, _, ORaised y => Nat.eqb x y
  | _, _, _ => false
  end.

(** the directory listing: the stored recordings in the order os.listdir reported them *)
Fixpoint listing_of (h dir : list rec) (ords : list nat) : option (list rec) :=
  match ords with
  | [] => Some []
  | o :: ords' =>
      match nth_error h o with
      | None => None
      | Some r0 =>
          match find (fun x => str_eqb (file_name x) (file_name r0)) dir, listing_of h dir ords' with
          | Some x, Some l => Some (x :: l)
          | _, _ => None
          end
      end
  end.

Definition sched_of (script : list nat) (step : nat) : nat :=
  match script with [] => 0 | _ => nth (Nat.modulo step (length script)) script 0 end.

Definition eff_filter (skip : option bool) (f : meta) : meta :=
  match skip with Some b => lookup_filter b f | None => f end.

Definition model_mem (h : list rec) cat f limit (random : nat) skip : lres (list str) :=
  mem_iter glob_fn (@List.rev str) (store_of mem_id h) cat (eff_filter skip f) limit (negb (Nat.eqb random 0)).

Definition model_file (h : list rec) (listdir : list nat) cat f limit skip : lres (list str) :=
  let dir := store_of file_name h in
  match listing_of h dir listdir with
  | Some listing =>
      if Nat.eqb (length listing) (length dir) then file_iter glob_fn dir listing cat (eff_filter skip f) limit
      else LRaises IndexError
  | None => LRaises IndexError
  end.

Definition model_s3 (h : list rec) days kp cat f limit (random : nat) sched so eo now skip : lres (list str) :=
  let fmt := fmt_of days in
  s3_iter glob_fn fmt enc_run
          (if Nat.eqb random 2 then @List.rev rec else (fun l => l)) (sched_of sched) kp
          (store_of (s3_key fmt kp) h) cat so eo now (eff_filter skip f) limit (negb (Nat.eqb random 0)).

Definition check_case (c : case) : bool :=
  match c with
  | Case h days kp cat f limit random sched so eo now skip listdir o_mem o_file o_s3 =>
      let fmt := fmt_of days in
      agree_exact (to_obs mem_id h (model_mem h cat f limit random skip)) o_mem &&
      (* os.listdir order is arbitrary: which [limit] recordings are listed is not determined *)
      agree_card (to_obs mem_id h (model_file h listdir cat f limit skip))
                 (to_obs mem_id h (model_file h listdir cat f None skip)) o_file &&
      (if Nat.eqb random 1 then
         agree_card (to_obs (s3_id fmt) h (model_s3 h days kp cat f limit 0 sched so eo now skip))
                    (to_obs (s3_id fmt) h (model_s3 h days kp cat f None 0 sched so eo now skip)) o_s3
       else agree_exact (to_obs (s3_id fmt) h (model_s3 h days kp cat f limit random sched so eo now skip)) o_s3)
  | CatCase id mem_cat s3_cat =>
      str_eqb (category_of id) mem_cat &&
      match s3_category_of id, s3_cat with
      | Listed c, Some c' => str_eqb c c'
      | LRaises AssertionError, None => true
      | _, _ => false
      end
  end.

(** for replay files: what the model lists *)
Definition model_obs (c : case) : list obs :=
  match c with
  | Case h days kp cat f limit random sched so eo now skip listdir _ _ _ =>
      [to_obs mem_id h (model_mem h cat f limit random skip);
       to_obs mem_id h (model_file h listdir cat f limit skip);
       to_obs (s3_id (fmt_of days)) h (model_s3 h days kp cat f limit (if Nat.eqb random 1 then 0 else random) sched so eo now skip)]
  | CatCase id _ _ => []
  end.
