(** Correspondence runner for C18: the metadata handed to the cassette (full cassette-call comparison). *)
From Playback Require Export Run.RunRec.
Definition check_case : case -> bool := check_with (fun m i => eq_outcome m i && eq_cass m i).
