(** Correspondence runner for C11: jsonpickle 0.9.3 on generated object graphs (tree shaped,
    with shared sub-objects, with cycles through lists/objects) against the heap model:
    exact [encode] text (incl. py/id numbering), the shape of the decoded graph (which nodes
    are the same object), and the text of encoding the decoded graph again. *)
From Playback Require Export Base.Str Values.PyVal Values.Codec Values.Heap Values.HeapRoundTrip.
Open Scope list_scope.

Record case := Case {
  c_heap : heap;                  (* the generated graph; sets in the implementation's iteration order *)
  c_root : ref;
  c_orig_shape : str;             (* implementation: full-identity shape of the graph the driver built *)
  c_enc : option str;             (* jsonpickle.encode(v, unpicklable=True); None = it raised *)
  c_json : option json;           (* harness: json.loads of that text *)
  c_dec_shape : option str;       (* shape of jsonpickle.decode(text); None = it raised *)
  c_reenc : option str            (* jsonpickle.encode(decode(text)) *)
}.

Fixpoint json_eqb (a b : json) : bool :=
  match a, b with
  | JNull, JNull => true
  | JBool x, JBool y => Bool.eqb x y
  | JInt x, JInt y => Z.eqb x y
  | JFloat x, JFloat y | JStr x, JStr y => str_eqb x y
  | JArr x, JArr y =>
      (fix go (x y : list json) : bool := match x, y with
         | [], [] => true
         | a :: x', b :: y' => json_eqb a b && go x' y'
         | _, _ => false end) x y
  | JObj x, JObj y =>
      (fix go (x y : list (str * json)) : bool := match x, y with
         | [], [] => true
         | (k, a) :: x', (k', b) :: y' => str_eqb k k' && json_eqb a b && go x' y'
         | _, _ => false end) x y
  | _, _ => false
  end.

Definition fuel_for (h : heap) : nat := 4 * length h + 40.
Definition text_of (r : hres (list nat * json)) : option str :=
  match r with HOk (_, j) => Some (dumps j) | HErr _ => None end.
Definition is_none {A} (o : option A) : bool := match o with None => true | Some _ => false end.

Definition model_shape (h : heap) (r : ref) : option str := text_of (shape_h qp_simple (fuel_for h) h [] r).
Definition model_enc (h : heap) (r : ref) : option str := text_of (encode_h qp_simple (fuel_for h) h [] r).

Definition check_case (c : case) : bool :=
  let h := c_heap c in
  option_eqb str_eqb (model_shape h (c_root c)) (Some (c_orig_shape c)) &&
  match encode_top qp_simple (fuel_for h) h (c_root c) with
  | HErr _ => is_none (c_enc c)
  | HOk j =>
      option_eqb str_eqb (Some (dumps j)) (c_enc c) &&
      option_eqb json_eqb (Some j) (c_json c) &&
      (* the hypothesis of C11_roundtrip_partial, evaluated on the implementation's own output:
         where it holds, the implementation's re-encoding must be the original text *)
      (if enc_ok qp_simple qp_dec_simple (fuel_for h) j then option_eqb str_eqb (c_reenc c) (c_enc c) else true) &&
      match decode_h qp_dec_simple (fuel_for h) [] j with
      | HErr _ => is_none (c_dec_shape c)
      | HOk (h', r') =>
          option_eqb str_eqb (model_shape h' r') (c_dec_shape c) &&
          option_eqb str_eqb (model_enc h' r') (c_reenc c)
      end
  end.

(** diagnostics for replay files: what the model computes for a case *)
Definition model_view (c : case) : option str * option str * (option str * option str) :=
  let h := c_heap c in
  (model_shape h (c_root c), model_enc h (c_root c),
   match encode_top qp_simple (fuel_for h) h (c_root c) with
   | HOk j => match decode_h qp_dec_simple (fuel_for h) [] j with
              | HOk (h', r') => (model_shape h' r', model_enc h' r')
              | HErr _ => (None, None) end
   | HErr _ => (None, None) end).
