(** Correspondence runner for C02: replay runs - outcome, trace (which bodies ran), cassette calls, outputs. *)
From Playback Require Export Run.RunRec.
Definition check_case : case -> bool :=
  check_with (fun m i => eq_outcome m i && eq_trace m i && eq_cass_kinds m i && eq_pbouts m i).
