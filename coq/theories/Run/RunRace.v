(** Racing threads, correspondence side: a victim method preempted before its e-th event by a second thread,
    which is itself preempted before its f-th event by a third one; each preempting thread runs to completion
    before the preempted one resumes (a thread with fewer events than its preemption point finishes first). *)
From Playback Require Export Recorder.Threads.
From Coq Require Import List Bool Arith.
Import ListNotations.

Definition race_schedule (e f : nat) : list action :=
  repeat (AStep 0) e ++ repeat (AStep 1) f ++ repeat (AStep 2) 12 ++ repeat (AStep 1) 12 ++ repeat (AStep 0) 12.

Record race_obs := mk_race {
  crashed0 : bool; crashed1 : bool; crashed2 : bool;    (* the method leaked AttributeError / AssertionError / TypeError *)
  ar_ : bool; ap_ : bool; fs_ : bool;                   (* shared fields afterwards *)
  handed : nat                                          (* hand-overs of the recording to the cassette, capped at 2 *)
}.

Definition crashed_at (ls : list local) (i : nat) : bool :=
  match nth_error ls i with Some l => crashed l | None => true end.

(** [third = None]: two threads only (the third is an idle thread that never runs) *)
Definition model_race (v : variant) (m0 m1 : meth) (m2 : option meth) (e f : nat) : race_obs :=
  let t2 := match m2 with Some m => start m | None => idle_thread end in
  let '(sh, ls) := run v (race_schedule e f) (sh0, [start m0; start m1; t2]) in
  mk_race (crashed_at ls 0) (crashed_at ls 1) (crashed_at ls 2) (ar sh) (ap sh) (fs sh) (fin sh).

(** an arbitrary schedule over up to three threads (one method each), then every thread runs to completion *)
Definition model_sched (v : variant) (ms : list meth) (sched : list nat) : race_obs :=
  let acts := map AStep sched ++ flat_map (fun i => repeat (AStep i) 12) (seq 0 (length ms)) in
  let '(sh, ls) := run v acts (sh0, map start ms ++ repeat idle_thread (3 - length ms)) in
  mk_race (crashed_at ls 0) (crashed_at ls 1) (crashed_at ls 2) (ar sh) (ap sh) (fs sh) (fin sh).

Definition eq_race (a b : race_obs) : bool :=
  Bool.eqb (crashed0 a) (crashed0 b) && Bool.eqb (crashed1 a) (crashed1 b) && Bool.eqb (crashed2 a) (crashed2 b) &&
  Bool.eqb (ar_ a) (ar_ b) && Bool.eqb (ap_ a) (ap_ b) && Bool.eqb (fs_ a) (fs_ b) && Nat.eqb (handed a) (handed b).

(** C05's projection: how often the recording was handed over, and whether it is still active *)
Definition eq_race_final (a b : race_obs) : bool := Bool.eqb (ar_ a) (ar_ b) && Nat.eqb (handed a) (handed b).

(** C09's projection: is the shared part of the recorder idle (recording, parameters, forced sampling)? *)
Definition eq_race_idle (a b : race_obs) : bool :=
  Bool.eqb (ar_ a) (ar_ b) && Bool.eqb (ap_ a) (ap_ b) && Bool.eqb (fs_ a) (fs_ b).
