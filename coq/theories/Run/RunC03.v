(** Correspondence runner for C03: recorded and playback outputs of program pairs. *)
From Playback Require Export Run.RunRec.
Definition check_case : case -> bool := check_with (fun m i => eq_outcome m i && eq_pbouts m i && eq_recouts m i).
