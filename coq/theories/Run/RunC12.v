(** Correspondence runner for C12.  One case = one workload (recordings, per-producer request
    lists, failing storage calls) and the runs the real AsyncRecordOnlyTapeCassette made on it under
    one or more schedules.  For every run the model must be able to follow the implementation's trace
    of atomic events step by step (each one enabled), end with the flusher Done, and show the same
    operations reaching the wrapped cassette in the same order with the same outcomes, the same
    stored recordings, the same live recording objects and the same requests refused at the caller. *)
From Playback Require Export Base.Str Values.PyVal Async.AsyncModel.
Open Scope list_scope.

Record run := Run {
  r_trace : list choice;                       (* atomic events the implementation went through *)
  r_applied : list (nat * nat * bool);         (* (producer, index in its workload, returned normally) in arrival order *)
  r_saved : list (nat * (dict * dict));        (* wrapped cassette after close(): recording ordinal -> (data, metadata) *)
  r_live : list (nat * (dict * dict * bool));  (* wrapped recording objects: (data, metadata, closed) *)
  r_refused : list (nat * nat)                 (* requests that raised at the caller, in issue order *)
}.

Inductive case :=
| Gate (ok : bool)       (* structural premise of the atomic-step reduction (ast lock gate) *)
| Runs (nrec : nat) (work : list (list op)) (strict : bool) (runs : list run).

(** type-exact equality of recorded values: same constructors all the way down ([VBool true] is not [VInt 1],
    [VFloat "0.0"] is not [VFloat "-0.0"]); only the item order of nested dicts is ignored ([canon]) *)
Definition val_eqb (a b : val) : bool := pyval_eqb (canon a) (canon b).

Definition dict_eqb : dict -> dict -> bool :=
  list_eqb (fun a b => N.eqb (fst a) (fst b) && val_eqb (snd a) (snd b)).

Definition applied_obs (s : state) : list (nat * nat * bool) :=
  map (fun e => (fst (fst e), o_idx (snd (fst e)), snd e)) (applied s).
Definition live_obs (s : state) : list (nat * (dict * dict * bool)) :=
  map (fun e => (fst e, (r_data (snd e), r_meta (snd e), r_closed (snd e)))) (live (wstore s)).
Definition refused_obs (s : state) : list (nat * nat) :=
  map (fun e => (fst (fst e), o_idx (snd (fst e)))) (filter (fun e => negb (snd e) && negb (is_abort (snd (fst e)))) (hist s)).

Definition is_done (p : pc) : bool := match p with Done => true | _ => false end.

Definition model_run (nrec : nat) (work : list (list op)) (strict : bool) (r : run) : option state :=
  run_schedule strict (r_trace r) (init nrec work).

Definition check_run (nrec : nat) (work : list (list op)) (strict : bool) (r : run) : bool :=
  match model_run nrec work strict r with
  | None => false
  | Some s =>
      is_done (fl s) && stop s && all_done (pending s) &&
      match buffer s with [] => true | _ => false end &&
      list_eqb (fun a b => Nat.eqb (fst (fst a)) (fst (fst b)) && Nat.eqb (snd (fst a)) (snd (fst b))
                           && Bool.eqb (snd a) (snd b)) (applied_obs s) (r_applied r) &&
      list_eqb (fun a b => Nat.eqb (fst a) (fst b) && dict_eqb (fst (snd a)) (fst (snd b))
                           && dict_eqb (snd (snd a)) (snd (snd b))) (saved (wstore s)) (r_saved r) &&
      list_eqb (fun a b => Nat.eqb (fst a) (fst b) && dict_eqb (fst (fst (snd a))) (fst (fst (snd b)))
                           && dict_eqb (snd (fst (snd a))) (snd (fst (snd b)))
                           && Bool.eqb (snd (snd a)) (snd (snd b))) (live_obs s) (r_live r) &&
      list_eqb (fun a b => Nat.eqb (fst a) (fst b) && Nat.eqb (snd a) (snd b)) (refused_obs s) (r_refused r)
  end.

Definition check_case (c : case) : bool :=
  match c with
  | Gate ok => ok
  | Runs nrec work strict runs => forallb (check_run nrec work strict) runs
  end.

(** diagnostics for replay files: what the model says for the first run of a case *)
Definition model_obs (c : case) :=
  match c with
  | Runs nrec work strict (r :: _) =>
      match model_run nrec work strict r with
      | Some s => Some (is_done (fl s), applied_obs s, saved (wstore s), live_obs s, refused_obs s)
      | None => None
      end
  | _ => None
  end.
