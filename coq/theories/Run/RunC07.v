(** Correspondence runner for C07: a history of create / save / get / get_metadata calls on one
    cassette (in-memory, file-based, or S3 with a key prefix); after every call the outcome and
    the stored names (ids / file names / bucket keys) are compared with the model's (in histories with
    runs of 1000+ saves, [PBulk], the number of stored names).  Every saved
    value is checked to lie in the leaf domain of the C07 theorems ([rec_leaves_ok]) and re-evaluates
    [loads (dumps j) = Some j] on the concrete parser (a theorem on [jwf]: JsonFacts.loads_dumps). *)
From Playback Require Export Base.Str Values.PyVal Values.Codec Values.JsonWf Values.JsonParse
  Cassette.Bucket Cassette.S3Store Cassette.Stores.
Open Scope list_scope.

Inductive kind := KMem | KFile | KS3 (prefix : str).

Inductive cop :=
| PCreate (category day uuid : str)
| PSave (r : recording)
| PGet (id : str)
| PGetMeta (id : str)
| PBulk (rs : list recording)  (* a run of saves of other recordings (a long history), observed as a whole *)
| PNoop.                       (* a client scribbles on an object it was handed / had saved: no store call *)

Inductive cobs :=
| BUnknown                     (* an exception the model has no name for *)
| BRaises (e : exn)
| BOk
| BId (id : str)
| BRec (id data meta : pyval)
| BVal (v : pyval).

(** the stored names after a call: all of them, or (histories of 1000+ recordings) only how many there are *)
Inductive nobs := NAll (l : list str) | NCount (n : N).

Record case := Case { k_kind : kind; k_ops : list (cop * cobs * nobs) }.

Record cstate := CState { s_mem : mem_store; s_dir : directory; s_b : bstate }.

Definition m_dec := dec qp_dec_simple loads.
Definition m_id (b : bytes) : bytes := b.
Definition m_some (b : bytes) : option bytes := Some b.

Definition s3cfg (p : str) : cfg := Cfg p false false.

Definition names_sorted (l : list str) : list str := map fst (sort_items (map (fun k => (k, tt)) l)).

Definition model_names (k : kind) (st : cstate) : list str :=
  match k with
  | KMem => names_sorted (map fst (s_mem st))        (* get_all_recording_ids() is sorted *)
  | KFile => names_sorted (map fst (s_dir st))
  | KS3 _ => b_keys (objs (s_b st))
  end.

Definition model_count (k : kind) (st : cstate) : N :=
  N.of_nat match k with
           | KMem => length (s_mem st)
           | KFile => length (s_dir st)
           | KS3 _ => length (objs (s_b st))
           end.

Definition names_match (k : kind) (st : cstate) (o : nobs) : bool :=
  match o with
  | NAll l => list_eqb str_eqb (model_names k st) l
  | NCount n => N.eqb (model_count k st) n
  end.

Inductive mres := MRaises (e : exn) | MOk | MId (id : str) | MRec (f : fetched) | MVal (v : pyval).

Definition of_unit (x : res unit) : mres := match x with Ans _ => MOk | Raises e => MRaises e end.
Definition of_rec (x : res fetched) : mres := match x with Ans f => MRec f | Raises e => MRaises e end.
Definition of_val (x : res pyval) : mres := match x with Ans v => MVal v | Raises e => MRaises e end.

Definition model_save (k : kind) (r : recording) (st : cstate) : cstate * mres :=
  match k with
  | KMem => let '(s, x) := mem_save qp_simple r (s_mem st) in (CState s (s_dir st) (s_b st), of_unit x)
  | KFile => let '(d, x) := file_save qp_simple r (s_dir st) in (CState (s_mem st) d (s_b st), of_unit x)
  | KS3 p => let '(b, x) := s3_save qp_simple m_id (s3cfg p) r NoCalc (s_b st) in
             (CState (s_mem st) (s_dir st) b, of_unit x)
  end.

(** a run of saves: stops at the first one that does not answer Ok *)
Fixpoint model_bulk (k : kind) (rs : list recording) (st : cstate) : cstate * mres :=
  match rs with
  | [] => (st, MOk)
  | r :: rs' => let '(st', m) := model_save k r st in
                match m with MOk => model_bulk k rs' st' | _ => (st', m) end
  end.

Definition model_op (k : kind) (o : cop) (st : cstate) : cstate * mres :=
  match o, k with
  | PNoop, _ => (st, MOk)
  | PCreate cat day uuid, KS3 p =>
      (st, match s3_create (s3cfg p) cat day uuid with Ans i => MId i | Raises e => MRaises e end)
  | PCreate cat _ uuid, _ => (st, MId (plain_create cat uuid))
  | PSave r, _ => model_save k r st
  | PBulk rs, _ => model_bulk k rs st
  | PGet id, KMem => (st, of_rec (mem_get qp_dec_simple loads id (s_mem st)))
  | PGet id, KFile => (st, of_rec (file_get qp_dec_simple loads id (s_dir st)))
  | PGet id, KS3 p => (st, of_rec (s3_get qp_dec_simple loads m_some (s3cfg p) id (objs (s_b st))))
  | PGetMeta id, KMem => (st, of_val (mem_get_meta qp_dec_simple loads id (s_mem st)))
  | PGetMeta id, KFile => (st, of_val (file_get_meta qp_dec_simple loads id (s_dir st)))
  | PGetMeta id, KS3 p => (st, of_val (s3_get_meta qp_dec_simple loads (s3cfg p) id (objs (s_b st))))
  end.

Definition res_matches (m : mres) (o : cobs) : bool :=
  match m, o with
  | MRaises e, BRaises e' => exn_eqb e e'
  | MOk, BOk => true
  | MId i, BId i' => str_eqb i i'
  | MRec f, BRec i d m' => py_equal (f_id f) i && py_equal (f_data f) d && py_equal (f_meta f) m'
  | MVal v, BVal v' => py_equal v v'
  | _, _ => false
  end.

(** the json.loads oracle premise on this recording's texts *)
Fixpoint json_eqb (a b : json) : bool :=
  match a, b with
  | JNull, JNull => true
  | JBool x, JBool y => Bool.eqb x y
  | JInt x, JInt y => Z.eqb x y
  | JFloat x, JFloat y | JStr x, JStr y => str_eqb x y
  | JArr x, JArr y =>
      (fix go (x y : list json) : bool := match x, y with
         | [], [] => true | a :: x', b :: y' => json_eqb a b && go x' y' | _, _ => false end) x y
  | JObj x, JObj y =>
      (fix go (x y : list (str * json)) : bool := match x, y with
         | [], [] => true
         | (k, a) :: x', (k', b) :: y' => str_eqb k k' && json_eqb a b && go x' y'
         | _, _ => false end) x y
  | _, _ => false
  end.
Definition loads_premise (v : pyval) : bool :=
  match flatten qp_simple v with
  | Some j => match loads (dumps j) with Some j' => json_eqb j j' | None => false end
  | None => true
  end.
Definition premises_rec (r : recording) : bool :=
  rec_leaves_ok r &&      (* the leaf-domain premise of the theorems holds of everything the harness saves *)
  loads_premise (rec_obj r) && loads_premise (full_value r) && loads_premise (VDict (r_meta r)).
Definition premises (o : cop) : bool :=
  match o with
  | PSave r => premises_rec r
  | PBulk rs => forallb premises_rec rs
  | _ => true
  end.

Fixpoint check_ops (k : kind) (ops : list (cop * cobs * nobs)) (st : cstate) : bool :=
  match ops with
  | [] => true
  | (o, ob, names) :: ops' =>
      let '(st', m) := model_op k o st in
      res_matches m ob && names_match k st' names && premises o && check_ops k ops' st'
  end.

Definition check_case (c : case) : bool := check_ops (k_kind c) (k_ops c) (CState [] [] (BState [] [])).

Fixpoint model_trace (k : kind) (ops : list (cop * cobs * nobs)) (st : cstate) : list (mres * nobs * bool) :=
  match ops with
  | [] => []
  | (o, _, n) :: ops' =>
      let '(st', m) := model_op k o st in
      (m, match n with NAll _ => NAll (model_names k st') | NCount _ => NCount (model_count k st') end, premises o)
        :: model_trace k ops' st'
  end.
Definition model_obs (c : case) := model_trace (k_kind c) (k_ops c) (CState [] [] (BState [] [])).
