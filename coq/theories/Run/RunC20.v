(** Correspondence runner for C20: the real file data handlers (unit level and end to end through
    the real recorder and a real cassette) against model H on the same generated cases. *)
From Coq Require Export QArith.
From Playback Require Export Base.Str Values.PyVal Values.Codec Files.Base64 Files.FileIntercept.
Open Scope list_scope.

(** ---- decidable equalities ---- *)
Definition bytes_eqb : list N -> list N -> bool := list_eqb N.eqb.

Definition exn_code (e : exn) : N :=
  match e with IndexError => 1 | KeyError => 2 | TypeError => 3 | OSError => 4 | ValueError => 5 end%N.
Definition exn_eqb (a b : exn) : bool := N.eqb (exn_code a) (exn_code b).

Definition res_eqb {A} (eqb : A -> A -> bool) (a b : res A) : bool :=
  match a, b with
  | Ans x, Ans y => eqb x y
  | Raises e, Raises f => exn_eqb e f
  | _, _ => false
  end.

Definition arg_eqb (a b : arg) : bool :=
  match a, b with
  | ANone, ANone => true
  | AStr s, AStr t => str_eqb s t
  | AOther x, AOther y => Bool.eqb x y
  | _, _ => false
  end.

Definition pair_eqb {A B} (ea : A -> A -> bool) (eb : B -> B -> bool) (x y : A * B) : bool :=
  ea (fst x) (fst y) && eb (snd x) (snd y).

(** ---- the observation of one end-to-end case ---- *)
Record obs := Obs {
  o_status : N;                          (* 0 = recorded and replayed, 1 = recording discarded, 2 = lost in the cassette *)
  o_rec_in : list N;                     (* file_content stored for the input, as fetched from the cassette *)
  o_rec_in_path : str;                   (* file_path stored for the input *)
  o_rec_out : list N;
  o_rec_out_path : str;
  o_opened_rec : list str;               (* files opened for reading while recording, in order *)
  o_opened_play : list str;              (* ... while replaying *)
  o_play_ret : res str;                  (* what the replayed input call returned *)
  o_written : list (str * list N);       (* the input files (recorded path, replayed path) that exist after the replay, with content *)
  o_holder_rec : res (list N * str);     (* holder restored from the recorded output: content, output_file_path *)
  o_holder_play : res (list N * str)     (* holder restored from the output captured during replay *)
}.

Definition obs_eqb (a b : obs) : bool :=
  N.eqb (o_status a) (o_status b) &&
  bytes_eqb (o_rec_in a) (o_rec_in b) && str_eqb (o_rec_in_path a) (o_rec_in_path b) &&
  bytes_eqb (o_rec_out a) (o_rec_out b) && str_eqb (o_rec_out_path a) (o_rec_out_path b) &&
  list_eqb str_eqb (o_opened_rec a) (o_opened_rec b) &&
  list_eqb str_eqb (o_opened_play a) (o_opened_play b) &&
  res_eqb str_eqb (o_play_ret a) (o_play_ret b) &&
  list_eqb (pair_eqb str_eqb bytes_eqb) (o_written a) (o_written b) &&
  res_eqb (pair_eqb bytes_eqb str_eqb) (o_holder_rec a) (o_holder_rec b) &&
  res_eqb (pair_eqb bytes_eqb str_eqb) (o_holder_play a) (o_holder_play b).

Record trip_case := Trip {
  t_explicit : option Q;                 (* intercepted_size_limit passed to both handlers *)
  t_env : envvar;                        (* PLAYBACK_INTERCEPTED_FILE_SIZE_LIMIT when they are constructed *)
  t_name : str;                          (* file_path_arg_name *)
  t_in_index : Z;
  t_out_index : Z;
  t_out_static : bool;
  t_fs_rec : fs_table;                   (* files present while recording *)
  t_fs_play : fs_table;                  (* files present when the replayed output is captured *)
  t_pre_play : fstate;                   (* input files already present when the replay starts *)
  t_unwritable : bool;                   (* the replayed input path cannot be opened for writing (no such directory) *)
  t_in_rec : list arg * list (str * arg);    (* full positional arguments (self included) and keywords *)
  t_in_play : list arg * list (str * arg);
  t_out_rec : list arg * list (str * arg);
  t_out_play : list arg * list (str * arg);
  t_impl : obs
}.

Definition qp_id (b : list N) : str := b.

Definition recorded_fields (v : pyval) : list N * str :=
  match v with
  | VDict d =>
      (match assoc K_CONTENT d with Some (VBytes c) => c | _ => [] end,
       match assoc K_PATH d with Some (VStr p) => p | _ => [] end)
  | _ => ([], [])
  end.

Definition holder_obs (r : res holder) : res (list N * str) :=
  match r with
  | Ans hd => Ans (file_content hd, match output_file_path hd with VStr p => p | _ => [] end)
  | Raises e => Raises e
  end.

Definition discarded (opened : list str) : obs :=
  Obs 1 [] [] [] [] opened [] (Raises KeyError) [] (Raises KeyError) (Raises KeyError).
Definition lost (opened : list str) : obs :=
  Obs 2 [] [] [] [] opened [] (Raises KeyError) [] (Raises KeyError) (Raises KeyError).

Definition model_trip (t : trip_case) : obs :=
  match mk_handler (t_in_index t) (t_name t) (t_explicit t) (t_env t),
        mk_handler (t_out_index t) (t_name t) (t_explicit t) (t_env t) with
  | Ans h_in, Ans h_out =>
      let fsz := fs_size (t_fs_rec t) in
      let frd := fs_read (t_fs_rec t) in
      (* recording: the input is prepared first (tape_recorder.py:855), then the output (:212) *)
      match prepare_input h_in fsz frd (handler_args_input (fst (t_in_rec t))) (snd (t_in_rec t)) with
      | (Raises _, op1) => discarded op1      (* discard: the output call is no longer intercepted *)
      | (Ans v_in, op1) =>
          match prepare_output h_out fsz frd (handler_args_output (t_out_static t) (fst (t_out_rec t)))
                               (snd (t_out_rec t)) with
          | (Raises _, op2) => discarded (op1 ++ op2)
          | (Ans v_out, op2) =>
              match cassette_trip qp_id qp_id v_in, cassette_trip qp_id qp_id v_out with
              | Some v_in', Some v_out' =>
                  let '(ret, written) :=
                    restore_input h_in (fun _ => negb (t_unwritable t)) v_in'
                                  (handler_args_input (fst (t_in_play t))) (snd (t_in_play t)) (t_pre_play t) in
                  (* a failing restore ends the replayed operation: its output call is never reached *)
                  let '(v_play, op3) :=
                    match ret with
                    | Raises _ => (Raises KeyError, [])
                    | Ans _ =>
                        prepare_output h_out (fs_size (t_fs_play t)) (fs_read (t_fs_play t))
                                       (handler_args_output (t_out_static t) (fst (t_out_play t)))
                                       (snd (t_out_play t))
                    end in
                  Obs 0 (fst (recorded_fields v_in')) (snd (recorded_fields v_in'))
                      (fst (recorded_fields v_out')) (snd (recorded_fields v_out'))
                      (op1 ++ op2) op3 ret written
                      (holder_obs (restore_output v_out'))
                      (holder_obs (match v_play with Ans v => restore_output v | Raises e => Raises e end))
              | _, _ => lost (op1 ++ op2)
              end
          end
      end
  | _, _ => discarded []
  end.

(** several recordings (one input file each), replayed one after another with the same call, hence into
    the same path; observed: the content of the replayed path after every replay *)
Record seq_case := Seq {
  s_explicit : option Q;
  s_env : envvar;
  s_name : str;
  s_index : Z;
  s_files : list (Z * list N);           (* size and content of the input file of each recording *)
  s_rec : list arg * list (str * arg);   (* the recorded call (path RI) *)
  s_play : list arg * list (str * arg);  (* the replayed call (path PI) *)
  s_pre : fstate;                        (* state before the first replay *)
  s_order : list nat;                    (* which recording is replayed at each step *)
  s_impl : list (option (list N))        (* content of PI after each step *)
}.

Definition model_seq (c : seq_case) : list (option (list N)) :=
  match mk_handler (s_index c) (s_name c) (s_explicit c) (s_env c) with
  | Raises _ => []
  | Ans h =>
      let stored := map (fun f : Z * list N =>
                           let t := [(U"RI", f)] in
                           match fst (prepare_input h (fs_size t) (fs_read t) (fst (s_rec c)) (snd (s_rec c))) with
                           | Ans v => cassette_trip qp_id qp_id v
                           | Raises _ => None
                           end) (s_files c) in
      (fix go (order : list nat) (fs : fstate) : list (option (list N)) :=
         match order with
         | [] => []
         | i :: rest =>
             match nth_error stored i with
             | Some (Some v) =>
                 let fs' := snd (restore_input h (fun _ => true) v (fst (s_play c)) (snd (s_play c)) fs) in
                 fs_get (U"PI") fs' :: go rest fs'
             | _ => [None]        (* not a stored recording: the case is malformed *)
             end
         end) (s_order c) (s_pre c)
  end.

(** a history on ONE path inside one recorded operation: the file at the recorded path is handed to the file
    handlers several times - to the input handler (HIn) or to the output handler (HOut) - and may be rewritten
    between two interceptions (other bytes of the same or of another length; what the file system reports about
    the file besides its size and bytes - modification time, inode - is not an input of the handlers).  Each
    step carries what the file holds WHEN THAT STEP's interception happens; [fresh] = the replayed operation
    writes these bytes itself before the step (an output it produces), otherwise the file is as the previous
    step left it.  Observed per step: HIn - the content of the replayed path right after the replayed call;
    HOut - the content of the holder restored from the recorded output. *)
Inductive hvia := HIn | HOut.
Record hist_case := Hist {
  hi_explicit : option Q;
  hi_env : envvar;
  hi_name : str;
  hi_in_index : Z;
  hi_out_index : Z;
  hi_out_static : bool;
  hi_steps : list (hvia * bool * (Z * list N));   (* handler, fresh, size and content at that moment *)
  hi_in_rec : list arg * list (str * arg);   (* the recorded calls name the path RI, the replayed ones PI *)
  hi_in_play : list arg * list (str * arg);
  hi_out_rec : list arg * list (str * arg);
  hi_pre : fstate;                           (* state before the replay *)
  hi_impl : list (option (list N))
}.

Definition model_hist (c : hist_case) : list (option (list N)) :=
  match mk_handler (hi_in_index c) (hi_name c) (hi_explicit c) (hi_env c),
        mk_handler (hi_out_index c) (hi_name c) (hi_explicit c) (hi_env c) with
  | Ans h_in, Ans h_out =>
      (fix go (steps : list (hvia * bool * (Z * list N))) (fs : fstate) : list (option (list N)) :=
         match steps with
         | [] => []
         | (via, fresh, f) :: rest =>
             let t := [(U"RI", f)] in
             match via with
             | HIn =>
                 match fst (prepare_input h_in (fs_size t) (fs_read t)
                                          (handler_args_input (fst (hi_in_rec c))) (snd (hi_in_rec c))) with
                 | Ans v =>
                     match cassette_trip qp_id qp_id v with
                     | Some v' =>
                         let fs' := snd (restore_input h_in (fun _ => true) v'
                                                       (handler_args_input (fst (hi_in_play c))) (snd (hi_in_play c)) fs) in
                         fs_get (U"PI") fs' :: go rest fs'
                     | None => [None]
                     end
                 | Raises _ => [None]
                 end
             | HOut =>
                 match fst (prepare_output h_out (fs_size t) (fs_read t)
                                           (handler_args_output (hi_out_static c) (fst (hi_out_rec c)))
                                           (snd (hi_out_rec c))) with
                 | Ans v =>
                     match cassette_trip qp_id qp_id v with
                     | Some v' =>
                         match restore_output v' with
                         | Ans hd => Some (file_content hd) :: go rest (if fresh then fs_set (U"PI") (snd f) fs else fs)
                         | Raises _ => [None]
                         end
                     | None => [None]
                     end
                 | Raises _ => [None]
                 end
             end
         end) (hi_steps c) (hi_pre c)
  | _, _ => []
  end.

Inductive case :=
| CB64 (content impl_enc : list N) (impl_dec : res (list N))
    (* _serialize_file(content)['file_content'] and _deserialize_file of it *)
| CAbove (explicit : option Q) (env : envvar) (size : Z) (impl_limit : res Q) (impl : res bool)
    (* the constructed handler's limit and _is_file_above_size_limit on a file of that size *)
| CPath (index : Z) (name : str) (args : list arg) (kwargs : list (str * arg)) (impl : res arg)
| CTrip (t : trip_case)
| CSeq (c : seq_case)
| CHist (c : hist_case).

Definition model_b64 (content : list N) : list N * res (list N) :=
  (b64enc content,
   match deserialize_file (serialize_file content (U"p")) with
   | Ans (_, b) => Ans b
   | Raises e => Raises e
   end).

Definition model_above (explicit : option Q) (env : envvar) (size : Z) : res Q * res bool :=
  match mk_handler 0 (U"path") explicit env with
  | Ans h => (match h_limit h with Some q => Ans q | None => Raises KeyError end,
              above_check h (fun _ => Ans size) (U"f"))
  | Raises e => (Raises e, Raises e)
  end.

Definition check_case (c : case) : bool :=
  match c with
  | CB64 content enc dec =>
      let '(me, md) := model_b64 content in bytes_eqb me enc && res_eqb bytes_eqb md dec
  | CAbove explicit env size il ia =>
      let '(ml, ma) := model_above explicit env size in
      res_eqb Qeq_bool ml il && res_eqb Bool.eqb ma ia
  | CPath index name args kwargs impl =>
      res_eqb arg_eqb (get_path (Handler index name None) args kwargs) impl
  | CTrip t => obs_eqb (model_trip t) (t_impl t)
  | CSeq c => list_eqb (option_eqb bytes_eqb) (model_seq c) (s_impl c)
  | CHist c => list_eqb (option_eqb bytes_eqb) (model_hist c) (hi_impl c)
  end.

(** for diagnostics in replay files *)
Inductive shown :=
| ShB64 (enc : list N) (dec : res (list N))
| ShAbove (l : res Q) (a : res bool)
| ShPath (p : res arg)
| ShTrip (o : obs)
| ShSeq (l : list (option (list N))).
Definition model_obs (c : case) : shown :=
  match c with
  | CB64 content _ _ => let '(e, d) := model_b64 content in ShB64 e d
  | CAbove explicit env size _ _ => let '(l, a) := model_above explicit env size in ShAbove l a
  | CPath index name args kwargs _ => ShPath (get_path (Handler index name None) args kwargs)
  | CTrip t => ShTrip (model_trip t)
  | CSeq c => ShSeq (model_seq c)
  | CHist c => ShSeq (model_hist c)
  end.
