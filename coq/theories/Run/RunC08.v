(** Correspondence runner for C08: the comparisons yielded by the real Equalizer (label, status, message kind,
    attached replay, presence of expected/actual, exception flags) and the way the run ended must equal the model's,
    in dedicated and in in-process mode, consumed fully or abandoned after n yields. *)
From Playback Require Export Base.Str Equalizer.EqModel Equalizer.EqObs.
Open Scope list_scope.

Record case := Case {
  c_dedicated : bool;
  c_cfg : cfg;
  c_script : list (rid * behaviour);
  c_stop : stop;
  c_impl_cmps : list cmp;
  c_impl_outcome : outcome
}.

Definition prefix_of (c : case) : list (rid * behaviour) :=
  stopped_script (c_stop c) (c_script c).

Definition model_obs (c : case) : list cmp * outcome :=
  if c_dedicated c then let '(vs, o, _) := run_stopped (c_stop c) (c_cfg c) (c_script c) in (vs, o)
  else run_inproc (keep (c_cfg c)) (prefix_of c).

Definition check_case (c : case) : bool :=
  let (vs, o) := model_obs c in
  list_eqb cmp_eqb vs (c_impl_cmps c) && outcome_eqb o (c_impl_outcome c).
