(** Correspondence runner for C19: [PlaybackStudio.play()] of the implementation, projected to
    (ordered categories, per category the comparisons with the tags they carry | the tuner's error),
    must equal the model's [play] on the same request. *)
From Playback Require Export Base.Str Studio.Studio.
Open Scope list_scope.

Record case := Case {
  k_parse : bool;                        (* true: S3 cassette ([extract_parse]); false: in-memory / file ([extract_split]) *)
  k_beh : list (rid * behaviour);        (* behaviour of every stored recording; any other id is BMissing *)
  k_fail : list (cat * err);             (* categories whose tuning cannot be created, each with the (canonical text
                                            of the) exception its tuner ends in: any class, any arguments, none *)
  k_lookups : list (cat * list rid);     (* what the cassette's lookup answered for each category it was asked *)
  k_keep : bool;
  k_ids : option (list rid);
  k_cats : option (list cat);
  k_close : list (cat * nat);            (* the consumer closed this category's generator after n comparisons *)
  k_impl : res (list (cat * cat_result)) (* implementation observable *)
}.

Fixpoint assoc {A} (k : str) (l : list (str * A)) : option A :=
  match l with
  | [] => None
  | (k', v) :: l' => if str_eqb k' k then Some v else assoc k l'
  end.

Definition extract_of (c : case) : rid -> res cat := if k_parse c then extract_parse else extract_split.

(** the harness' tuner: tags are role ':' category; a failing category raises the exception the case names for it *)
Definition tuning_of (c : cat) : tuning :=
  Tuning (U"P:" ++ c) (U"E:" ++ c) (U"C:" ++ c) (U"D:" ++ c).
Definition tuner_of (c : case) (x : cat) : res tuning :=
  match assoc x (k_fail c) with
  | Some e => Raises e
  | None => Ans (tuning_of x)
  end.
Definition lookup_of (c : case) (x : cat) : res (list rid) :=
  match assoc x (k_lookups c) with
  | Some l => Ans l
  | None => Raises (U"lookup-not-observed")
  end.
Definition beh_of (c : case) (id : rid) : behaviour :=
  match assoc id (k_beh c) with Some b => b | None => BMissing end.

(** a generator closed by its consumer after n comparisons has produced the first n elements of the
    model's list (each element is computed on demand); other categories are untouched *)
Definition cut_entry (cl : list (cat * nat)) (p : cat * cat_result) : cat * cat_result :=
  match assoc (fst p) cl, snd p with
  | Some n, CatRun l => (fst p, CatRun (firstn n l))
  | _, _ => p
  end.

Definition model_obs (c : case) : res (list (cat * cat_result)) :=
  match play (extract_of c) (tuner_of c) (lookup_of c) (beh_of c) (k_keep c) (k_ids c) (k_cats c) with
  | Ans r => Ans (map (cut_entry (k_close c)) r)
  | Raises e => Raises e
  end.

(** decidable equality on observables *)
Definition status_eqb (a b : status) : bool :=
  match a, b with Equal, Equal | Different, Different | Failure, Failure => true | _, _ => false end.
Definition stage_eqb (a b : stage) : bool :=
  match a, b with
  | Done, Done | AtComparator, AtComparator | AtExtractor, AtExtractor | AtNoOutput, AtNoOutput
  | AtPlayer, AtPlayer | AtFetch, AtFetch => true
  | _, _ => false
  end.
Definition pair_eqb (a b : str * str) : bool := str_eqb (fst a) (fst b) && str_eqb (snd a) (snd b).
Definition cmp_eqb (a b : comparison) : bool :=
  str_eqb (c_label a) (c_label b) && status_eqb (c_status a) (c_status b) && stage_eqb (c_stage a) (c_stage b) &&
  option_eqb str_eqb (c_player a) (c_player b) && option_eqb str_eqb (c_extractor a) (c_extractor b) &&
  option_eqb str_eqb (c_comparator a) (c_comparator b) && option_eqb str_eqb (c_data a) (c_data b) &&
  option_eqb str_eqb (c_subject a) (c_subject b) && option_eqb str_eqb (c_kept a) (c_kept b) &&
  option_eqb str_eqb (c_attached a) (c_attached b) && list_eqb pair_eqb (c_journal a) (c_journal b).
Definition cat_result_eqb (a b : cat_result) : bool :=
  match a, b with
  | CatRun l, CatRun m => list_eqb cmp_eqb l m
  | CatError e, CatError f => str_eqb e f
  | _, _ => false
  end.
Definition entry_eqb (a b : cat * cat_result) : bool := str_eqb (fst a) (fst b) && cat_result_eqb (snd a) (snd b).
Definition obs_eqb (a b : res (list (cat * cat_result))) : bool :=
  match a, b with
  | Ans l, Ans m => list_eqb entry_eqb l m
  | Raises e, Raises f => str_eqb e f
  | _, _ => false
  end.

Definition check_case (c : case) : bool := obs_eqb (model_obs c) (k_impl c).
