(** Correspondence runner for C14: the implementation's answer for (filter, recorded value)
    through _match_metadata_value and through match_against_recorded_metadata. *)
From Playback Require Export Base.Str Cassette.Matcher.
From Coq Require Export QArith.
Open Scope list_scope.

(** observed answer: 0 = False, 1 = True, 2 = raised TypeError, 3 = anything else *)
Record case := Case {
  c_filter : mval;
  c_recorded : option mval;     (* None = key absent from the recording's metadata *)
  c_impl_value : nat;           (* _match_metadata_value(filter, metadata.get(k)) *)
  c_impl_meta : nat;            (* match_against_recorded_metadata({k: filter}, metadata) *)
  c_impl_s3 : nat               (* the S3 content filter on the JSON text of the metadata (9 = not applicable) *)
}.

Definition code_of (r : res bool) : nat :=
  match r with Ans false => 0 | Ans true => 1 | RaisesTypeError => 2 end.

Definition K : str := U"k".
Definition model_value (c : case) : nat :=
  code_of (match_value glob_simple (c_filter c) (match c_recorded c with Some v => v | None => MNone end)).
Definition model_meta (c : case) : nat :=
  code_of (match_meta glob_simple [(K, c_filter c)]
             (match c_recorded c with Some v => [(K, v)] | None => [] end)).

Definition check_case (c : case) : bool :=
  Nat.eqb (model_value c) (c_impl_value c) && Nat.eqb (model_meta c) (c_impl_meta c) &&
  (Nat.eqb (c_impl_s3 c) 9 || Nat.eqb (model_meta c) (c_impl_s3 c)).
