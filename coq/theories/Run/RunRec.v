(** Shared correspondence runner for the recorder properties (C01-C05, C09, C17, C18):
    a case is a history of runs on one recorder plus what the real TapeRecorder showed for each run;
    each property's RunCxx.v compares its own projection. *)
From Playback Require Export Base.Str Values.PyVal Values.Codec Values.KeyFormat Recorder.Dsl Recorder.Exec Recorder.Run.
From Coq Require Export QArith.
Open Scope list_scope.

(** ---- the concrete handlers / callables the driver instantiates ---- *)
Definition K_WRAPPED : str := U"wrapped".
Definition wrap_prep (v : pyval) (full : list pyval) (kw : list (str * pyval)) : option pyval :=
  Some (VDict [(K_WRAPPED, v); (U"nargs", VInt (Z.of_nat (length full)))]).
Definition wrap_restore (r : pyval) (full : list pyval) (kw : list (str * pyval)) : option pyval :=
  match r with VDict d => assoc K_WRAPPED d | _ => None end.
Definition h_wrap : ihandler := {| ih_prep := wrap_prep; ih_restore := wrap_restore |}.
Definition h_prep_raises : ihandler := {| ih_prep := fun _ _ _ => None; ih_restore := wrap_restore |}.
Definition h_restore_raises : ihandler := {| ih_prep := wrap_prep; ih_restore := fun _ _ _ => None |}.
Definition oh_wrap : ohandler := {| oh_prep := fun a kw => Some (VDict [(U"a", VList a); (U"k", VDict kw)]) |}.
Definition oh_raises : ohandler := {| oh_prep := fun _ _ => None |}.
(* handlers whose prepared value is not a container: a digest of the call (an int) / nothing at all (None) *)
Definition oh_count : ohandler := {| oh_prep := fun a kw => Some (VInt (Z.of_nat (length a) + 10 * Z.of_nat (length kw))) |}.
Definition oh_null : ohandler := {| oh_prep := fun _ _ => Some VNone |}.
Definition vm_echo (a : list pyval) (kw : list (str * pyval)) : pyval := VTuple a.

(** ---- decidable comparisons (values up to Python ==) ---- *)
Definition exn_eqb (a b : exn) : bool :=
  match a, b with
  | EUser x, EUser y => str_eqb x y
  | EKeyMissing, EKeyMissing | EKeyCreation, EKeyCreation | ENoSuchRecording, ENoSuchRecording
  | EAssertion, EAssertion | EOutside, EOutside => true
  | _, _ => false
  end.
Definition outcome_eqb (a b : outcome) : bool :=
  match a, b with
  | OVal x, OVal y => py_equal x y
  | OExn x, OExn y => exn_eqb x y
  | OInt, OInt => true
  | _, _ => false
  end.
Definition vals_eqb (a b : list pyval) : bool := list_eqb py_equal a b.
Definition kw_eqb (a b : list (str * pyval)) : bool :=
  list_eqb (fun x y => str_eqb (fst x) (fst y) && py_equal (snd x) (snd y)) (sort_items a) (sort_items b).
Definition datum_eqb (a b : datum) : bool :=
  match a, b with
  | DVal x, DVal y | DData x, DData y => py_equal x y
  | DExn x, DExn y => exn_eqb x y
  | DOut x kx, DOut y ky => vals_eqb x y && kw_eqb kx ky
  | DOpExn x, DOpExn y => str_eqb x y
  | _, _ => false
  end.
Definition ev_eqb (a b : ev) : bool :=
  match a, b with
  | EBegin x ax kx, EBegin y ay ky | EBody x ax kx, EBody y ay ky =>
      str_eqb x y && vals_eqb ax ay && kw_eqb kx ky
  | ECall x ox, ECall y oy => str_eqb x y && outcome_eqb ox oy
  | EWrite x dx, EWrite y dy | EPbOut x dx, EPbOut y dy => str_eqb x y && datum_eqb dx dy
  | EAbort, EAbort => true
  | _, _ => false
  end.
(** recordings and output lists are compared as maps (sorted by key) *)
Definition rec_eqb (a b : list (str * datum)) : bool :=
  list_eqb (fun x y => str_eqb (fst x) (fst y) && datum_eqb (snd x) (snd y)) (sort_items a) (sort_items b).
Definition cev_eqb (a b : cev) : bool :=
  match a, b with
  | CCreate x, CCreate y => str_eqb x y
  | CSave n dx mx, CSave m dy my => Nat.eqb n m && rec_eqb dx dy && kw_eqb mx my
  | CSaveFailed n, CSaveFailed m | CAbort n, CAbort m => Nat.eqb n m
  | CGet x, CGet y => Bool.eqb x y
  | _, _ => false
  end.
Definition counter_eqb (a b : list (str * N)) : bool :=
  list_eqb (fun x y => str_eqb (fst x) (fst y) && N.eqb (snd x) (snd y)) (sort_items a) (sort_items b).
Definition rst_eqb (a b : rst) : bool :=
  Bool.eqb (active a) (active b) && Bool.eqb (enabled a) (enabled b) && Bool.eqb (force a) (force b) && counter_eqb (counter a) (counter b) &&
  Bool.eqb (icpt a) (icpt b).

Definition eq_outcome (m i : obs) := outcome_eqb (ob_outcome m) (ob_outcome i).
Definition eq_trace (m i : obs) := list_eqb ev_eqb (ob_trace m) (ob_trace i).
Definition eq_cass (m i : obs) := list_eqb cev_eqb (ob_cass m) (ob_cass i).
Definition eq_pbouts (m i : obs) := rec_eqb (ob_pbouts m) (ob_pbouts i).
Definition eq_recouts (m i : obs) := rec_eqb (ob_recouts m) (ob_recouts i).
Definition eq_state (m i : obs) := rst_eqb (ob_state m) (ob_state i).

Record case := Case {
  c_draws : list Q;          (* scripted self._random.random() stream *)
  c_runs : list run;
  c_impl : list obs          (* what the real recorder showed, run by run *)
}.

Definition draws_of (c : case) : nat -> Q := fun n => nth n (c_draws c) 0%Q.
Definition model_obs (c : case) : list obs := run_history (draws_of c) (c_runs c) fresh_rst fresh_world.

Definition check_with (cmp : obs -> obs -> bool) (c : case) : bool :=
  list_eqb cmp (model_obs c) (c_impl c).

(** the full comparison (used by the model-validation self check) *)
Definition eq_all (m i : obs) : bool :=
  eq_outcome m i && eq_trace m i && eq_cass m i && eq_pbouts m i && eq_recouts m i && eq_state m i.
Definition check_case : case -> bool := check_with eq_all.

(** which components differ, run by run (diagnostics printed into replay files) *)
Definition diff_obs (m i : obs) : list nat :=
  (if eq_outcome m i then [] else [1%nat]) ++ (if eq_trace m i then [] else [2%nat]) ++
  (if eq_cass m i then [] else [3%nat]) ++ (if eq_pbouts m i then [] else [4%nat]) ++
  (if eq_recouts m i then [] else [5%nat]) ++ (if eq_state m i then [] else [6%nat]).
Fixpoint diff_runs (ms is_ : list obs) : list (list nat) :=
  match ms, is_ with
  | m :: ms', i :: is' => diff_obs m i :: diff_runs ms' is'
  | [], [] => []
  | _, _ => [[99%nat]]
  end.
Definition explain_case (c : case) := (diff_runs (model_obs c) (c_impl c), model_obs c).

(** weaker views of the cassette calls *)
Definition cev_kind_eqb (a b : cev) : bool :=
  match a, b with
  | CCreate x, CCreate y => str_eqb x y
  | CSave n _ _, CSave m _ _ | CSaveFailed n, CSaveFailed m | CAbort n, CAbort m => Nat.eqb n m
  | CGet x, CGet y => Bool.eqb x y
  | _, _ => false
  end.
Definition cev_nometa_eqb (a b : cev) : bool :=
  match a, b with
  | CSave n dx _, CSave m dy _ => Nat.eqb n m && rec_eqb dx dy
  | _, _ => cev_kind_eqb a b
  end.
Definition eq_cass_kinds (m i : obs) := list_eqb cev_kind_eqb (ob_cass m) (ob_cass i).
Definition eq_cass_nometa (m i : obs) := list_eqb cev_nometa_eqb (ob_cass m) (ob_cass i).
