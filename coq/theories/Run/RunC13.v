(** Correspondence runner for C13: the life of the worker processes as seen by the simulator (polls per task,
    tasks taken per worker, state of every worker when the generator stops and after the idle worker's next poll,
    births / deaths / kills in order, what is left in the queues, the terminate flag, the clock) must equal the
    model's trace. *)
From Playback Require Export Base.Str Equalizer.EqModel Equalizer.EqObs.
Open Scope list_scope.

Definition stat_code (w : wstat) : nat :=
  match w with
  | WIdle => 0 | WBusy _ _ => 1 | WHung _ => 2
  | WDead DExit => 3 | WDead DBefore => 4 | WDead DKilled => 5 | WDead DTerminated => 6
  end.

Definition event_code (e : event) : nat * nat :=
  match e with
  | EStart p => (0, p) | EExit p => (1, p) | EBefore p => (2, p) | EKilled p => (3, p)
  | ETerminated p => (4, p) | ELate p => (5, p)
  end.

Record trace := Trace {
  t_polls : list nat;                        (* per queued task, oldest first *)
  t_workers : list (list rid * nat * nat);   (* oldest first: tasks taken, state when the generator stops, state after settle *)
  t_events : list (nat * nat);               (* oldest first *)
  t_left : nat * nat;                        (* items left in the task / result queue *)
  t_lock : bool;                             (* task queue's read lock left held by a killed idle worker *)
  t_term : bool;
  t_clock : nat;
  t_outcome : outcome
}.

Record case := Case {
  c_cfg : cfg;
  c_script : list (rid * behaviour);
  c_stop : stop;
  c_impl : trace
}.

Definition model_trace (c : case) : trace :=
  let '(_, o, s1) := run_stopped (c_stop c) (c_cfg c) (c_script c) in
  let s2 := settle o s1 in
  Trace (rev (polls s1))
        (rev (map (fun ww => (w_served (fst ww), stat_code (w_stat (fst ww)), stat_code (w_stat (snd ww))))
                  (combine (workers s1) (workers s2))))
        (rev (map event_code (events (sh s2))))
        (length (tasks (sh s1)), length (results (sh s1))) (rlock (sh s1))
        (term s1) (clock s1) o.

Definition pair_eqb (a b : nat * nat) : bool := Nat.eqb (fst a) (fst b) && Nat.eqb (snd a) (snd b).
Definition wrow_eqb (a b : list rid * nat * nat) : bool :=
  list_eqb Nat.eqb (fst (fst a)) (fst (fst b)) && Nat.eqb (snd (fst a)) (snd (fst b)) && Nat.eqb (snd a) (snd b).

Definition trace_eqb (a b : trace) : bool :=
  list_eqb Nat.eqb (t_polls a) (t_polls b) && list_eqb wrow_eqb (t_workers a) (t_workers b)
  && list_eqb pair_eqb (t_events a) (t_events b) && pair_eqb (t_left a) (t_left b) && Bool.eqb (t_lock a) (t_lock b)
  && Bool.eqb (t_term a) (t_term b) && Nat.eqb (t_clock a) (t_clock b) && outcome_eqb (t_outcome a) (t_outcome b).

Definition check_case (c : case) : bool := trace_eqb (model_trace c) (c_impl c).
