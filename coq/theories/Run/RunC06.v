(** Correspondence runner for C06: exact key text of TapeRecorder._input_interception_key. *)
From Playback Require Export Base.Str Values.PyVal Values.Codec Values.KeyFormat Values.JsonWf.
From Playback Require Export Recorder.Dsl.
From Playback Require Import Recorder.Exec.
Open Scope list_scope.

(** one call made while a recording is played, through an interception declared with a resolver and fallback
    aliases: the keys the decorator looked up, in order (None = key creation failed) *)
Record lookup := Lookup {
  l_resolver : resolver;
  l_fallbacks : fallbacks;
  l_args : list pyval;                 (* full positional tuple, self included for instance calls *)
  l_kwargs : list (str * pyval);
  l_impl : option (list str)
}.

Record case := Case {
  c_alias : str;
  c_cap : capture;
  c_static : bool;
  c_args : list pyval;                 (* full positional tuple, self included for instance calls *)
  c_kwargs : list (str * pyval);
  c_impl : option str;                 (* _input_interception_key called directly; None = it raised *)
  c_impl_dec : option (option str);    (* key found in a recording made through the real decorator
                                          (Some None = recording discarded, key creation failed) *)
  c_lookups : list lookup              (* lookups of the case's interception (same alias text as template, capture
                                          selection and kind) declared with a resolver / fallback aliases *)
}.

Definition model_key (c : case) : option str :=
  ikey encode (c_alias c) (c_cap c) (c_static c) (c_args c) (c_kwargs c).

(** the leaf premise of the injectivity theorem ([leaves_ok]: float texts in the grammar, bytes < 256) holds
    of every value the harness sends *)
Definition premises_ok (c : case) : bool :=
  forallb leaves_ok (c_args c) && forallb (fun kv => leaves_ok (snd kv)) (c_kwargs c).

(** main key (alias formatted by the resolver) followed by the key of the same call under every fallback alias:
    Recorder.Exec.input_keys (tape_recorder.py:735-749), the model the recorder properties use *)
Definition model_lookup (c : case) (l : lookup) : option (list str) :=
  let cf := {| i_alias := c_alias c; i_resolver := l_resolver l; i_cap := c_cap c; i_static := c_static c;
               i_handler := None; i_prep_discards := false; i_run_missing := false; i_vmiss := VMNone;
               i_fallbacks := l_fallbacks l |} in
  input_keys cf (if c_static c then l_args l else tl (l_args l)) (l_kwargs l).

Definition lookup_ok (c : case) (l : lookup) : bool :=
  forallb leaves_ok (l_args l) && forallb (fun kv => leaves_ok (snd kv)) (l_kwargs l) &&
  option_eqb (list_eqb str_eqb) (model_lookup c l) (l_impl l).

Definition check_case (c : case) : bool :=
  premises_ok c && forallb (lookup_ok c) (c_lookups c) &&
  option_eqb str_eqb (model_key c) (c_impl c) &&
  match c_impl_dec c with
  | None => true
  | Some k => option_eqb str_eqb (model_key c) k
  end.
