(** Correspondence runner for C06: exact key text of TapeRecorder._input_interception_key. *)
From Playback Require Export Base.Str Values.PyVal Values.Codec Values.KeyFormat Values.JsonWf.
Open Scope list_scope.

Record case := Case {
  c_alias : str;
  c_cap : capture;
  c_static : bool;
  c_args : list pyval;                 (* full positional tuple, self included for instance calls *)
  c_kwargs : list (str * pyval);
  c_impl : option str;                 (* _input_interception_key called directly; None = it raised *)
  c_impl_dec : option (option str)     (* key found in a recording made through the real decorator
                                          (Some None = recording discarded, key creation failed) *)
}.

Definition model_key (c : case) : option str :=
  ikey encode (c_alias c) (c_cap c) (c_static c) (c_args c) (c_kwargs c).

(** the leaf premise of the injectivity theorem ([leaves_ok]: float texts in the grammar, bytes < 256) holds
    of every value the harness sends *)
Definition premises_ok (c : case) : bool :=
  forallb leaves_ok (c_args c) && forallb (fun kv => leaves_ok (snd kv)) (c_kwargs c).

Definition check_case (c : case) : bool :=
  premises_ok c &&
  option_eqb str_eqb (model_key c) (c_impl c) &&
  match c_impl_dec c with
  | None => true
  | Some k => option_eqb str_eqb (model_key c) k
  end.
