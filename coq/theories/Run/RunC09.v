(** Correspondence runner for C09: (a) the property's own projection of a recorder history (everything);
    (b) racing threads (Run/RunRace.v): the shared part of the recorder afterwards. *)
From Playback Require Export Run.RunRec Run.RunRace.

Inductive case09 :=
| H (c : RunRec.case)
| T (v : variant) (m0 m1 : meth) (m2 : option meth) (e f : nat) (observed : race_obs)
| S (v : variant) (ms : list meth) (sched : list nat) (observed : race_obs).
Definition case := case09.

Definition check_case (c : case) : bool :=
  match c with
  | H hc => check_with (fun m i => eq_all m i) hc
  | T v m0 m1 m2 e f o => eq_race_idle (model_race v m0 m1 m2 e f) o
  | S v ms sched o => eq_race_idle (model_sched v ms sched) o
  end.
