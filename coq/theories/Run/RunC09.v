(** Correspondence runner for C09: the property's own projection of a recorder history. *)
From Playback Require Export Run.RunRec.
Definition check_case : case -> bool := check_with (fun m i => eq_all m i).
