(** Correspondence runner for C16: the implementation's listing for a window (and an optional
    metadata filter), as indices into the shared list of recording instants, must equal the model's. *)
From Playback Require Export Base.Str Cassette.Window.
Open Scope Z_scope.

Record case := Case {
  c_times : list Z;            (* instant of each saved recording (created = saved = last-modified) *)
  c_tags : list Z;             (* metadata value 'g' of each saved recording (same length) *)
  c_start : Z;
  c_end : option Z;
  c_now : Z;
  c_filter : option Z;         (* lookup metadata filter {'g': v}, or none *)
  c_impl : list nat            (* indices of the recordings the implementation listed, ascending *)
}.

Definition satisfies (f : option Z) (g : Z) : bool :=
  match f with Some v => Z.eqb g v | None => true end.
Definition filtered (f : option Z) : bool := match f with Some _ => true | None => false end.

Fixpoint listed_idx (n : nat) (s : Z) (eo : option Z) (now : Z) (f : option Z) (ts gs : list Z) : list nat :=
  match ts, gs with
  | t :: ts', g :: gs' =>
      if listed_matching s eo now (filtered f) t (satisfies f g)
      then n :: listed_idx (S n) s eo now f ts' gs'
      else listed_idx (S n) s eo now f ts' gs'
  | _, _ => []
  end.

Definition model_obs (c : case) : list nat :=
  listed_idx 0 (c_start c) (c_end c) (c_now c) (c_filter c) (c_times c) (c_tags c).

Definition check_case (c : case) : bool :=
  Nat.eqb (length (c_times c)) (length (c_tags c)) && list_eqb Nat.eqb (model_obs c) (c_impl c).
