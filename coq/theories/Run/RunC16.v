(** Correspondence runner for C16: the implementation's listing for a window (and an optional
    metadata filter), as indices into the shared list of recording instants, must equal the model's. *)
From Playback Require Export Base.Str Cassette.Window.
Open Scope Z_scope.

Record case := Case {
  c_times : list Z;            (* instant of each saved recording (created = saved = last-modified) *)
  c_tags : list Z;             (* metadata value 'g' of each saved recording (same length) *)
  c_start : Z;
  c_end : option Z;
  c_now : Z;
  c_filter : option Z;         (* lookup metadata filter {'g': v}, or none *)
  c_impl : list N              (* indices of the recordings the implementation listed, ascending (binary numbers:
                                  a case of the wide-window stream lists 100+ indices up to 200+) *)
}.

Definition satisfies (f : option Z) (g : Z) : bool :=
  match f with Some v => Z.eqb g v | None => true end.
Definition filtered (f : option Z) : bool := match f with Some _ => true | None => false end.

(** The day folders of a window do not depend on the recording: they are enumerated once per case (a window of several
    months has 100+ folders) and [listed_matching] is evaluated against that list. *)
Definition listed_matching_in (ds : list Z) (s : Z) (eo : option Z) (filtered : bool) (t : Z) (m : bool) : bool :=
  existsb (Z.eqb (day t)) ds && relevant (predicates s eo filtered) (t, m).

Lemma listed_matching_in_eq : forall s eo now filtered t m,
  listed_matching_in (days_enumerated s (resolve_end eo now)) s eo filtered t m = listed_matching s eo now filtered t m.
Proof. reflexivity. Qed.

Fixpoint listed_idx (n : N) (ds : list Z) (s : Z) (eo : option Z) (f : option Z) (ts gs : list Z) : list N :=
  match ts, gs with
  | t :: ts', g :: gs' =>
      if listed_matching_in ds s eo (filtered f) t (satisfies f g)
      then n :: listed_idx (N.succ n) ds s eo f ts' gs'
      else listed_idx (N.succ n) ds s eo f ts' gs'
  | _, _ => []
  end.

(** the same list, every element decided by the model's [listed_matching] itself *)
Fixpoint listed_idx_spec (n : N) (s : Z) (eo : option Z) (now : Z) (f : option Z) (ts gs : list Z) : list N :=
  match ts, gs with
  | t :: ts', g :: gs' =>
      if listed_matching s eo now (filtered f) t (satisfies f g)
      then n :: listed_idx_spec (N.succ n) s eo now f ts' gs'
      else listed_idx_spec (N.succ n) s eo now f ts' gs'
  | _, _ => []
  end.

Lemma listed_idx_eq : forall ts gs n s eo now f,
  listed_idx n (days_enumerated s (resolve_end eo now)) s eo f ts gs = listed_idx_spec n s eo now f ts gs.
Proof.
  induction ts as [|t ts IH]; intros gs n s eo now f; destruct gs as [|g gs]; simpl; try reflexivity.
  rewrite listed_matching_in_eq, !IH. reflexivity.
Qed.

Definition model_obs (c : case) : list N :=
  let ds := days_enumerated (c_start c) (resolve_end (c_end c) (c_now c)) in
  listed_idx 0%N ds (c_start c) (c_end c) (c_filter c) (c_times c) (c_tags c).

Definition check_case (c : case) : bool :=
  Nat.eqb (length (c_times c)) (length (c_tags c)) && list_eqb N.eqb (model_obs c) (c_impl c).
