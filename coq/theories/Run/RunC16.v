(** Correspondence runner for C16: the implementation's listing for a window, as indices into
    the shared list of recording instants, must equal the model's. *)
From Playback Require Export Base.Str Cassette.Window.
Open Scope Z_scope.

Record case := Case {
  c_times : list Z;            (* instant of each saved recording (created = saved = last-modified) *)
  c_start : Z;
  c_end : option Z;
  c_now : Z;
  c_impl : list nat            (* indices of the recordings the implementation listed, ascending *)
}.

Fixpoint listed_idx (n : nat) (s : Z) (eo : option Z) (now : Z) (ts : list Z) : list nat :=
  match ts with
  | [] => []
  | t :: ts' => if listed_opt s eo now t then n :: listed_idx (S n) s eo now ts'
                else listed_idx (S n) s eo now ts'
  end.

Definition model_obs (c : case) : list nat :=
  listed_idx 0 (c_start c) (c_end c) (c_now c) (c_times c).

Definition check_case (c : case) : bool := list_eqb Nat.eqb (model_obs c) (c_impl c).
