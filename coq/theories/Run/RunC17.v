(** Correspondence runner for C17: recorder histories (cassette call kinds + everything the decision reads)
    and direct evaluations of the S3 cassette's storage-level rule. *)
From Playback Require Export Run.RunRec.
From Playback Require Import Properties.C17.

Inductive case17 :=
| H (c : RunRec.case)
| S3 (ratio : option Q) (draw : Q) (impl_kept : bool)
| S3H (saves : list (option Q * Q * bool)).   (* per save of a history of S3 cassettes: ratio, tapped draw, stored *)
Definition case := case17.

Definition check_case (c : case) : bool :=
  match c with
  | H hc => check_with (fun m i => eq_cass_kinds m i && eq_state m i) hc
  | S3 r d k => Bool.eqb (s3_should_sample r d) k
  | S3H l => forallb (fun x => Bool.eqb (s3_should_sample (fst (fst x)) (snd (fst x))) (snd x)) l
  end.
