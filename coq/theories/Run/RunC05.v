(** Correspondence runner for C05: (a) the property's own projection of a recorder history (outcome and the
    cassette's create / save / abort sequence); (b) racing threads (Run/RunRace.v): hand-overs of the recording. *)
From Playback Require Export Run.RunRec Run.RunRace.

Inductive case05 :=
| H (c : RunRec.case)
| T (v : variant) (m0 m1 : meth) (m2 : option meth) (e f : nat) (observed : race_obs)
| S (v : variant) (ms : list meth) (sched : list nat) (observed : race_obs).
Definition case := case05.

Definition check_case (c : case) : bool :=
  match c with
  | H hc => check_with (fun m i => eq_outcome m i && eq_cass_nometa m i) hc
  | T v m0 m1 m2 e f o => eq_race_final (model_race v m0 m1 m2 e f) o
  | S v ms sched o => eq_race_final (model_sched v ms sched) o
  end.
