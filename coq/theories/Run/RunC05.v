(** Correspondence runner for C05: the property's own projection of a recorder history. *)
From Playback Require Export Run.RunRec.
Definition check_case : case -> bool := check_with (fun m i => eq_outcome m i && eq_cass_nometa m i).
