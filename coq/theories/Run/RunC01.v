(** Correspondence runner for C01: record then replay on the unchanged program through a cassette:
    outcome, trace (answers seen by callers, no bodies), playback and recorded outputs. *)
From Playback Require Export Run.RunRec.
Definition check_case : case -> bool :=
  check_with (fun m i => eq_outcome m i && eq_trace m i && eq_pbouts m i && eq_recouts m i).
