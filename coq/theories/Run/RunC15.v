(** Correspondence runner for C15: a history of calls on several S3 cassettes sharing one bucket;
    after every call the implementation's outcome kind, new mutation-log entries and bucket key
    set are compared with the model's. *)
From Playback Require Export Base.Str Values.PyVal Values.Codec Values.JsonParse
  Cassette.Bucket Cassette.S3Store.
From Coq Require Export QArith.
Open Scope list_scope.

Inductive rop :=
| RCall (cas : nat) (k : call)
| RRawPut (k : str) (body : bytes)     (* a foreign writer puts an object (not through a cassette, not logged) *)
| RRawDel (k : str)                    (* a foreign deletion (used to leave the residue of an interrupted save) *)
| RSkip.

Record obs := Obs {
  ob_unknown : bool;                   (* the implementation raised something the model has no name for *)
  ob_res : option exn;                 (* None = returned normally *)
  ob_id : option str;                  (* id of the created recording *)
  ob_log : list mutation;              (* entries appended to the mutation log by this call *)
  ob_keys : list str                   (* bucket keys after the call, sorted *)
}.

Record case := Case { cs_cfgs : list cfg; cs_ops : list (rop * obs) }.

Definition m_compress (b : bytes) : bytes := b.
Definition m_decompress (b : bytes) : option bytes := Some b.
Definition m_step := step qp_simple qp_dec_simple loads m_compress m_decompress.

Definition b_remove (k : str) (b : bucket) : bucket := filter (fun kv => negb (str_eqb k (fst kv))) b.

Definition model_op (cfgs : list cfg) (o : rop) (st : bstate) : option (bstate * res outcome) :=
  match o with
  | RCall i k => match nth_error cfgs i with Some c => Some (m_step c k st) | None => None end
  | RRawPut k body => Some (BState (b_put k body (objs st)) (mlog st), Ans OUnit)
  | RRawDel k => Some (BState (b_remove k (objs st)) (mlog st), Ans OUnit)
  | RSkip => Some (st, Ans OUnit)
  end.

Definition res_matches (x : res outcome) (o : obs) : bool :=
  negb (ob_unknown o) &&
  match x, ob_res o with
  | Ans (OId i), None => option_eqb str_eqb (Some i) (ob_id o)
  | Ans _, None => true
  | Raises e, Some e' => exn_eqb e e'
  | _, _ => false
  end.

Fixpoint check_ops (cfgs : list cfg) (ops : list (rop * obs)) (st : bstate) : bool :=
  match ops with
  | [] => true
  | (o, ob) :: ops' =>
      match model_op cfgs o st with
      | None => false
      | Some (st', x) =>
          res_matches x ob &&
          list_eqb mutation_eqb (mlog st') (mlog st ++ ob_log ob) &&
          list_eqb str_eqb (b_keys (objs st')) (ob_keys ob) &&
          check_ops cfgs ops' st'
      end
  end.

Definition check_case (c : case) : bool := check_ops (cs_cfgs c) (cs_ops c) (BState [] []).

(** diagnostics: the model's view of the history (outcome kind, log, keys after every call) *)
Fixpoint model_trace (cfgs : list cfg) (ops : list (rop * obs)) (st : bstate)
  : list (option exn * list mutation * list str) :=
  match ops with
  | [] => []
  | (o, _) :: ops' =>
      match model_op cfgs o st with
      | None => []
      | Some (st', x) =>
          (match x with Ans _ => None | Raises e => Some e end,
           skipn (length (mlog st)) (mlog st'), b_keys (objs st')) :: model_trace cfgs ops' st'
      end
  end.
Definition model_obs (c : case) := model_trace (cs_cfgs c) (cs_ops c) (BState [] []).
