"""Object graphs with identity, shared by the C11 generator (harness side), the implementation
driver (`build`, `shape_text`, `snap`, `shared_mutable`, `mutate`) and the Gallina emitter.

A graph is {"heap": [node, ...], "root": ref}.
  node: {"k": "list"|"tuple"|"set", "v": [ref, ...]}
        {"k": "dict", "v": [[key, ref], ...]}
        {"k": "obj", "cls": "lib.pyvals.Pt", "v": [[attr, ref], ...]}
  ref:  {"l": index}  or an atom in lib.pyvals' tagged form ({"t": "int", "v": 3}, ...).
Locations are list indices, so two refs with the same index are THE SAME Python object.
"""
import json

from lib import pyvals as pv
from lib.gallina import gZ, gN, gstr, glist, gbool, gpair, gnat

MUTABLE_KINDS = ("list", "set", "dict", "obj")


def is_loc(r):
    return "l" in r


# ---------------------------------------------------------------------------------------------
# graph -> Python objects

def build(graph):
    """Returns (objects by location, root value).  Mutable shells first, then tuples (bottom
    up), then the shells are filled, so sharing and cycles through mutable nodes come out right."""
    heap = graph["heap"]
    objs = [None] * len(heap)
    for i, nd in enumerate(heap):
        k = nd["k"]
        if k == "list":
            objs[i] = []
        elif k == "dict":
            objs[i] = {}
        elif k == "set":
            objs[i] = set()
        elif k == "obj":
            objs[i] = pv.CLASSES[nd["cls"]]()
    building = set()

    def val(r):
        if not is_loc(r):
            return pv.to_py(r)
        i = r["l"]
        if objs[i] is None and heap[i]["k"] == "tuple":
            if i in building:
                raise ValueError("tuple-only cycle at %d" % i)
            building.add(i)
            objs[i] = tuple(val(c) for c in heap[i]["v"])
            building.discard(i)
        return objs[i]

    for i, nd in enumerate(heap):
        if nd["k"] == "tuple":
            val({"l": i})
    for i, nd in enumerate(heap):
        k = nd["k"]
        if k == "list":
            objs[i].extend(val(c) for c in nd["v"])
        elif k == "set":
            for c in nd["v"]:
                objs[i].add(val(c))
        elif k == "dict":
            for key, c in nd["v"]:
                objs[i][key] = val(c)
        elif k == "obj":
            for key, c in nd["v"]:
                setattr(objs[i], key, val(c))
    return objs, val(graph["root"])


# ---------------------------------------------------------------------------------------------
# Python objects -> canonical texts

def is_atom(v):
    return v is None or isinstance(v, (bool, int, float, str, bytes, type, pv.Unser))


def _flat_atom(v):
    if isinstance(v, pv.Unser):
        return {"unser": v.tag}
    import jsonpickle.pickler
    return jsonpickle.pickler.Pickler(unpicklable=True).flatten(v)


def class_path(v):
    return "%s.%s" % (type(v).__module__, type(v).__name__)


def shape_text(root):
    """Full-identity shape of a Python value, the same text Heap.shape_h prints for the model's
    graph: every mutable container numbered at its first visit, `{"ref": n}` afterwards."""
    seen = {}
    keep = []

    def go(v):
        if is_atom(v):
            return _flat_atom(v)
        if isinstance(v, tuple):
            return {"tuple": [go(c) for c in v]}
        if id(v) in seen:
            return {"ref": seen[id(v)]}
        n = len(seen)
        seen[id(v)] = n
        keep.append(v)
        if isinstance(v, list):
            return {"n": n, "list": [go(c) for c in v]}
        if isinstance(v, (set, frozenset)):
            return {"n": n, "set": [go(c) for c in v]}
        if isinstance(v, dict):
            return {"n": n, "dict": {k: go(c) for k, c in v.items()}}
        if isinstance(v, pv.Pt):
            return {"n": n, "obj": class_path(v), "attrs": {k: go(c) for k, c in v.__dict__.items()}}
        return {"n": n, "other": repr(type(v))}
    return json.dumps(go(root))


def snap(root):
    """Canonical, identity-free, order-insensitive (dict/set/attribute order) text of a value."""
    def go(v, stack):
        if v is None or isinstance(v, (bool, int, str)):
            return ["a", type(v).__name__, v]
        if isinstance(v, float):
            return ["f", repr(v)]
        if isinstance(v, bytes):
            return ["b", list(v)]
        if isinstance(v, type):
            return ["C", "%s.%s" % (v.__module__, v.__name__)]
        if isinstance(v, pv.Unser):
            return ["U", v.tag]
        if id(v) in stack:
            return ["CYC", len(stack) - stack.index(id(v))]
        st = stack + [id(v)]
        if isinstance(v, list):
            return ["L", [go(c, st) for c in v]]
        if isinstance(v, tuple):
            return ["T", [go(c, st) for c in v]]
        if isinstance(v, (set, frozenset)):
            return ["S", sorted(json.dumps(go(c, st), sort_keys=True) for c in v)]
        if isinstance(v, dict):
            return ["D", sorted(([k if isinstance(k, str) else repr(k), go(c, st)] for k, c in v.items()),
                                key=lambda kv: kv[0])]
        if isinstance(v, BaseException):
            return ["E", class_path(v), sorted([k, go(c, st)] for k, c in v.__dict__.items())]
        if hasattr(v, "__dict__") and not callable(v):
            return ["O", class_path(v), sorted([k, go(c, st)] for k, c in v.__dict__.items())]
        return ["?", repr(type(v))]
    return json.dumps(go(root, []), sort_keys=True)


# ---------------------------------------------------------------------------------------------
# identity walk

def _is_mutable(v):
    if isinstance(v, (list, dict, set, bytearray)):
        return True
    if isinstance(v, BaseException):
        return True
    if isinstance(v, type) or callable(v) or type(v).__module__ == "builtins":
        return False
    return isinstance(getattr(v, "__dict__", None), dict)


def _children(v):
    if isinstance(v, (list, tuple, set, frozenset)):
        return [("[%d]" % i, c) for i, c in enumerate(v)]
    if isinstance(v, dict):
        out = []
        for k, c in v.items():
            out.append(("[%r]" % (k,), c))
            if isinstance(k, tuple):
                out.append(("<key %r>" % (k,), k))
        return out
    if isinstance(v, (str, bytes, int, float, bool, type)) or v is None or callable(v):
        return []
    if isinstance(v, BaseException):
        return [(".args", v.args)] + [("." + k, c) for k, c in getattr(v, "__dict__", {}).items()]
    d = getattr(v, "__dict__", None)
    if isinstance(d, dict) and type(v).__module__ != "builtins":
        return [("." + k, c) for k, c in d.items()]
    return []


def mutable_nodes(root, limit=20000):
    """[(path, object)] for every mutable node reachable from root, pre-order, each object once."""
    out, seen, stack = [], set(), [("", root)]
    while stack and len(seen) < limit:
        path, v = stack.pop()
        if id(v) in seen:
            continue
        ch = _children(v)
        if not ch and not _is_mutable(v):
            continue
        seen.add(id(v))
        if _is_mutable(v):
            out.append((path, v))
        for name, c in reversed(ch):
            stack.append((path + name, c))
    return out


def shared_mutable(a, b):
    """Mutable nodes reachable from both a and b: (count, path in a of the first, path in b)."""
    na = mutable_nodes(a)
    nb = {id(o): p for p, o in mutable_nodes(b)}
    hits = [(p, nb[id(o)]) for p, o in na if id(o) in nb]
    if not hits:
        return {"n": 0}
    return {"n": len(hits), "in_a": hits[0][0] or "<root>", "in_b": hits[0][1] or "<root>"}


# ---------------------------------------------------------------------------------------------
# in-place mutation through every reachable mutable node

def _mutate_one(o, op, tag):
    marker = "MUT%d" % tag
    try:
        if isinstance(o, list):
            k = op % 7
            if k == 0:
                o.append(marker)
            elif k == 1:
                o.insert(0, [marker])
            elif k == 2 and o:
                o.pop()
            elif k == 3 and o:
                o[0] = marker
            elif k == 4:
                o.reverse()
                o.append(marker)
            elif k == 5:
                del o[:]
            else:
                o.extend([marker, {"m": tag}])
        elif isinstance(o, dict):
            k = op % 4
            keys = list(o.keys())
            if k == 0 or not keys:
                o[marker] = [marker]
            elif k == 1:
                o[keys[0]] = marker
            elif k == 2:
                del o[keys[0]]
                o[marker] = tag
            else:
                o.clear()
                o[marker] = tag
        elif isinstance(o, set):
            k = op % 3
            if k == 0 or not o:
                o.add(marker)
            elif k == 1:
                o.pop()
                o.add(marker)
            else:
                o.clear()
                o.add(tag)
        else:
            d = o.__dict__
            k = op % 3
            keys = list(d.keys())
            if k == 0 or not keys:
                setattr(o, "mut_%d" % tag, [marker])
            elif k == 1:
                setattr(o, keys[0], marker)
            else:
                delattr(o, keys[0])
                setattr(o, "mut_%d" % tag, marker)
    except Exception:   # e.g. a read-only attribute: try the plain marker instead
        try:
            setattr(o, "mut_%d" % tag, marker)
        except Exception:
            pass


def mutate(root, script, everything=True):
    """Apply the scripted mutations ([node selector, operation] pairs) and then, if `everything`,
    one more mutation to EVERY mutable node that was reachable from root.  Returns the number of
    mutable nodes."""
    nodes = [o for _, o in mutable_nodes(root)]
    if not nodes:
        return 0
    for t, (sel, op) in enumerate(script):
        _mutate_one(nodes[sel % len(nodes)], op, t)
    if everything:
        for t, o in enumerate(nodes):
            _mutate_one(o, 6 if (isinstance(o, list) and t % 2 == 0) else 0, 100 + t)
    return len(nodes)


# ---------------------------------------------------------------------------------------------
# Gallina

def gatom(a):
    t = a["t"]
    if t == "none":
        return "ANone"
    if t == "bool":
        return "(ABool %s)" % gbool(a["v"])
    if t == "int":
        return "(AInt %s)" % gZ(a["v"])
    if t == "float":
        return "(AFloat %s)" % gstr(pv.float_repr(a))
    if t == "str":
        return "(AStr %s)" % gstr(a["v"])
    if t == "bytes":
        return "(ABytes %s)" % glist([gN(x) for x in a["v"]])
    if t == "clsref":
        return "(AClass %s)" % gstr(a["v"])
    if t == "unser":
        return "(AUnser %s)" % gN(a["v"])
    raise ValueError(t)


def gref(r):
    if is_loc(r):
        return "(RLoc %s)" % gnat(r["l"])
    return "(RAtom %s)" % gatom(r)


def gnode(nd):
    k = nd["k"]
    if k in ("list", "tuple", "set"):
        return "(%s %s)" % ({"list": "NList", "tuple": "NTuple", "set": "NSet"}[k], glist([gref(c) for c in nd["v"]]))
    if k == "dict":
        return "(NDict %s)" % glist([gpair(gstr(key), gref(c)) for key, c in nd["v"]])
    if k == "obj":
        return "(NObj %s %s)" % (gstr(nd["cls"]), glist([gpair(gstr(key), gref(c)) for key, c in nd["v"]]))
    raise ValueError(k)


def gheap(heap):
    return glist([gnode(nd) for nd in heap])


def gjson(j):
    """A value returned by json.loads -> term of type Codec.json."""
    if j is None:
        return "JNull"
    if isinstance(j, bool):
        return "(JBool %s)" % gbool(j)
    if isinstance(j, int):
        return "(JInt %s)" % gZ(j)
    if isinstance(j, float):
        return "(JFloat %s)" % gstr(repr(j))
    if isinstance(j, str):
        return "(JStr %s)" % gstr(j)
    if isinstance(j, list):
        return "(JArr %s)" % glist([gjson(x) for x in j])
    if isinstance(j, dict):
        return "(JObj %s)" % glist([gpair(gstr(k), gjson(v)) for k, v in j.items()])
    raise ValueError(type(j))
