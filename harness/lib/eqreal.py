"""Real-process scripts for C08 / C13 (thorough tier): case list, anomaly detection (shared with the driver, which
re-runs a script whose first run shows an anomaly - only what reproduces three times counts), direct predicates.
No playback import here."""
from lib import eqgen as G

SLOW_STEP = 0.4      # seconds of real sleep per unit of 'slow:<d>'


def _mk(ids, beh, **kw):
    c = G.mk(ids, [beh.get(i, "equal") for i in ids], **kw)
    c["kind"] = "real"
    return c


def real_cases(pid, tier="thorough"):
    ids6 = [1, 2, 3, 4, 5, 6]
    # C08, both tiers (about 4 s): (1) the replayed operations are process citizens of their own - some compute in a helper
    # multiprocessing.Process, one in a helper thread; the verdicts are the same in-process and in the dedicated worker.
    # (2) a long history under the finite descriptor limit every process has: 48 ordinary recordings at recycle rate 1
    # (48 worker generations) with 40 descriptors of headroom - a run whose descriptor use does not grow with the number of
    # worker generations gives all of them their verdict
    citizens = [
        _mk(ids6, {2: "spawns", 3: "spawns", 4: "spawns:thread", 5: "different", 6: "spawns"}, rate=2, timeout=5, keep=True,
            probe="operation-uses-processes"),
        _mk(list(range(1, 49)), {7: "different", 30: "different"}, rate=1, timeout=5, fd_headroom=40, watchdog=40.0,
            probe="long-history-descriptor-limit"),
    ]
    if tier == "quick" and pid == "C08":
        return citizens
    # C13, both tiers (about 2 s each, in an interpreter and session of their own): the run is abandoned by Ctrl-C - SIGINT
    # to the whole process group, as a terminal / a cancelled CI job sends it - WHILE a replay hangs in the worker (the
    # worker is not idle: it does not look at the terminate event); the consumer catches KeyboardInterrupt and gives up
    # the run.  No worker may remain.  Hang at the first recording of a worker's life and after one it has served.
    interrupts = [
        _mk([1, 2, 3], {2: "hang"}, rate=2, timeout=30, consume=("interrupt", 1), probe="interrupted-during-hang"),
        _mk([1, 2, 3], {1: "hang"}, rate=1, timeout=30, consume=("interrupt", 0), probe="interrupted-during-hang"),
    ] if pid == "C13" else []
    if tier == "quick":
        # anchors (about 3 s) for what the simulator assumes about real multiprocessing in its two newest behaviours:
        # an item that does not unpickle makes the parent's Queue.get raise and leaves the worker in place; a worker
        # SIGKILLed while it sleeps between two replays costs one "died" verdict and nothing else
        return [_mk(ids6, {1: "unloadable", 2: "unloadable", 4: "unloadable"}, rate=2, timeout=2),
                _mk(ids6, {}, rate=2, timeout=2, kill_idle_after=[2, 5, 6])] + interrupts if pid == "C13" else []
    common = [
        _mk(ids6, {3: "hang", 4: "exit1"}, rate=2, timeout=1),
        _mk([1, 2, 3, 4, 5], {2: "drops"}, rate=5, timeout=1),          # unpicklable result: never arrives
        # results that pickle in the worker and do not unpickle in the parent (Queue.get raises): failures of their
        # own recordings, the worker stays and ages
        _mk(ids6, {1: "unloadable", 2: "unloadable", 4: "unloadable"}, rate=2, timeout=2),
    ]
    if pid == "C08":
        return common + citizens + [
            _mk(ids6, {2: "exit0", 3: "exit1", 5: "slow:1"}, rate=3, timeout=2, keep=True),
            _mk([1, 2, 3, 4, 5], {1: "different", 2: "player_raises", 3: "extractor_raises", 4: "comparator_raises"},
                rate=2, timeout=2, keep=True),
            _mk([1, 2, 3, 4], {2: "bare:Fixed", 3: "extractor_raises"}, rate=1, timeout=2, keep=False),
            # the keys of the comparison data vary between the recordings (worker lifetimes of 3: forked copies)
            _mk(ids6, {3: "different", 6: "different"}, rate=3, timeout=2, keep=True,
                data={"1": "oa", "2": "", "4": "ob", "5": "ab", "6": ""}),
            # verdict shapes across a real pipe (pickled): full result with a diff, a structured message the framework
            # cannot render (not last), a subclass instance with a diff, a bare value that is no status
            _mk(ids6, {2: "cr:Different:text:1:plain", 3: "cr:Failed:struct:1:plain", 4: "cr:Fixed:none:1:sub",
                       5: "foreign:none"}, rate=2, timeout=2, keep=True),
        ]
    return common + interrupts + [
        _mk([1, 2, 3, 4, 5], {1: "hang_deaf", 5: "exit0"}, rate=1, timeout=1),      # faults first and last
        _mk(ids6, {}, rate=2, timeout=2, consume=("close", 3)),
        _mk(ids6, {2: "hang"}, rate=2, timeout=1, consume=("raise", 4)),
        _mk([1, 2, 3, 4, 5], {5: "hang_deaf"}, rate=2, timeout=1, consume=("close", 5)),
        _mk([1, 2, 3, 4, 5, 6, 7], {3: "exit1", 4: "exit0"}, rate=3, timeout=1, consume=("iter_raises", 6)),
        # somebody else's SIGKILL hits the idle worker between two replays: before a recycle (after #2), in the middle
        # of a recycle period (after #5), after the last replay (#6: only the clean-up follows)
        _mk(ids6, {}, rate=2, timeout=2, kill_idle_after=[2, 5, 6]),
        _mk([1, 2, 3, 4], {3: "hang"}, rate=3, timeout=1, kill_idle_after=[1, 4], consume=("close", 4)),
    ]


def anomalies(case, run):
    """signatures (with messages) of everything in one real run that contradicts C08 / C13"""
    out = []
    ids, T, rate = case["ids"], case["timeout"], case["rate"]
    n = G.expected_count(case)
    cmps = run["cmps"]
    known = G.f08_sig(case)      # locality failures of a script inside a known-finding region carry its signature
    # a recording dispatched to a worker that was killed while idle is reported as "died" and never played
    # (unless the worker was due for recycling anyway: then a fresh one plays it)
    after_kill = set(k for k in case.get("kill_idle_after", []) if k < len(ids))
    lost = set(ids[k] for k in after_kill if k < len(cmps) and cmps[k][2] in ("died", "timeout"))
    if run["outcome"] in ("stuck", "abort-exit"):
        out.append(("C13", "run-blocks-forever", "run did not finish: %s after %d comparisons" % (run["outcome"], len(cmps))))
    if run["outcome"].startswith("escaped"):
        out.append(("C08", "run-aborted", "an exception left run_comparison (%s) after %d of %d comparisons: the other "
                    "recordings got none" % (run["outcome"], len(cmps), n)))
    if [c[0] for c in cmps] != ids[:n]:
        out.append(("C08", "count-or-order", "comparisons labelled %s for ids %s" % ([c[0] for c in cmps], ids[:n])))
    for k, c in enumerate(cmps[:n]):
        b = G.beh_of(case, ids[k])
        if c[3] is not None and c[3] != c[0]:
            out.append(("C08", "foreign-replay-attached", "comparison labelled r%s carries the replay of r%s" % (c[0], c[3])))
        exp = G.expected_status(b, True, T if not b.startswith("slow") else 10**6)
        if not G.status_ok(exp, c[1]) and ids[k] not in lost:
            out.append(("C08", known or "wrong-status", "r%s (%s): status %s, expected %s [%s]" % (ids[k], b, c[1], exp, c[2])))
        if c[0] == ids[k]:
            out += [("C08", known or sg, m) for sg, m in G.payload_fails(b, c)]
        if k < len(run["walls"]) and run["walls"][k] > T + 3:
            out.append(("C13", "wait-too-long", "comparison of r%s (%s) took %.1f s, timeout %d s" % (ids[k], b, run["walls"][k], T)))
    if run.get("inproc") is not None and run["inproc"] != cmps:
        out.append(("C08", "modes-disagree", "dedicated %s vs in-process %s" % (cmps, run["inproc"])))
    for pid_ord, served in enumerate(run["served"]):
        if len(served) > max(1, rate):
            out.append(("C13", "worker-over-age", "worker process #%d played %d recordings %s, recycle rate %d"
                        % (pid_ord, len(served), served, rate)))
    flat = [i for served in run["served"] for i in served]
    if run["outcome"] == "interrupted" and len(cmps) < len(ids) and flat[-1:] == [ids[len(cmps)]]:
        flat = flat[:-1]        # the replay during which the run was interrupted: begun, never compared
    if run.get("note"):
        out.append(("C13", "run-blocks-forever", "the script's own interpreter gave no result: %s" % run["note"]))
    if sorted(flat) != sorted(i for i in ids[:len(cmps)] if i not in lost) and run["outcome"] not in ("stuck",):
        out.append(("C13", known or "task-not-served-once", "recordings played by the workers %s, compared %s" % (run["served"], ids[:len(cmps)])))
    else:
        where = {}
        for w, served in enumerate(run["served"]):
            for j, i in enumerate(served):
                where.setdefault(i, (w, j))
        for k in range(len(cmps) - 1):
            if G.fatal_dedicated(G.beh_of(case, ids[k]), T) and ids[k + 1] in where and ids[k] in where:
                if where[ids[k + 1]][1] != 0 or where[ids[k + 1]][0] == where[ids[k]][0]:
                    out.append(("C13", "no-fresh-worker-after-fault", "r%s was followed by r%s on worker %s" %
                                (ids[k], ids[k + 1], where[ids[k + 1]])))
    if run["children_after"] > 0:
        out.append(("C13", "worker-left-behind", "%d child process(es) still alive %.1f s after the run ended (%s)"
                    % (run["children_after"], run["waited"], run["outcome"])))
    return out


def _direct(pid, case, obs):
    fails = []
    for p, sig, msg in obs.get("confirmed", []):
        if p == pid:
            fails.append((sig, "[real processes, reproduced %d times] %s" % (obs.get("runs", 1), msg)))
    return fails


def direct_c08(case, obs):
    return _direct("C08", case, obs)


def direct_c13(case, obs):
    return _direct("C13", case, obs)
