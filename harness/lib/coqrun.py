"""Build the Coq development and evaluate generated case files with vm_compute."""
import fcntl
import os
import re
import subprocess
import time
from concurrent.futures import ThreadPoolExecutor

VERIF = os.path.dirname(os.path.dirname(os.path.dirname(os.path.abspath(__file__))))
COQ = os.path.join(VERIF, "coq")
WORK = os.path.join(COQ, "work" + os.environ.get("VERIF_WORK_SUFFIX", ""))    # (parallel runs against scratch copies use their own)
QFLAGS = ["-Q", os.path.join(COQ, "theories"), "Playback"]
NCPU = int(os.environ.get("VERIF_NCPU") or os.cpu_count() or 4)     # (VERIF_NCPU: be a good neighbour on a shared machine)

FORBIDDEN = re.compile(
    r"\b(Admitted|admit|Axiom|Axioms|Parameter|Parameters|Conjecture|Conjectures|Admit Obligations)\b"
    r"|Unset\s+Guard|bypass_check|type-in-type|impredicative-set|Unset\s+Universe\s+Checking|Unset\s+Positivity")


def _strip_comments(text):
    out, depth, i = [], 0, 0
    while i < len(text):
        if text.startswith("(*", i):
            depth += 1
            i += 2
        elif text.startswith("*)", i) and depth:
            depth -= 1
            i += 2
        else:
            if depth == 0:
                out.append(text[i])
            i += 1
    return "".join(out)


def grep_gate():
    """Reject forbidden vernacular anywhere in the development (comments and string literals excluded)."""
    bad = []
    for root, _, files in os.walk(os.path.join(COQ, "theories")):
        for f in files:
            if f.endswith(".v"):
                p = os.path.join(root, f)
                body = _strip_comments(open(p, encoding="utf-8").read())
                body = re.sub(r'"[^"]*"', '""', body)
                for m in FORBIDDEN.finditer(body):
                    bad.append("%s: %s" % (os.path.relpath(p, VERIF), m.group(0)))
    proj = open(os.path.join(COQ, "_CoqProject")).read()
    for m in FORBIDDEN.finditer(proj):
        bad.append("_CoqProject: %s" % m.group(0))
    return bad


def build(clean=False, timeout=1500):
    """Full .vo build (never -vos).  Serialised by a file lock.  Returns (ok, log)."""
    os.makedirs(WORK, exist_ok=True)
    lock = open(os.path.join(VERIF, ".build.lock"), "w")
    fcntl.flock(lock, fcntl.LOCK_EX)
    try:
        mk = os.path.join(COQ, "Makefile")
        proj = os.path.join(COQ, "_CoqProject")
        log = ""
        if clean and os.path.exists(mk):
            subprocess.run(["make", "-C", COQ, "clean"], capture_output=True, text=True, timeout=300)
        if (not os.path.exists(mk)) or os.path.getmtime(mk) < os.path.getmtime(proj):
            r = subprocess.run(["coq_makefile", "-f", "_CoqProject", "-o", "Makefile"], cwd=COQ,
                               capture_output=True, text=True, timeout=120)
            log += r.stdout + r.stderr
            if r.returncode != 0:
                return False, log
        r = subprocess.run(["timeout", str(timeout), "make", "-C", COQ, "-k", "-j%d" % NCPU],
                           capture_output=True, text=True)
        log += r.stdout[-20000:] + r.stderr[-20000:]
        return r.returncode == 0, log
    finally:
        fcntl.flock(lock, fcntl.LOCK_UN)
        lock.close()


def vo_exists(rel):
    return os.path.exists(os.path.join(COQ, "theories", rel + ".vo"))


def print_assumptions(prop_id, timeout=600):
    """Re-run coqc on Properties/<id>.v alone and parse its Print Assumptions output.
    Returns dict(theorems=[names], results=[(name, closed?, [axioms])], ok=bool, log=str)."""
    src = os.path.join(COQ, "theories", "Properties", prop_id + ".v")
    text = _strip_comments(open(src, encoding="utf-8").read())
    names = re.findall(r"Print\s+Assumptions\s+([A-Za-z0-9_'.]+)\s*\.", text)
    theorems = re.findall(r"\b(?:Theorem|Corollary|Lemma)\s+([A-Za-z0-9_']+)", text)
    out_dir = os.path.join(WORK, "pa_" + prop_id)
    os.makedirs(out_dir, exist_ok=True)
    # compile to a scratch .vo so that the build tree is left alone
    r = subprocess.run(["timeout", str(timeout), "coqc"] + QFLAGS +
                       ["-o", os.path.join(out_dir, prop_id + ".vo"), src],
                       capture_output=True, text=True, cwd=COQ)
    log = r.stdout + r.stderr
    blocks = re.split(r"(?m)^(?=Closed under the global context|Axioms:)", r.stdout)
    blocks = [b for b in blocks if b.startswith("Closed under") or b.startswith("Axioms:")]
    results = []
    for i, name in enumerate(names):
        if i < len(blocks):
            b = blocks[i]
            if b.startswith("Closed under"):
                results.append((name, True, []))
            else:
                axs = re.findall(r"(?m)^([A-Za-z0-9_'.]+)\s*:", b[len("Axioms:"):])
                results.append((name, False, axs))
        else:
            results.append((name, False, ["<no output>"]))
    ok = r.returncode == 0 and len(blocks) == len(names) and set(theorems) <= set(names)
    return dict(theorems=theorems, printed=names, results=results, ok=ok, log=log[-4000:],
                cmd="coqc -Q theories Playback theories/Properties/%s.v" % prop_id)


_ANS = re.compile(r"=\s*(\[[^\]]*\])\s*(?:%nat)?\s*:\s*list nat", re.S)


def _run_one(path, timeout):
    t0 = time.time()
    r = subprocess.run("ulimit -s unlimited 2>/dev/null; exec timeout %d coqc %s %s" %
                       (timeout, " ".join(QFLAGS), path),
                       shell=True, capture_output=True, text=True, cwd=COQ)
    return r.returncode, r.stdout, r.stderr, time.time() - t0


def run_cases(tag, run_module, terms, prelude="", shard=300, timeout=900, extra_eval=None):
    """Evaluate `bad_indices check_case cases` over shards.  Returns (bad_global_indices, errors, secs)."""
    os.makedirs(WORK, exist_ok=True)
    for f in os.listdir(WORK):
        if f.startswith("cases_%s_" % tag):
            os.remove(os.path.join(WORK, f))
    files = []
    for k in range(0, len(terms), shard):
        chunk = terms[k:k + shard]
        path = os.path.join(WORK, "cases_%s_%d.v" % (tag, k // shard))
        with open(path, "w", encoding="utf-8") as f:
            f.write("From Playback Require Import Run.%s.\n" % run_module)
            f.write("Import ListNotations.\nOpen Scope list_scope.\n")
            f.write(prelude + "\n")
            f.write("Definition cases : list case := [\n")
            f.write(";\n".join(chunk))
            f.write("\n].\n")
            f.write("Eval vm_compute in (bad_indices check_case cases).\n")
            if extra_eval:
                f.write(extra_eval + "\n")
        files.append((k, path))
    bad, errors = [], []
    t0 = time.time()
    with ThreadPoolExecutor(max_workers=NCPU) as ex:
        results = list(zip(files, ex.map(lambda kp: _run_one(kp[1], timeout), files)))
    if True:
        for (k, path), (rc, out, err, _) in results:
            m = _ANS.search(out)
            tries = 0
            while (rc is not None and rc < 0 or rc == 137) and tries < 2:
                # the process was killed by a signal (on a loaded machine: the kernel's OOM killer): that says nothing about
                # the cases - run the shard again, alone
                tries += 1
                time.sleep(5 * tries)
                rc, out, err, _ = _run_one(path, timeout)
                m = _ANS.search(out)
            if rc != 0 or not m:
                errors.append("%s: rc=%s %s %s" % (os.path.basename(path), rc, out[-600:], err[-1200:]))
                continue
            body = m.group(1).strip()[1:-1].strip()
            if body:
                for tok in body.split(";"):
                    tok = tok.strip().replace("%nat", "")
                    if tok:
                        bad.append(k + int(tok))
    return bad, errors, time.time() - t0


def eval_term(tag, run_module, term, prelude="", timeout=300):
    """Eval vm_compute of one term, return the raw printed answer (for diagnostics in replay files)."""
    os.makedirs(WORK, exist_ok=True)
    path = os.path.join(WORK, "eval_%s.v" % tag)
    with open(path, "w", encoding="utf-8") as f:
        f.write("From Playback Require Import Run.%s.\nImport ListNotations.\nOpen Scope list_scope.\n" % run_module)
        f.write(prelude + "\n")
        f.write("Eval vm_compute in (%s).\n" % term)
    rc, out, err, _ = _run_one(path, timeout)
    return decode_strs(out.strip()) if rc == 0 else "ERROR: " + err[-800:]


def decode_strs(text):
    """Make printed `str` values (lists of N code points) readable."""
    def rep(m):
        nums = re.findall(r"(\d+)%N", m.group(0))
        try:
            return "<<" + "".join(chr(int(n)) for n in nums) + ">>"
        except (ValueError, OverflowError):
            return m.group(0)
    return re.sub(r"\[\s*\d+%N(?:\s*;\s*\d+%N)*\s*\]", rep, text)
