"""Tagged-JSON encoding of Python values shared by generators (harness side), drivers
(implementation side: `to_py`) and the Gallina emitter.

  {"t":"none"} {"t":"bool","v":true} {"t":"int","v":3} {"t":"float","n":3,"d":2}
  {"t":"str","v":"a"} {"t":"bytes","v":[1,2]} {"t":"list","v":[..]} {"t":"tuple","v":[..]}
  {"t":"set","v":[..]} {"t":"dict","v":[[key,val],..]} {"t":"obj","cls":"P","v":[[attr,val],..]}
  {"t":"cls","v":1}
"""
from fractions import Fraction

from lib.gallina import gZ, gN, gstr, glist, gbool, gQ, gpair


def none():
    return {"t": "none"}


def b(v):
    return {"t": "bool", "v": bool(v)}


def i(v):
    return {"t": "int", "v": int(v)}


def fl(n, d=1):
    return {"t": "float", "n": n, "d": d}


def s(v):
    return {"t": "str", "v": v}


def lst(vs):
    return {"t": "list", "v": list(vs)}


def tup(vs):
    return {"t": "tuple", "v": list(vs)}


def dct(items):
    return {"t": "dict", "v": [[k, v] for k, v in items]}


def cls(n):
    return {"t": "cls", "v": n}


class OpaqueA(object):
    pass


class OpaqueB(object):
    pass


OPAQUE = {1: OpaqueA, 2: OpaqueB, 3: dict}


def to_py(j):
    t = j["t"]
    if t == "none":
        return None
    if t in ("bool", "int", "str"):
        return j["v"]
    if t == "float":
        return j["n"] / j["d"]
    if t == "bytes":
        return bytes(j["v"])
    if t == "list":
        return [to_py(x) for x in j["v"]]
    if t == "tuple":
        return tuple(to_py(x) for x in j["v"])
    if t == "set":
        return set(to_py(x) for x in j["v"])
    if t == "dict":
        return {k: to_py(v) for k, v in j["v"]}
    if t == "cls":
        return OPAQUE[j["v"]]
    raise ValueError(t)


def to_mval(j):
    """Gallina term of type Matcher.mval."""
    t = j["t"]
    if t == "none":
        return "MNone"
    if t == "bool":
        return "(MBool %s)" % gbool(j["v"])
    if t == "int":
        return "(MInt %s)" % gZ(j["v"])
    if t == "float":
        return "(MFloat %s)" % gQ(Fraction(j["n"], j["d"]))
    if t == "str":
        return "(MStr %s)" % gstr(j["v"])
    if t == "list":
        return "(MList %s)" % glist([to_mval(x) for x in j["v"]])
    if t == "dict":
        return "(MDict %s)" % glist([gpair(gstr(k), to_mval(v)) for k, v in j["v"]])
    if t == "cls":
        return "(MOpaque %s)" % gN(j["v"])
    raise ValueError(t)
