"""Tagged-JSON encoding of Python values shared by generators (harness side), drivers
(implementation side: `to_py`) and the Gallina emitter.

  {"t":"none"} {"t":"bool","v":true} {"t":"int","v":3} {"t":"float","n":3,"d":2}
  {"t":"str","v":"a"} {"t":"bytes","v":[1,2]} {"t":"list","v":[..]} {"t":"tuple","v":[..]}
  {"t":"set","v":[..]} {"t":"dict","v":[[key,val],..]} {"t":"obj","cls":"P","v":[[attr,val],..]}
  {"t":"cls","v":1}
"""
from fractions import Fraction

from lib.gallina import gZ, gN, gstr, glist, gbool, gQ, gpair


def none():
    return {"t": "none"}


def b(v):
    return {"t": "bool", "v": bool(v)}


def i(v):
    return {"t": "int", "v": int(v)}


def fl(n, d=1):
    return {"t": "float", "n": n, "d": d}


def s(v):
    return {"t": "str", "v": v}


def lst(vs):
    return {"t": "list", "v": list(vs)}


def tup(vs):
    return {"t": "tuple", "v": list(vs)}


def dct(items):
    return {"t": "dict", "v": [[k, v] for k, v in items]}


def cls(n):
    return {"t": "cls", "v": n}


class OpaqueA(object):
    pass


class OpaqueB(object):
    pass


OPAQUE = {1: OpaqueA, 2: OpaqueB, 3: dict}


def to_py(j):
    t = j["t"]
    if t == "none":
        return None
    if t in ("bool", "int", "str"):
        return j["v"]
    if t == "float":
        return j["n"] / j["d"]
    if t == "bytes":
        return bytes(j["v"])
    if t == "list":
        return [to_py(x) for x in j["v"]]
    if t == "tuple":
        return tuple(to_py(x) for x in j["v"])
    if t == "set":
        return set(to_py(x) for x in j["v"])
    if t == "dict":
        return {k: to_py(v) for k, v in j["v"]}
    if t == "cls":
        return OPAQUE[j["v"]]
    raise ValueError(t)


def to_mval(j):
    """Gallina term of type Matcher.mval."""
    t = j["t"]
    if t == "none":
        return "MNone"
    if t == "bool":
        return "(MBool %s)" % gbool(j["v"])
    if t == "int":
        return "(MInt %s)" % gZ(j["v"])
    if t == "float":
        return "(MFloat %s)" % gQ(Fraction(j["n"], j["d"]))
    if t == "str":
        return "(MStr %s)" % gstr(j["v"])
    if t == "list":
        return "(MList %s)" % glist([to_mval(x) for x in j["v"]])
    if t == "dict":
        return "(MDict %s)" % glist([gpair(gstr(k), to_mval(v)) for k, v in j["v"]])
    if t == "cls":
        return "(MOpaque %s)" % gN(j["v"])
    raise ValueError(t)


# ---------------------------------------------------------------------------------------------
# full value domain (Values.PyVal.pyval)

class Pt(object):
    """Plain object used as a value (class path lib.pyvals.Pt)."""
    def __init__(self, **kw):
        self.__dict__.update(kw)

    def __eq__(self, o):
        return type(o) is type(self) and self.__dict__ == o.__dict__

    def __ne__(self, o):
        return not self == o

    __hash__ = None

    def __repr__(self):
        return "Pt(%r)" % (self.__dict__,)


class Qt(Pt):
    pass


GATE_HOOK = None    # set by a driver while it runs worker threads: called in the middle of every encoding of a Gt


class Gt(Pt):
    """Plain object (encodes exactly like a Pt of class lib.pyvals.Gt) whose state is asked for through a hook: a driver
    uses it to hold several threads in the middle of an encoding of one shared argument (forced interleaving)."""
    def __getstate__(self):
        hook = GATE_HOOK
        if hook is not None:
            hook()
        return object.__getstate__(self)


class Unser(object):
    """An object whose serialization raises."""
    def __init__(self, tag=0):
        self.tag = tag

    def __getstate__(self):
        raise ValueError("cannot serialize Unser(%d)" % self.tag)

    def __eq__(self, o):
        return type(o) is Unser and o.tag == self.tag

    __hash__ = None


class CustomError(Exception):
    """A user-defined exception type (importable, so that it survives the serializer)."""


class UnserError(Exception):
    """A user exception that cannot be serialized."""
    def __reduce__(self):
        raise RuntimeError("cannot serialize UnserError")

    def __getstate__(self):
        raise RuntimeError("cannot serialize UnserError")


class UserAssertion(AssertionError):
    """AssertionError raised by generated service code, told apart from the framework's own assertions."""


class HandlerError(Exception):
    """Raised by the harness's failing data handlers / resolvers / extractors."""


CLASSES = {"lib.pyvals.Pt": Pt, "lib.pyvals.Qt": Qt}
EXTRA_CLASSES = {"lib.pyvals.Gt": Gt}      # resolvable by to_py, never drawn by rand_pyval
_py_to_py_full = to_py


def to_py(j):  # noqa: F811  (extends the matcher-domain version above)
    t = j["t"]
    if t == "obj":
        o = (CLASSES.get(j["cls"]) or EXTRA_CLASSES[j["cls"]])()
        for k, v in j["v"]:
            setattr(o, k, to_py(v))
        return o
    if t == "unser":
        return Unser(j["v"])
    if t == "clsref":
        return CLASSES[j["v"]]
    if t == "float" and "r" in j:
        return float(j["r"])
    if t == "list":
        return [to_py(x) for x in j["v"]]
    if t == "tuple":
        return tuple(to_py(x) for x in j["v"])
    if t == "set":
        return set(to_py(x) for x in j["v"])
    if t == "dict":
        return {k: to_py(v) for k, v in j["v"]}
    return _py_to_py_full(j)


def from_py(v):
    """Python value -> tagged JSON (sets in their actual iteration order)."""
    if v is None:
        return none()
    if isinstance(v, bool):
        return b(v)
    if isinstance(v, int):
        return i(v)
    if isinstance(v, float):
        return {"t": "float", "r": repr(v)}
    if isinstance(v, str):
        return s(v)
    if isinstance(v, bytes):
        return {"t": "bytes", "v": list(v)}
    if isinstance(v, list):
        return lst([from_py(x) for x in v])
    if isinstance(v, tuple):
        return tup([from_py(x) for x in v])
    if isinstance(v, (set, frozenset)):
        return {"t": "set", "v": [from_py(x) for x in v]}
    if isinstance(v, dict):
        if not all(isinstance(k, str) for k in v):
            return {"t": "other", "v": repr(v)[:80]}
        return dct([(k, from_py(x)) for k, x in v.items()])
    if isinstance(v, Unser):
        return {"t": "unser", "v": v.tag}
    if isinstance(v, Pt):
        return {"t": "obj", "cls": "lib.pyvals." + type(v).__name__, "v": [[k, from_py(x)] for k, x in v.__dict__.items()]}
    if isinstance(v, type):
        for k, c in CLASSES.items():
            if c is v:
                return {"t": "clsref", "v": k}
        return {"t": "other", "v": repr(v)[:80]}
    return {"t": "other", "v": repr(v)[:80]}


import re as _re

# The float texts of the model's domain (coq/theories/Values/JsonWf.v float_repr_ok): float.__repr__ of a finite
# float on this interpreter (sys.float_repr_style == 'short'), or json.dumps's NaN / Infinity / -Infinity.
_FLOAT_TEXT = _re.compile(r"-?[0-9]+(\.[0-9]+)?(e[+-][0-9]+)?\Z")


def float_text_ok(t):
    if t in ("NaN", "Infinity", "-Infinity"):
        return True
    return bool(_FLOAT_TEXT.match(t)) and ("." in t or "e" in t)


def float_repr(j):
    """repr() text of a float value; a text outside Values.JsonWf.float_repr_ok is an error (the dumps
    injectivity / loads round-trip theorems are stated on that grammar), never silently accepted."""
    t = j["r"] if "r" in j else repr(j["n"] / j["d"])
    if not float_text_ok(t):
        raise ValueError("float text %r is outside the model's float grammar (Values.JsonWf.float_repr_ok)" % (t,))
    if "r" in j and repr(float(t)) != t:
        raise ValueError("float text %r is not the repr() of a float on this interpreter (it prints %r)" % (t, repr(float(t))))
    return t


def to_pyval(j):
    """Gallina term of type Values.PyVal.pyval."""
    t = j["t"]
    if t == "none":
        return "VNone"
    if t == "bool":
        return "(VBool %s)" % gbool(j["v"])
    if t == "int":
        return "(VInt %s)" % gZ(j["v"])
    if t == "float":
        return "(VFloat %s)" % gstr(float_repr(j))
    if t == "str":
        return "(VStr %s)" % gstr(j["v"])
    if t == "bytes":
        return "(VBytes %s)" % glist([gN(x) for x in j["v"]])
    if t == "list":
        return "(VList %s)" % glist([to_pyval(x) for x in j["v"]])
    if t == "tuple":
        return "(VTuple %s)" % glist([to_pyval(x) for x in j["v"]])
    if t == "set":
        return "(VSet %s)" % glist([to_pyval(x) for x in j["v"]])
    if t == "dict":
        return "(VDict %s)" % glist([gpair(gstr(k), to_pyval(v)) for k, v in j["v"]])
    if t == "obj":
        return "(VObj %s %s)" % (gstr(j["cls"]), glist([gpair(gstr(k), to_pyval(v)) for k, v in j["v"]]))
    if t == "clsref":
        return "(VClass %s)" % gstr(j["v"])
    if t == "unser":
        return "(VUnser %s)" % gN(j["v"])
    if t == "other":
        return "(VUnser 99%N)"       # something outside the value domain showed up on the implementation side
    raise ValueError(t)


def canon_json(j):
    """Canonical (type-aware, dict-order-insensitive, set-order-insensitive) form for harness-side comparisons."""
    import json as _json
    t = j["t"]
    if t in ("list", "tuple"):
        return {"t": t, "v": [canon_json(x) for x in j["v"]]}
    if t == "set":
        return {"t": t, "v": sorted((canon_json(x) for x in j["v"]), key=lambda x: _json.dumps(x, sort_keys=True))}
    if t == "dict":
        return {"t": t, "v": sorted(([k, canon_json(v)] for k, v in j["v"]), key=lambda kv: kv[0])}
    if t == "obj":
        return {"t": t, "cls": j["cls"], "v": sorted(([k, canon_json(v)] for k, v in j["v"]), key=lambda kv: kv[0])}
    if t == "float":
        return {"t": t, "r": float_repr(j)}
    return j


def simple_bytes_ok(bs):
    """bytes for which Codec.qp_simple is exact (see Codec.v)."""
    enc = 0
    for c in bs:
        if c in (9, 10, 13, 32, 46):
            return False
        enc += 1 if (33 <= c <= 126 and c != 61) else 3
    return enc <= 70


KEY_TEXTS = ["a", "b", "k", "x y", "q\"uote", "back\\slash", "é", "日本", "\U0001F600", "a/b", "a.b", "a=b", "a, b",
             "{", "}", "[", "]", ":", "", "py/x", "Py/tuple", "new\nline", "tab\t", "\x01", "\x7f", "args=", " args=",
             ", kwargs=", "#", " #1", "null", "0"]
STR_TEXTS = KEY_TEXTS + ["hello", "Op", "value", "a*", "ZZ", "z" * 30]
FLOATS = ["1.5", "0.1", "-2.25", "1e+22", "1e-07", "3.0", "123456789.12345679", "-0.0"]


def rand_pyval(rng, depth, sets=False, objs=True, unser=False, floats=True):
    k = rng.randrange(16 if depth > 0 else 9)
    if k == 0:
        return none()
    if k == 1:
        return b(rng.random() < 0.5)
    if k in (2, 3):
        return i(rng.choice([0, 1, -1, 2, 7, 10, 255, -2**31, 2**63, 10**25, rng.randrange(-1000, 1000)]))
    if k == 4:
        return {"t": "float", "r": rng.choice(FLOATS)} if floats else i(3)
    if k in (5, 6):
        return s(rng.choice(STR_TEXTS))
    if k == 7:
        n = rng.randrange(0, 8)
        bs = [rng.choice([0, 1, 33, 47, 48, 61, 65, 97, 126, 127, 128, 200, 255]) for _ in range(n)]
        return {"t": "bytes", "v": bs}
    if k == 8:
        if unser and rng.random() < 0.3:
            return {"t": "unser", "v": rng.randrange(3)}
        return {"t": "clsref", "v": rng.choice(list(CLASSES))}
    kw = dict(sets=sets, objs=objs, unser=unser, floats=floats)
    if k in (9, 10):
        return lst([rand_pyval(rng, depth - 1, **kw) for _ in range(rng.randrange(0, 4))])
    if k == 11:
        return tup([rand_pyval(rng, depth - 1, **kw) for _ in range(rng.randrange(0, 4))])
    if k in (12, 13):
        keys = rng.sample(KEY_TEXTS, rng.randrange(0, 4))
        return dct([(kk, rand_pyval(rng, depth - 1, **kw)) for kk in keys])
    if k == 14 and objs:
        keys = rng.sample(["x", "y", "name", "é", "_p"], rng.randrange(1, 4))
        return {"t": "obj", "cls": rng.choice(list(CLASSES)), "v": [[kk, rand_pyval(rng, depth - 1, **kw)] for kk in keys]}
    if k == 15 and sets:
        n = rng.randrange(0, 4)
        elems = rng.sample(["x", "y", "zz", "abc", "q", "w"], n)
        return {"t": "set", "v": [s(e) for e in elems]}
    return i(rng.randrange(100))


def shuffle_dicts(rng, j):
    """A structurally equal value with every dict's / object's insertion order shuffled."""
    t = j["t"]
    if t in ("list", "tuple", "set"):
        return {"t": t, "v": [shuffle_dicts(rng, x) for x in j["v"]]}
    if t in ("dict", "obj"):
        items = [[k, shuffle_dicts(rng, v)] for k, v in j["v"]]
        rng.shuffle(items)
        out = dict(j)
        out["v"] = items
        return out
    return j
