"""Shared by harness/props/c20.py and harness/impl/files_driver.py: compact JSON descriptions of file
contents and of call arguments, expanded identically on both sides."""
import hashlib

PLACEHOLDER = b'above interception limit'
INLINE_MAX = 4096   # observed byte strings longer than this are reported as digest + length


def size_of(spec):
    if "hex" in spec:
        return len(spec["hex"]) // 2
    return spec["n"]


def expand(spec):
    """content spec -> bytes.  {"hex": ..} | {"cycle": hexpattern, "n": n} | {"sha": seed, "n": n} | {"zeros": 1, "n": n}"""
    if "hex" in spec:
        return bytes.fromhex(spec["hex"])
    n = spec["n"]
    if "cycle" in spec:
        pat = bytes.fromhex(spec["cycle"])
        return (pat * (n // len(pat) + 1))[:n]
    if "sha" in spec:
        out = bytearray()
        i = 0
        while len(out) < n:
            out += hashlib.sha256(b"%d:%d" % (spec["sha"], i)).digest()
            i += 1
        return bytes(out[:n])
    if "zeros" in spec:
        return b"\0" * n
    raise ValueError(spec)


def is_sparse(spec):
    return "zeros" in spec


def show_bytes(b, cap=INLINE_MAX):
    """bytes -> canonical JSON observable"""
    if b is None:
        return None
    if len(b) <= cap:
        return {"hex": b.hex()}
    return {"sha256": hashlib.sha256(b).hexdigest(), "len": len(b)}


def same_bytes(shown, b):
    """does the observable `shown` denote the byte string b?"""
    if not isinstance(shown, dict):
        return False
    if "hex" in shown:
        return bytes.fromhex(shown["hex"]) == b
    return shown == show_bytes(b, cap=0)


# ---- argument values: None | "text" | {"o": tag}  (a non-path object: tag -> (python value, truthy)) ----
OTHERS = {"list0": ([], False), "list1": ([1], True), "float0": (0.0, False), "float1": (1.5, True),
          "dict0": ({}, False), "tuple1": ((0,), True)}


def real_value(a):
    if isinstance(a, dict):
        return OTHERS[a["o"]][0]
    return a


def truthy(a):
    if a is None:
        return False
    if isinstance(a, dict):
        return OTHERS[a["o"]][1]
    return bool(a)


def call_args(extras, mode, path, name):
    """positional (without self) and keyword arguments of one call that passes `path` in the given mode"""
    args = list(extras)
    kwargs = {}
    if mode == "kw":
        kwargs[name] = path
    else:
        args.append(path)
        if mode == "pos+kwnone":
            kwargs[name] = None
        elif mode == "pos+kwempty":
            kwargs[name] = ""
        elif mode != "pos":
            raise ValueError(mode)
    return args, kwargs
