"""Shared by props/c08.py and props/c13.py: script generators, Gallina emitters and helper predicates for the
equalizer (model F).  No playback import here."""
import itertools
import os

from lib.gallina import gnat, gbool, glist, gopt, gpair

STATUSES = ["Equal", "Fixed", "Different", "Failed", "EqualizerFailure"]
# verdict-level behaviours (the replay itself) and process-level behaviours (what happens to the worker)
VERDICT_BEH = ["equal", "different", "player_raises", "extractor_raises", "comparator_raises",
               "bare:Fixed", "bare:Failed", "bare:Equal", "bare:EqualizerFailure"]
PROCESS_BEH = ["exit0", "exit1", "hang", "hang_deaf", "slow:1", "slow:2", "slow:3", "slow:4", "slow:5"]
# the answer reaches the parent but cannot be used: the parent's get() raises while loading it / the worker's put of
# its result raised and the worker loop answered (False, message).  The worker stays in place; dedicated mode only
# (in-process there is no queue: the replay is an Equal one)
ANSWER_BEH = ["unloadable", "put_raises"]
F08_BEH = ["late", "dies_before", "drops"]          # known finding F08 (queues shared by successive workers): probe streams only

# shapes of what the comparator returns (an otherwise normal replay).  "cr:<status>:<message>:<diff>:<class>" = a
# ComparatorResult (class "plain") or an instance of a subclass of it carrying an attribute of its own ("sub") with
#   status   a member of EqualityStatus, or a value that is none (none / true / name: None, True, the text 'Equal')
#   message  none | text | falsy (an empty dict) | struct (a dict describing the difference) | num (a number)
#   diff     0 | 1 (the `diff` member set to a dict naming the recording)
# "foreign:<none|true|name>" = the comparator returns that value bare (the code wraps it into a ComparatorResult).
FOREIGN = ["none", "true", "name"]
SHAPE_MSGS = ["none", "text", "falsy", "struct", "num"]
SHAPE_BEH = (["cr:%s:%s:%d:%s" % (st, m, d, k) for st in STATUSES for m in SHAPE_MSGS for d in (0, 1) for k in ("plain", "sub")]
             + ["cr:%s:%s:%d:plain" % (st, m, d) for st in FOREIGN for m in ("none", "text") for d in (0, 1)]
             + ["foreign:%s" % st for st in FOREIGN])


def shape_of(b):
    """{status (None: not an EqualityStatus), msg, diff, sub, bare} of a verdict-shape behaviour, else None"""
    if b.startswith("foreign:"):
        return dict(status=None, msg="none", diff=False, sub=False, bare=True)
    if not b.startswith("cr:"):
        return None
    _, st, m, d, k = b.split(":")
    return dict(status=st if st in STATUSES else None, msg=m, diff=d == "1", sub=k == "sub", bare=False)


def renderable(sh):
    """Comparison.__str__ copes with this verdict (status has a .name, a truthy message is text)"""
    return sh["status"] is not None and sh["msg"] not in ("struct", "num")

MSGS = {"none": "MNone", "cmp": "MCmp", "player": "MPlayer", "extractor": "MExtractor", "comparator": "MComparator",
        "died": "MDied", "timeout": "MTimeout", "unload": "MUnload", "refused": "MRefused",
        "falsy": "MFalsy", "struct": "MStruct", "render": "MRender"}
OUTCOMES = {"completed": "Completed", "closed": "Completed", "consumer-raised": "Completed", "iter-raised": "Completed",
            "deadlock": "Deadlock", "abort-exit": "AbortExit", "blocks": "Blocks"}
STATE_CODE = {"idle": 0, "busy": 1, "hung": 2, "dead:exit": 3, "dead:before": 4, "dead:killed": 5, "dead:terminated": 6}
EVENT_CODE = {"start": 0, "exit": 1, "before": 2, "killed": 3, "terminated": 4, "late-answer": 5}


def beh_of(case, i):
    return case["beh"].get(str(i), "equal")


def g_beh(b):
    if b == "equal":
        return "BEqual"
    if b == "different":
        return "BDifferent"
    if b == "player_raises":
        return "BPlayerRaises"
    if b == "extractor_raises":
        return "BExtractorRaises"
    if b == "comparator_raises":
        return "BComparatorRaises"
    if b.startswith("bare:"):
        return "(BBare %s)" % b[5:]
    if b in ("exit0", "exit1"):
        return "BExits"
    if b in ("hang", "hang_deaf"):      # SIGKILL cannot be ignored: the model has one kind of hang
        return "BHangs"
    if b == "late":
        return "BAnswersLate"
    if b.startswith("slow:"):
        return "(BSlow %s)" % gnat(int(b[5:]))
    if b == "drops":
        return "BDrops"
    if b == "dies_before":
        return "BDiesBefore"
    if b == "unloadable":
        return "(BBadAnswer Unloadable)"
    if b == "put_raises":
        return "(BBadAnswer Refused)"
    sh = shape_of(b)
    if sh is not None:
        return "(BReturns (VShape %s %s %s %s))" % (
            "VForeign" if sh["status"] is None else "(VEnum %s)" % sh["status"],
            {"none": "VNone", "text": "VText", "falsy": "VFalsy", "struct": "VStruct", "num": "VStruct"}[sh["msg"]],
            gbool(sh["diff"]), gbool(sh["sub"]))
    raise ValueError(b)


def g_script(case):
    return glist([gpair(gnat(i), g_beh(beh_of(case, i))) for i in case["ids"]])


def g_cfg(case):
    # the code as it is since the repair of F08 (/repo 1ba89d0): every worker gets fresh queues.
    # EQ_MODEL_FRESH_QUEUES=0 compares with the legacy model (queues shared by successive workers) instead.
    fresh = os.environ.get("EQ_MODEL_FRESH_QUEUES", "1") != "0"
    return "(Cfg %s %s %s %s)" % (gnat(case["rate"]), gnat(case["timeout"]), gbool(case["keep"]), gbool(fresh))


def g_stop(case):
    c = case.get("consume", ["full"])
    if c[0] == "full":
        return "Full"
    return "(%s %s)" % ("SourceRaisesAfter" if c[0] == "iter_raises" else "ClosedAfter", gnat(c[1]))


def g_tri(x):
    return "TNone" if x is None else ("TTrue" if x else "TFalse")


def g_cmp(c):
    """one projected Comparison -> Gallina, or None when it is outside what the model can express"""
    lab, st, m, att, he, ha, f1, f2, d, cls = c
    if not isinstance(lab, int) or st not in STATUSES or m not in MSGS or not (att is None or isinstance(att, int)):
        return None
    if not (d is None or isinstance(d, int)) or cls not in ("plain", "sub"):
        return None
    if lab >= 5000 or (att or 0) >= 5000 or (d or 0) >= 5000:
        return None
    return "(Cmp %s %s %s %s %s %s %s %s %s %s)" % (gnat(lab), st, MSGS[m], gopt(None if att is None else gnat(att)),
                                                    gbool(he), gbool(ha), g_tri(f1), g_tri(f2),
                                                    gopt(None if d is None else gnat(d)), gbool(cls == "sub"))


def g_cmps(cmps):
    out = [g_cmp(c) for c in cmps]
    return None if any(x is None for x in out) else glist(out)


# ---------------------------------------------------------------------------------------------------------------
# generators

def expected_count(case):
    c = case.get("consume", ["full"])
    return len(case["ids"]) if c[0] == "full" else min(c[1], len(case["ids"]))


def mk(ids, behs, dedicated=True, rate=2, timeout=2, keep=False, consume=("full",), **extra):
    beh = {}
    for i, b in zip(ids, behs):
        if b != "equal":
            beh[str(i)] = b
    d = dict(ids=list(ids), beh=beh, dedicated=dedicated, rate=rate, timeout=timeout, keep=keep, consume=list(consume))
    d.update(extra)
    return d


def rand_consume(rng, n):
    r = rng.random()
    if r < 0.55:
        return ("full",)
    k = rng.randrange(0, n + 2)
    return (rng.choice(["close", "raise", "iter_raises"]), k)


def rand_script(rng, alphabet, weights, maxlen, dup=0.15):
    n = rng.randrange(0, maxlen + 1)
    ids, behs, table = [], [], {}
    for _ in range(n):
        if ids and rng.random() < dup:
            i = rng.choice(ids)               # the same recording again (same behaviour)
        else:
            i = rng.randrange(1, 40)
            while i in table:
                i = rng.randrange(1, 60)
            table[i] = rng.choices(alphabet, weights)[0]
        ids.append(i)
        behs.append(table[i])
    return ids, behs


def exhaustive(alphabet, maxlen):
    for n in range(0, maxlen + 1):
        for behs in itertools.product(alphabet, repeat=n):
            yield list(range(1, n + 1)), list(behs)


def has(case, names):
    return any(beh_of(case, i) in names for i in case["ids"])


def f08_sig(case):
    """signature under which a locality failure of this case is a known finding (None: it is not); only in the F08
    probe streams - since the repair (fresh queues per worker) late answers, idle deaths and lost answers are
    ordinary behaviours and other streams use them under the plain signatures"""
    if case.get("probe") != "F08":
        return None
    if has(case, ["late"]):
        return "F08-late-answer"
    if has(case, ["dies_before"]):
        return "F08-stale-task"
    if has(case, ["drops"]):
        return "F08-lock-held"
    return None


def slow_d(b):
    return int(b[5:]) if b.startswith("slow:") else None


def fatal_dedicated(b, timeout):
    """does this behaviour end the life of the worker that serves it (dedicated mode)?  None = borderline"""
    if b in ("exit0", "exit1", "hang", "hang_deaf", "drops", "late", "dies_before"):
        return True
    d = slow_d(b)
    if d is not None:
        if d <= timeout:
            return False
        return None if d == timeout + 1 else True
    return False


def mode_neutral(b, timeout):
    """does this behaviour yield the same comparison in dedicated and in in-process mode (property's expectation)?"""
    return expected_status(b, True, timeout) is not None and not fatal_dedicated(b, timeout) and b not in ANSWER_BEH


def expected_status(b, dedicated, timeout):
    """the property's own expectation of the verdict of one recording: a status, a tuple of acceptable statuses, or
    None = not determined by the property"""
    sh = shape_of(b)
    if sh is not None:
        # a verdict the framework can render is the comparator's; one it cannot render (the log line of run_comparison
        # fails on it) is at most a framework failure of that recording - a tree that copes with it may hand it on
        if renderable(sh):
            return sh["status"]
        return ("EqualizerFailure",) if sh["status"] is None else (sh["status"], "EqualizerFailure")
    if b.startswith("bare:"):
        return b[5:]
    if b == "different":
        return "Different"
    if b in ("player_raises", "extractor_raises", "comparator_raises"):
        return "EqualizerFailure"
    if b == "equal" or b.startswith("spawns"):      # (real-process scripts only: the operation computes in a helper process / thread)
        return "Equal"
    if not dedicated:
        return None if b in ("exit0", "exit1", "hang", "hang_deaf") else "Equal"
    if b in ANSWER_BEH:
        return "EqualizerFailure"
    f = fatal_dedicated(b, timeout)
    if f is None:
        return None
    return "EqualizerFailure" if f else "Equal"


def status_ok(exp, st):
    return exp is None or (st in exp if isinstance(exp, tuple) else st == exp)


def payload_fails(b, c):
    """the verdict attached to a comparison is the one the comparator produced for THAT recording, whole: its diff
    and its class (direct predicate; c = projected comparison).  A framework-failure verdict made by the framework
    carries neither."""
    out = []
    lab, st, d, cls = c[0], c[1], c[8], c[9]
    if d is not None and d != lab:
        out.append(("foreign-diff-attached", "comparison labelled r%s carries the diff of %s" % (lab, d)))
    sh = shape_of(b)
    passed_on = sh is not None and st == sh["status"] and c[2] != "render"
    want_d = lab if (passed_on and sh["diff"]) else None
    want_cls = "sub" if (passed_on and sh["sub"]) else "plain"
    if sh is not None and (passed_on or renderable(sh)) and (d != want_d or cls != want_cls):
        out.append(("verdict-payload-altered", "comparison of r%s (%s): the comparator's verdict has diff %s and class '%s', "
                    "the comparison carries diff %s and class '%s'"
                    % (lab, b, "of r%s" % lab if sh["diff"] else None, "sub" if sh["sub"] else "plain", d, cls)))
    elif sh is None and (d is not None or cls != "plain"):
        out.append(("verdict-payload-altered", "comparison of r%s (%s) carries diff %s and class '%s'" % (lab, b, d, cls)))
    return out


def features(case):
    f = set()
    f.add("mode:" + ("real-processes" if case.get("kind") == "real" else
                     "dedicated(sim)" if case["dedicated"] else "in-process"))
    f.add("rate=%d" % case["rate"])
    f.add("timeout=%d" % case["timeout"])
    f.add("keep=%s" % case["keep"])
    f.add("consume:" + case.get("consume", ["full"])[0])
    f.add("len=%s" % (len(case["ids"]) if len(case["ids"]) < 8 else "8+"))
    if len(set(case["ids"])) < len(case["ids"]):
        f.add("repeated-id")
    ids = case["ids"]
    for k, i in enumerate(ids):
        b = beh_of(case, i)
        sh = shape_of(b)
        if sh is not None:
            f.add("beh:verdict-shape")
            f.add("verdict:status=" + (sh["status"] or "not-a-status"))
            f.add("verdict:message=" + sh["msg"])
            f.add("verdict:" + ("bare-value" if sh["bare"] else "subclass-instance" if sh["sub"] else "plain-result"))
            if sh["diff"]:
                f.add("verdict:diff")
            if not renderable(sh):
                f.add("verdict:unrenderable")
                if k + 1 < len(ids):
                    f.add("unrenderable-verdict-not-last")
        else:
            f.add("beh:" + (b.split(":")[0] if b.startswith("slow") else b))
        if fatal_dedicated(b, case["timeout"]):
            if k == 0:
                f.add("fault-at-first")
            if k == len(ids) - 1:
                f.add("fault-at-last")
            if k + 1 < len(ids) and fatal_dedicated(beh_of(case, ids[k + 1]), case["timeout"]):
                f.add("consecutive-faults")
            if case["rate"] >= 1 and (k + 1) % case["rate"] == 0:
                f.add("fault-near-recycle-boundary")
    if case.get("data"):
        f.add("comparison-data:key-set-varies")
        for sp in case["data"].values():
            f.add("comparison-data:keys=" + (sp or "none"))
    if case.get("kill_idle_after"):
        f.add("idle-worker-killed-by-a-third-party")
    if case.get("probe"):
        f.add("probe:" + case["probe"])
    return f
