"""Python -> Gallina literal emitter (the models use `str := list N` of code points)."""


def gZ(n):
    return "(%d)%%Z" % n


def gN(n):
    assert n >= 0
    return "%d%%N" % n


def gnat(n):
    assert 0 <= n < 5000, "no large nat literals"
    return "%d%%nat" % n


def gbool(b):
    return "true" if b else "false"


def gstr(s):
    """Python str -> term of type `str` (list N of code points)."""
    if all(32 <= ord(c) < 127 and c != '"' for c in s):
        return '(U "%s")' % s
    return "[" + "; ".join("%d%%N" % ord(c) for c in s) + "]"


def gbytes(b):
    return "[" + "; ".join("%d%%N" % c for c in b) + "]"


def glist(xs):
    return "[" + "; ".join(xs) + "]"


def gopt(x):
    return "None" if x is None else "(Some %s)" % x


def gpair(*xs):
    return "(" + ", ".join(xs) + ")"


def gctor(name, *args):
    if not args:
        return name
    return "(" + name + " " + " ".join(args) + ")"


def gQ(fr):
    """fractions.Fraction -> Q literal (exact)."""
    return "(Qmake (%d)%%Z %d%%positive)" % (fr.numerator, fr.denominator)
