"""The recorder DSL on the harness side: random program generation, Gallina emission of programs /
histories / observations (types of coq/theories/Recorder/Dsl.v, Run.v, Run/RunRec.v)."""
import copy
import json
from fractions import Fraction

from lib import pyvals as pv
from lib.gallina import gstr, gbool, glist, gpair, gopt, gnat, gN, gQ

EXC_TYPES = ["ValueError", "KeyError", "RuntimeError", "ZeroDivisionError", "CustomError", "AssertionError"]
FAULT_EXC_TYPES = EXC_TYPES + ["UnserError", "NoSuchRecording"]
IN_ALIASES = ["get_user", "db.fetch", "load", "cfg {p}", "in x", "svc:{p}:read", "fetch_2", "é", "a args=", "{{lit}} {p}"]
OUT_ALIASES = ["send", "publish", "db.write", "emit_2", "log out", "notify", "out#1", "é", "w"]
USER_KEYS = ["user:k1", "user:k2", "note", "user:é"]


# ---- Gallina emission -------------------------------------------------------------------------------
def g_expr(e):
    if "lit" in e:
        return "(Lit %s)" % pv.to_pyval(e["lit"])
    return "(Var %s)" % gnat(e["var"])


def g_kwargs_e(kw):
    return glist([gpair(gstr(k), g_expr(e)) for k, e in kw])


def g_cap(cap):
    if cap is None:
        return "CapAll"
    return "(CapList %s)" % glist([gpair(gopt(None if p is None else gnat(p)), gopt(None if n is None else gstr(n)))
                                   for p, n in cap])


def g_icfg(c):
    r = c["resolver"]
    res = {"none": "RNone", "raises": "RRaises"}.get(r["kind"]) or "(RArg %s)" % gnat(r["i"])
    h = {"none": "None", "wrap": "(Some h_wrap)", "prep_raises": "(Some h_prep_raises)",
         "restore_raises": "(Some h_restore_raises)"}[c["handler"]]
    vm = c["vmiss"]
    vms = {"none": "VMNone", "call": "(VMCall vm_echo)"}.get(vm["kind"]) or "(VMLit %s)" % pv.to_pyval(vm["v"])
    fb = c["fallbacks"]
    fbs = {"none": "FbNone", "raises": "FbRaises"}.get(fb["kind"]) or \
        "(%s %s)" % ("FbList" if fb["kind"] == "list" else "FbFun", glist([gstr(a) for a in fb["l"]]))
    return ("{| i_alias := %s; i_resolver := %s; i_cap := %s; i_static := %s; i_handler := %s; i_prep_discards := %s; "
            "i_run_missing := %s; i_vmiss := %s; i_fallbacks := %s |}" %
            (gstr(c["alias"]), res, g_cap(c["cap"]), gbool(c["static"]), h, gbool(c.get("prep_discards", False)),
             gbool(c["run_missing"]), vms, fbs))


def g_ocfg(c):
    h = {"none": "None", "wrap": "(Some oh_wrap)", "raises": "(Some oh_raises)", "count": "(Some oh_count)",
         "null": "(Some oh_null)"}[c["handler"]]
    return "{| o_alias := %s; o_static := %s; o_handler := %s; o_fail := %s; o_default := %s |}" % (
        gstr(c["alias"]), gbool(c["static"]), h, gbool(c["fail"]), pv.to_pyval(c["default"]))


def g_code(c):
    k = c["k"]
    if k == "ret":
        return "(Ret %s)" % g_expr(c["e"])
    if k == "raise":
        return "(Raise %s)" % gstr(c["ty"])
    if k == "interrupt":
        return "Interrupt"
    if k == "in":
        return "(Inp %s %s %s %s %s)" % (g_icfg(c["cfg"]), g_code(c["body"]), glist([g_expr(e) for e in c["args"]]),
                                        g_kwargs_e(c["kwargs"]), g_code(c["next"]))
    if k == "out":
        return "(Out %s %s %s %s %s)" % (g_ocfg(c["cfg"]), g_code(c["body"]), glist([g_expr(e) for e in c["args"]]),
                                         g_kwargs_e(c["kwargs"]), g_code(c["next"]))
    if k == "try":
        return "(Try %s %s)" % (g_code(c["c"]), g_code(c["h"]))
    if k == "spawn":
        return "(Spawn %s %s)" % (g_code(c["c"]), g_code(c["next"]))
    if k == "discard":
        return "(Discard %s)" % g_code(c["next"])
    if k == "force":
        return "(Force %s)" % g_code(c["next"])
    if k == "enable":
        return "(Enable %s %s)" % (gbool(c["b"]), g_code(c["next"]))
    if k == "recdata":
        return "(RecordData %s %s %s)" % (gstr(c["key"]), g_expr(c["e"]), g_code(c["next"]))
    if k == "playdata":
        return "(PlayData %s %s)" % (gstr(c["key"]), g_code(c["next"]))
    raise ValueError(k)


def g_opdef(op):
    ex = op["extractor"]
    exs = {"none": "XNone", "raises": "XRaises", "junk": "XJunk"}.get(ex["kind"]) or \
        "(XDict %s)" % glist([gpair(gstr(k), pv.to_pyval(v)) for k, v in ex["d"]])
    return "{| op_class := %s; op_classlevel := %s; op_extractor := %s; op_body := %s |}" % (
        gstr(op["cls"]), gbool(op["classlevel"]), exs, g_code(op["body"]))


DEFAULT_PRM = dict(rate=[1, 1], ignore=False, skipped=False, copy=False)     # RecordingParameters() (:1014-1030)


def g_prm(p):
    if p is None:          # no parameters registered for the class: the recorder builds RecordingParameters() per run
        p = DEFAULT_PRM
    return "{| p_rate := %s; p_ignore := %s; p_skipped := %s; p_copy := %s |}" % (
        gQ(Fraction(*p["rate"])), gbool(p["ignore"]), gbool(p["skipped"]), gbool(p["copy"]))


def g_run(r):
    if r["kind"] == "record":
        return "(RRecord %s %s %s %s)" % (gbool(r["enabled"]), g_prm(r["prm"]), g_opdef(r["op"]),
                                          gbool(r.get("save_fails", False)))
    pf = r["pf"]
    pfs = "(PfOp %s)" % g_opdef(pf["op"]) if pf["kind"] == "op" else "(PfRaises %s)" % gstr(pf["ty"])
    return "(RPlay %s %s %s)" % (gbool(r.get("enabled", False)), gnat(r["target"]), pfs)


def g_exn(name):
    if name.startswith("user:"):
        return "(EUser %s)" % gstr(name[5:])
    return {"KeyMissing": "EKeyMissing", "KeyCreation": "EKeyCreation", "NoSuchRecording": "ENoSuchRecording",
            "Assertion": "EAssertion"}.get(name, "EOutside")


def g_outcome(o):
    if o["o"] == "val":
        return "(OVal %s)" % pv.to_pyval(o["v"])
    if o["o"] == "exn":
        return "(OExn %s)" % g_exn(o["e"])
    return "OInt"


def g_kwargs_v(kw):
    return glist([gpair(gstr(k), pv.to_pyval(v)) for k, v in kw])


def g_datum(d):
    t = d["d"]
    if t == "val":
        return "(DVal %s)" % pv.to_pyval(d["v"])
    if t == "exn":
        return "(DExn %s)" % g_exn(d["e"])
    if t == "out":
        return "(DOut %s %s)" % (glist([pv.to_pyval(x) for x in d["args"]]), g_kwargs_v(d["kwargs"]))
    if t == "opexn":
        return "(DOpExn %s)" % gstr(d["ty"])
    return "(DData %s)" % pv.to_pyval(d["v"])


def g_rec(items):
    return glist([gpair(gstr(k), g_datum(d)) for k, d in items])


def g_ev(e):
    t = e["e"]
    if t == "call":
        return "(ECall %s %s)" % (gstr(e["alias"]), g_outcome(e["o"]))
    ctor = {"begin": "EBegin", "body": "EBody"}[t]
    return "(%s %s %s %s)" % (ctor, gstr(e["alias"]), glist([pv.to_pyval(x) for x in e["args"]]), g_kwargs_v(e["kwargs"]))


def g_cev(c):
    t = c["c"]
    if t == "create":
        return "(CCreate %s)" % gstr(c["cat"])
    if t == "save":
        return "(CSave %s %s %s)" % (gnat(max(c["ord"], 0)), g_rec(c["data"]), g_kwargs_v(c["meta"]))
    if t == "savefailed":
        return "(CSaveFailed %s)" % gnat(max(c["ord"], 0))
    if t == "abort":
        return "(CAbort %s)" % gnat(max(c["ord"], 0))
    return "(CGet %s)" % gbool(c["found"])


def g_obs(o):
    st = o["state"]
    return "(mk_obs %s %s %s %s %s (mk_rst %s %s %s %s))" % (
        g_outcome(o["outcome"]), glist([g_ev(e) for e in o["trace"]]), glist([g_cev(c) for c in o["cass"]]),
        g_rec(o["pbouts"]), g_rec(o["recouts"]), gbool(st["active"]) + " " + gbool(st["enabled"]), gbool(st["force"]),
        glist([gpair(gstr(k), gN(v)) for k, v in st["counter"]]), gbool(st["icpt"]))


def g_case(case, obs):
    draws = glist([gQ(Fraction(n, d)) for n, d in case.get("draws", [])])
    return "Case %s %s %s" % (draws, glist([g_run(r) for r in case["runs"]]), glist([g_obs(o) for o in obs["runs"]]))


# ---- random programs ------------------------------------------------------------------------------------
DEFAULT_W = dict(spawn=0.35, inp=5, out=4, tr=2, discard=0.4, force=0.5, recdata=0.7, playdata=0.4, enable=0.25, prep_discards=0.04,
                 fault=0.12, interrupt=0.05, raise_=0.2, nested=0.35, unser=0.04, handler=0.25,
                 resolver=0.2, cap=0.4, kwargs=0.4, fallbacks=0.15, missing_opts=0.15, static=0.4, prop=0.08)


def val(rng, w, depth=2):
    v = pv.rand_pyval(rng, depth, sets=False, objs=True, unser=False)
    if rng.random() < w["unser"]:
        return {"t": "unser", "v": rng.randrange(3)}
    return v


def rand_expr(rng, w, nenv, used):
    # at most one bound value per call: two slots may hold the SAME object (a body that returns its argument), and the
    # same mutable object twice inside one encode() is a py/id reference - outside the tree-shaped value domain
    if nenv and not used and rng.random() < 0.45:
        n = rng.randrange(nenv)
        used.add(n)
        return {"var": n}
    return {"lit": val(rng, w)}


def rand_terminal(rng, w, nenv):
    r = rng.random()
    if r < w["interrupt"]:
        return {"k": "interrupt"}
    if r < w["interrupt"] + w["raise_"]:
        return {"k": "raise", "ty": rng.choice(FAULT_EXC_TYPES if w.get("unser", 0) > 0 else EXC_TYPES)}
    return {"k": "ret", "e": rand_expr(rng, w, nenv, set())}


def rand_icfg(rng, w, nargs, static):
    alias = rng.choice(IN_ALIASES)
    res = {"kind": "none"}
    if "{p}" in alias or rng.random() < w["resolver"] * 0.3:
        r = rng.random()
        if r < 0.1:
            res = {"kind": "raises"}
        elif nargs > 0 or r < 0.2:
            res = {"kind": "arg", "i": rng.randrange(max(nargs, 1)) if rng.random() < 0.95 else nargs + 1}
    cap = None
    if rng.random() < w["cap"]:
        cap = []
        if rng.random() < 0.8:
            used = set()
            lo = 0 if static else 1
            for _ in range(rng.randrange(1, 4)):
                pos = rng.choice([None] + list(range(lo, lo + 3))) if rng.random() < 0.93 else 9
                if pos in used:
                    pos = None
                used.add(pos)
                cap.append([pos, rng.choice([None, "a", "b", "opt", "zz"])])
    handler = "none"
    if rng.random() < w["handler"]:
        handler = rng.choice(["wrap", "wrap", "wrap", "prep_raises", "restore_raises"])
    vm = {"kind": "none"}
    run_missing = False
    if rng.random() < w["missing_opts"]:
        run_missing = rng.random() < 0.4
        r = rng.random()
        if r < 0.5:
            vm = {"kind": "lit", "v": rng.choice([pv.i(5), pv.i(0), pv.s(""), pv.lst([]), pv.dct([]), pv.b(False),
                                                   pv.none(), pv.s("sub"), pv.tup([])])}
        elif r < 0.7:
            vm = {"kind": "call"}
    fb = {"kind": "none"}
    if rng.random() < w["fallbacks"]:
        r = rng.random()
        l = rng.sample(IN_ALIASES, rng.randrange(0, 3))
        fb = {"kind": "raises"} if r < 0.1 else {"kind": "list" if r < 0.6 else "fun", "l": l}
    return dict(alias=alias, resolver=res, cap=cap, static=static, property=False, handler=handler,
                prep_discards=rng.random() < w["prep_discards"], run_missing=run_missing, vmiss=vm, fallbacks=fb)


def rand_ocfg(rng, w):
    handler = "none"
    if rng.random() < w["handler"]:
        handler = rng.choice(["wrap", "wrap", "raises"])
        if w.get("unsized_handlers") and rng.random() < w["unsized_handlers"]:      # (opt-in: no draw for weights that do not ask for it)
            handler = rng.choice(["count", "null"])
    return dict(alias=rng.choice(OUT_ALIASES), static=rng.random() < w["static"], handler=handler,
                fail=rng.random() < 0.8, default=rng.choice([pv.none(), pv.i(0), pv.s("dflt"), pv.tup([pv.i(1)])]))


def rand_call_args(rng, w, nenv, prop=False):
    if prop:
        return [], []
    used = set()
    args = [rand_expr(rng, w, nenv, used) for _ in range(rng.randrange(0, 4))]
    kwargs = []
    if rng.random() < w["kwargs"]:
        for n in rng.sample(["a", "b", "opt", "é"], rng.randrange(1, 3)):
            kwargs.append([n, rand_expr(rng, w, nenv, used)])
    return args, kwargs


def rand_body(rng, w, nenv, depth, budget):
    """Body of an intercepted function: mostly a plain return of one of its arguments or a constant."""
    if depth > 0 and budget[0] > 0 and rng.random() < w["nested"]:
        wb = w if w.get("spawn_in_body", True) else dict(w, spawn=0)
        return rand_code(rng, wb, nenv, depth - 1, budget, maxlen=2)
    r = rng.random()
    if r < w["fault"] * 0.5:
        return {"k": "discard", "next": rand_terminal(rng, w, nenv)}
    if r < w["fault"]:
        return {"k": "force", "next": rand_terminal(rng, w, nenv)}
    return rand_terminal(rng, w, nenv)


def rand_code(rng, w, nenv, depth, budget, maxlen=6):
    """A statement sequence ending in a terminal; nenv = number of values bound so far."""
    n = rng.randrange(0, maxlen + 1)
    stmts = []
    kinds = ["inp", "out", "tr", "discard", "force", "recdata", "playdata", "enable", "spawn"]
    weights = [w[k] for k in kinds]
    cur = nenv
    for _ in range(n):
        if budget[0] <= 0:
            break
        budget[0] -= 1
        k = rng.choices(kinds, weights)[0]
        if k == "inp":
            static = rng.random() < w["static"]
            prop = (not static) and rng.random() < w["prop"]
            args, kwargs = rand_call_args(rng, w, cur, prop)
            cfg = rand_icfg(rng, w, len(args), static)
            cfg["property"] = prop
            if prop:
                cfg["cap"] = None if cfg["cap"] is None else []
                if cfg["resolver"]["kind"] == "arg":
                    cfg["resolver"] = {"kind": "none"}
            body = rand_body(rng, w, len(args) + len(kwargs), depth, budget)
            stmts.append(("in", dict(cfg=cfg, body=body, args=args, kwargs=kwargs)))
            cur += 1
        elif k == "out":
            args, kwargs = rand_call_args(rng, w, cur)
            body = rand_body(rng, w, len(args) + len(kwargs), depth, budget)
            stmts.append(("out", dict(cfg=rand_ocfg(rng, w), body=body, args=args, kwargs=kwargs)))
            cur += 1
        elif k == "tr":
            stmts.append(("try", cur))
            break
        elif k in ("discard", "force"):
            stmts.append((k, None))
        elif k == "enable":
            stmts.append(("enable", dict(b=rng.random() < 0.5)))
        elif k == "spawn":
            stmts.append(("spawn", dict(c=rand_code(rng, w, cur, depth - 1 if depth > 0 else 0, budget, maxlen=2))))
        elif k == "recdata":
            stmts.append(("recdata", dict(key=rng.choice(USER_KEYS), e=rand_expr(rng, w, cur, set()))))
        else:
            stmts.append(("playdata", dict(key=rng.choice(USER_KEYS))))
            cur += 1
    # assemble right to left
    if stmts and stmts[-1][0] == "try":
        env_at = stmts[-1][1]
        tail = {"k": "try", "c": rand_code(rng, w, env_at, depth - 1 if depth > 0 else 0, budget, maxlen=3),
                "h": rand_code(rng, w, env_at, 0, budget, maxlen=2)}
        stmts = stmts[:-1]
    else:
        tail = rand_terminal(rng, w, cur)
    for k, d in reversed(stmts):
        node = {"k": k, "next": tail}
        if d:
            node.update(d)
        tail = node
    return tail


def rand_opdef(rng, w, budget=14, depth=2, cls=None):
    ex = {"kind": "none"}
    r = rng.random()
    if r < 0.2:
        ex = {"kind": "dict" if rng.random() < 0.7 else "calls_out", "n": rng.randrange(1, 3),
              "d": [[k, pv.rand_pyval(rng, 1, objs=False)] for k in
                    rng.sample(["tenant", "size", "k", "flag é"], rng.randrange(0, 3))]}
    elif r < 0.27:
        ex = {"kind": "raises"}
    elif r < 0.34:
        ex = {"kind": "junk", "junk": rng.choice(["int", "pairs"])}
    return dict(cls=cls or rng.choice(["OpA", "OpB", "Op_C"]), classlevel=rng.random() < 0.2, extractor=ex,
                body=rand_code(rng, w, 0, depth, [budget]))


def rand_prm(rng, rate=None):
    if rate is None:
        rate = rng.choice([[1, 1], [1, 1], [1, 1], [0, 1], [1, 2], [1, 4], [3, 2], [3602879701896397, 36028797018963968]])
    return dict(rate=rate, ignore=rng.random() < 0.2, skipped=rng.random() < 0.06, copy=rng.random() < 0.3)


def rand_draws(rng, n=8):
    return [rng.choice([[0, 1], [1, 4], [1, 2], [3, 4], [1, 1], [3602879701896397, 36028797018963968],
                        [rng.randrange(0, 1024), 1024]]) for _ in range(n)]


# ---- structural helpers ------------------------------------------------------------------------------------
def walk(c):
    """All code nodes of a program (pre-order)."""
    yield c
    for key in ("body", "c", "h", "next"):
        if key in c and isinstance(c[key], dict):
            for x in walk(c[key]):
                yield x


def size(c):
    return sum(1 for _ in walk(c))


def clean(x):
    """Deep copy without driver-side caches."""
    return json.loads(json.dumps(x, default=lambda o: None))


def features_of_code(c):
    fs = set()
    nin = nout = 0
    for n in walk(c):
        k = n["k"]
        if k == "in":
            nin += 1
            cf = n["cfg"]
            fs.add("in:" + ("static" if cf["static"] else "property" if cf.get("property") else "instance"))
            if cf["handler"] != "none":
                fs.add("in-handler:" + cf["handler"])
            if cf.get("prep_discards"):
                fs.add("in-handler-discards")
            if cf["resolver"]["kind"] != "none":
                fs.add("resolver:" + cf["resolver"]["kind"])
            if cf["cap"] is not None:
                fs.add("capture:" + ("none" if not cf["cap"] else "list"))
            if cf["fallbacks"]["kind"] != "none":
                fs.add("fallbacks:" + cf["fallbacks"]["kind"])
            if cf["run_missing"]:
                fs.add("run-when-missing")
            if cf["vmiss"]["kind"] != "none":
                fs.add("substitute:" + cf["vmiss"]["kind"])
            if n["body"]["k"] not in ("ret", "raise", "interrupt"):
                fs.add("nested-body")
        elif k == "out":
            nout += 1
            if n["cfg"]["handler"] != "none":
                fs.add("out-handler:" + n["cfg"]["handler"])
            if n["body"]["k"] not in ("ret", "raise", "interrupt"):
                fs.add("nested-body")
        elif k in ("try", "discard", "force", "recdata", "playdata", "interrupt", "raise", "enable", "spawn"):
            fs.add("stmt:" + k)
    fs.add("inputs:%s" % (nin if nin < 4 else "4+"))
    fs.add("outputs:%s" % (nout if nout < 4 else "4+"))
    return fs


def deepcopy(x):
    return copy.deepcopy(x)


# ---- the undecorated twin, evaluated on the harness side (tagged-JSON values; no playback code involved) ----
class _Raise(Exception):
    def __init__(self, ty):
        self.ty = ty


class _Interrupt(BaseException):
    pass


def _ev(e, env):
    if "lit" in e:
        return pv.canon_json(e["lit"])
    n = e["var"]
    return env[n] if n < len(env) else {"t": "none"}


def _exn_name(ty):
    return "NoSuchRecording" if ty == "NoSuchRecording" else "user:" + ty


def twin_run(code, env=None):
    """(outcome, trace) of the program with every decorator removed.  Values in canonical tagged JSON."""
    trace = []

    def call(c, env):
        a = [_ev(e, env) for e in c["args"]]
        kw = [[k, _ev(e, env)] for k, e in c["kwargs"]]
        alias = c["cfg"]["alias"]
        trace.append({"e": "begin", "alias": alias, "args": a, "kwargs": kw})
        trace.append({"e": "body", "alias": alias, "args": a, "kwargs": kw})
        try:
            r = run(c["body"], a + [v for _, v in kw])
        except _Raise as ex:
            trace.append({"e": "call", "alias": alias, "o": {"o": "exn", "e": _exn_name(ex.ty)}})
            raise
        except _Interrupt:
            trace.append({"e": "call", "alias": alias, "o": {"o": "int"}})
            raise
        trace.append({"e": "call", "alias": alias, "o": {"o": "val", "v": r}})
        return r

    def run(c, env):
        while True:
            k = c["k"]
            if k == "ret":
                return _ev(c["e"], env)
            if k == "raise":
                raise _Raise(c["ty"])
            if k == "interrupt":
                raise _Interrupt()
            if k in ("in", "out"):
                env = env + [call(c, env)]
                c = c["next"]
            elif k == "try":
                try:
                    return run(c["c"], env)
                except _Raise:
                    return run(c["h"], env)
            elif k == "playdata":
                env = env + [{"t": "none"}]
                c = c["next"]
            elif k == "spawn":
                try:
                    run(c["c"], env)
                except (_Raise, _Interrupt):
                    pass
                c = c["next"]
            else:
                c = c["next"]
    try:
        o = {"o": "val", "v": run(code, env or [])}
    except _Raise as ex:
        o = {"o": "exn", "e": _exn_name(ex.ty)}
    except _Interrupt:
        o = {"o": "int"}
    return o, trace


def canon_outcome(o):
    return {"o": "val", "v": pv.canon_json(o["v"])} if o["o"] == "val" else o


def canon_trace(tr):
    out = []
    for e in tr:
        if e["e"] == "call":
            out.append({"e": "call", "alias": e["alias"], "o": canon_outcome(e["o"])})
        else:
            out.append({"e": e["e"], "alias": e["alias"], "args": [pv.canon_json(x) for x in e["args"]],
                        "kwargs": sorted([k, pv.canon_json(v)] for k, v in e["kwargs"])})
    return out


def has_stmt(c, kinds):
    return any(n["k"] in kinds for n in walk(c))
