#!/usr/bin/env python3
"""MANIFEST.setup_cmd: full offline build of the Coq development (.vo, never -vos)."""
import os
import sys
sys.path.insert(0, os.path.dirname(os.path.abspath(__file__)))
from lib import coqrun  # noqa: E402

bad = coqrun.grep_gate()
if bad:
    print("forbidden vernacular:", bad)
    sys.exit(1)
ok, log = coqrun.build(clean=False)
print(log[-3000:])
sys.exit(0 if ok else 1)
