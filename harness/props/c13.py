"""C13 - comparison runs always finish and leave no worker behind."""
from lib import eqgen as G
from lib.gallina import gnat, gbool, glist, gpair

ID = "C13"
LOG_EXACT = False                # (timing-dependent observables: only the property's predicate is evaluated under DEBUG)
LOG_SAMPLE = 120
LOG_LEVEL_INVARIANT = True
RUN_MODULE = "RunC13"
DRIVER = "equalizer_sim.py"
SHARD = 400
RULE = ("one case = one dedicated-process comparison run of the real Equalizer over simulated multiprocessing: a script "
        "with worker exits (status 0 / 1), hangs (killable / ignoring SIGTERM), dropped answers, slow replays, answers "
        "the parent cannot use (its get raises while loading the item / the worker answers (False, message): the "
        "worker stays in place) and idle workers dying between two replays at "
        "every position (first, last, consecutive, on recycle boundaries), recycle rates 0-7, timeouts 0-3 s, consumed "
        "fully / closed after n / consumer raising after n / id source raising after n; observed: polls per task, "
        "tasks per worker, state of every worker when the generator stops and after the idle worker's next poll, "
        "births/deaths/kills, where the parent blocks if it does; quick tier also four real-process anchor scripts "
        "(unloadable answers; idle worker SIGKILLed between replays; the run abandoned by Ctrl-C - SIGINT to the whole process group, "
        "in an interpreter and session of its own - WHILE a replay hangs in the worker, at the first replay of a worker and after one "
        "it has served: the consumer catches KeyboardInterrupt and gives up the run, no worker may remain); also SEVERAL runs alive in one simulated process "
        "(2-3 equalizers built directly or by one PlaybackStudio - one lazy generator per category -, consumed back to "
        "back, round robin, one ahead, in reverse or in random order, any fault / abandonment in any of them): every "
        "run is observed like a single run (worker ordinals local to the run; a finished run's workers are looked at "
        "once every worker of the process had its next poll) and compared with the same run alone; and ONE run started "
        "through PlaybackStudio with every fault kind at every position (the run's equalizer must carry the configured "
        "keep flag / dedicated flag / recycle rate / timeout, and enforce them); non-trivial = at least one fault, "
        "unusable answer, abandoned run or a second run in the process; distinct = distinct case")
EXHAUSTIVE = {"quick": False, "thorough": True}
ASSUMPTIONS = ["os.kill(pid, SIGKILL) succeeds and ends the worker (kill_succeeds); a kill that fails with OSError "
               "leaves a live forgotten worker by construction (equalizer.py:269-274)",
               "an idle worker sees the terminate flag at its next 50 ms poll and exits (one modelled step)",
               "an idle worker that dies (killed by the parent at the timeout, or by somebody else between two "
               "replays) dies inside the last blocking call it made: in Queue.get(True, t) it leaves that queue's "
               "read lock held, in Event.wait(t) it stays a registered sleeper of the event and the next Event.set() "
               "blocks for ever (multiprocessing/synchronize.py Condition.wait / notify; both reproduced on real "
               "processes); deaths inside the few microseconds of a non-blocking call are not sampled",
               "one modelled poll = one second of the fake clock; real wall time, zombies and signal delivery are "
               "runtime residue (sampled by the real-process scripts of the thorough tier)",
               "closing / dropping a suspended generator runs its finally block (Python semantics)",
               "several runs in one process: the workers of ALL runs poll whenever the parent blocks (in a get or in a "
               "join); a run that starts or continues right after another one ended does so before the ended run's idle "
               "worker polls again (the 50 ms window is always hit); multiprocessing primitives the module creates at "
               "import time (class attributes, module globals) are replaced by one simulated stand-in each, shared "
               "exactly as the original is"]
TRUSTED = ["fake multiprocessing / clock / kill (harness/impl/fake_mp.py) under the real Equalizer",
           "real-process scripts (thorough tier; four of them also in the quick tier) are checked by the direct "
           "predicate only; an anomaly must reproduce three times; a parent that blocks for ever is interrupted by "
           "a SIGALRM watchdog after 15 s",
           "watchdogs of the simulator (a check never hangs): a worker loop that polls its task queue 200 times in one "
           "turn without consulting a simulated terminate flag is declared blind to it (stays alive: worker-left-behind); "
           "a parent that polls more than 60 times for one task is declared stuck; every simulated case runs under a "
           "limit of 20 s of processor time (SIGPROF) and 300 s of wall time (SIGALRM): run-blocks-forever"]

ALPHA = ["equal", "different", "player_raises", "extractor_raises", "exit0", "exit1", "hang", "hang_deaf",
         "slow:1", "slow:2", "slow:3", "slow:4", "slow:5", "unloadable", "put_raises"]
W = [22, 3, 3, 3, 9, 9, 10, 8, 3, 3, 3, 3, 2, 8, 4]


def generate(rng, tier):
    cases = []
    n_rand = 260 if tier == "quick" else 2500
    for _ in range(n_rand):
        ids, behs = G.rand_script(rng, ALPHA, W, 12, dup=0.1)
        cases.append(G.mk(ids, behs, rate=rng.choice([1, 1, 2, 2, 3, 5, 0, 7]), timeout=rng.choice([0, 1, 1, 2, 2, 3]),
                          keep=rng.random() < 0.3, consume=G.rand_consume(rng, len(ids))))
    # faults at every position of short runs x rates x abandonment at every point
    alpha = ["equal", "exit0", "hang_deaf", "slow:3"]
    maxlen = 3 if tier == "quick" else 5
    for ids, behs in G.exhaustive(alpha, maxlen):
        n = len(ids)
        for rate in ((1, 2) if tier == "quick" else (1, 2, 3, 5)):
            cases.append(G.mk(ids, behs, rate=rate, timeout=1 + (n + rate) % 3))
            if tier != "quick" or n == maxlen:
                k = (sum(map(len, behs)) + rate) % (n + 1)
                cases.append(G.mk(ids, behs, rate=rate, timeout=1, consume=(["close", "raise", "iter_raises"][(k + rate) % 3], k)))
    # replays whose failure leaves the worker in place (answer the parent cannot load, (False, message) answer,
    # raising stage) at every position of a recycle period: ages must still advance
    stay = ["equal", "unloadable", "put_raises", "player_raises"]
    for ids, behs in G.exhaustive(stay, 3 if tier == "quick" else 5):
        n = len(ids)
        if n >= 2 and any(b != "equal" for b in behs):
            for rate in ((1, 2) if tier == "quick" else (1, 2, 3)):
                cases.append(G.mk(ids, behs, rate=rate, timeout=1 + n % 2, keep=bool(n % 2), probe="worker-stays"))
    # an idle worker that dies - between two replays (dies_before: first, last, after a fault, right after a recycle)
    # or killed at the timeout because its answer never arrived (drops): what it leaves behind where it slept
    # (queue lock, event sleeper) must not stop the run, the next recycle or the clean-up
    idle = ["equal", "dies_before", "drops", "exit0"]
    for ids, behs in G.exhaustive(idle, 3 if tier == "quick" else 4):
        n = len(ids)
        if any(b in ("dies_before", "drops") for b in behs):
            for rate in (1, 2, 3):
                if rate == 3 and (tier == "quick" or n < 3):
                    continue
                cases.append(G.mk(ids, behs, rate=rate, timeout=1, probe="idle-death"))
                if n == 3:
                    k = (sum(map(len, behs)) + rate) % (n + 1)
                    cases.append(G.mk(ids, behs, rate=rate, timeout=1, probe="idle-death",
                                      consume=(["close", "raise", "iter_raises"][(k + rate) % 3], k)))
    # probe stream for the known finding F08: a late answer can make the run block forever / leak a hung worker
    n_probe = 20 if tier == "quick" else 300
    for k in range(n_probe):
        ids, behs = G.rand_script(rng, ALPHA + G.F08_BEH, W + [30, 20, 20], 8, dup=0.0)
        if not any(b in G.F08_BEH for b in behs):
            ids.append(max(ids + [0]) + 1)
            behs.append(G.F08_BEH[k % 3])
        cases.append(G.mk(ids, behs, rate=rng.choice([1, 1, 2, 3]), timeout=rng.choice([1, 2]),
                          consume=G.rand_consume(rng, len(ids)), probe="F08"))
    cases.append(G.mk([1, 2, 3], ["late", "hang", "equal"], rate=1, probe="F08"))     # the refuted theorem's witness
    cases += several_runs(rng, tier)
    from lib import eqreal
    cases += eqreal.real_cases("C13", tier)
    return cases


MULTI_ALPHA = ["equal", "different", "player_raises", "exit0", "exit1", "hang", "hang_deaf", "slow:1", "slow:3",
               "unloadable", "put_raises", "drops"]
MULTI_W = [40, 4, 4, 6, 4, 8, 6, 4, 4, 5, 3, 3]


def mk_multi(runs, schedule, via="direct", rate=2, timeout=1, keep=False, dedicated=True, **extra):
    """runs: [(ids, behs, consume)], ids disjoint between the runs"""
    specs = []
    for ids, behs, consume in runs:
        c = G.mk(ids, behs, consume=consume)
        specs.append(dict(ids=c["ids"], beh=c["beh"], consume=c["consume"]))
    d = dict(kind="multi", via=via, runs=specs, schedule=list(schedule), dedicated=dedicated, rate=rate, timeout=timeout,
             keep=keep)
    d.update(extra)
    return d


def schedules(lens, rng=None):
    """named ways of consuming several generators: one after the other, round robin (zip), the first run ahead by
    one / behind by one, random"""
    steps = [n + 2 for n in lens]
    rr = [k for j in range(max(steps)) for k in range(len(lens)) if j < steps[k]]
    out = {"back-to-back": [], "round-robin": rr, "second-first": [k for k in reversed(range(len(lens))) for _ in range(steps[k])],
           "first-ahead": [0] + rr, "last-ahead": [len(lens) - 1] + rr}
    if rng is not None:
        pool = [k for k in range(len(lens)) for _ in range(steps[k])]
        rng.shuffle(pool)
        out["random"] = pool
    return out


def several_runs(rng, tier):
    """several comparison runs alive in one process - the equalizers of one PlaybackStudio (one lazy generator per
    category) or equalizers built directly - consumed back to back or interleaved: every run must behave exactly as
    it does alone, and once a run has ended none of its workers may be alive after their next poll, whatever the
    other runs do.  Also: one run THROUGH the studio with every fault kind (the studio must hand its equalizers
    the configuration it was given)."""
    cases = []
    # (a) deterministic: two short fault-free / one-fault runs, every schedule, rates 1-3, both routes
    short = [([1, 2], ["equal", "equal"]), ([1, 2, 3], ["equal", "equal", "equal"]), ([1, 2, 3], ["equal", "hang", "equal"]),
             ([1], ["equal"]), ([1, 2, 3, 4], ["equal", "exit0", "equal", "equal"])]
    k = 0
    for a_ids, a_beh in short:
        for b_ids, b_beh in short:
            b_ids = [100 + i for i in b_ids]
            for name, sch in sorted(schedules([len(a_ids), len(b_ids)]).items()):
                k += 1
                if tier == "quick" and k % 2:
                    continue
                rate = 1 + k % 3 if k % 7 else 5
                cases.append(mk_multi([(a_ids, a_beh, ("full",)), (b_ids, b_beh, ("full",))], sch,
                                      via=["direct", "studio"][k % 2], rate=rate, timeout=1 + k % 2, keep=bool(k % 3 == 0),
                                      probe="several-runs:" + name))
    # (b) random: 2-3 runs, any fault, any abandonment, any schedule
    for _ in range(60 if tier == "quick" else 800):
        via = rng.choice(["direct", "studio"])
        runs = []
        for r in range(rng.choice([2, 2, 2, 3])):
            ids, behs = G.rand_script(rng, MULTI_ALPHA, MULTI_W, 6, dup=0.0)
            if via == "studio" and not ids:
                ids, behs = [1], ["equal"]
            ids = [100 * r + i for i in ids]
            consume = G.rand_consume(rng, len(ids))
            if via == "studio" and consume[0] == "iter_raises":
                consume = ("close", consume[1])
            runs.append((ids, behs, consume))
        name, sch = rng.choice(sorted(schedules([len(r[0]) for r in runs], rng).items()))
        cases.append(mk_multi(runs, sch, via=via, rate=rng.choice([1, 2, 2, 3, 5, 0]), timeout=rng.choice([1, 1, 2, 3]),
                              keep=rng.random() < 0.3, probe="several-runs:" + name))
    # (c) ONE run through the studio: each fault kind at each position of a short run, timeouts 0-3, rates 1-3
    alpha = ["equal", "hang", "hang_deaf", "exit1", "slow:2", "drops"]
    k = 0
    for ids, behs in G.exhaustive(alpha, 3):
        k += 1
        if not ids or all(b == "equal" for b in behs) or (tier == "quick" and len(ids) == 3 and k % 4):
            continue
        cases.append(mk_multi([(ids, behs, ("full",) if k % 3 else ("close", len(ids)))], [], via="studio", rate=1 + k % 3,
                              timeout=k % 4, keep=bool(k % 2), probe="through-the-studio"))
    for _ in range(20 if tier == "quick" else 300):
        ids, behs = G.rand_script(rng, MULTI_ALPHA, MULTI_W, 8, dup=0.1)
        if not ids:
            continue
        c = G.rand_consume(rng, len(ids))
        cases.append(mk_multi([(ids, behs, c if c[0] != "iter_raises" else ("full",))], [], via="studio",
                              rate=rng.choice([1, 2, 3, 5, 0, 7]), timeout=rng.choice([0, 1, 2, 3]), keep=rng.random() < 0.3,
                              probe="through-the-studio"))
    return cases


def sub_case(case, k):
    """run k of a multi-run case as a single-run case"""
    sp = case["runs"][k]
    return dict(ids=sp["ids"], beh=sp["beh"], consume=sp.get("consume", ["full"]), dedicated=case["dedicated"],
                rate=case["rate"], timeout=case["timeout"], keep=case["keep"])


def to_gallina(case, obs):
    if case.get("kind") in ("real", "multi"):
        return None      # several runs: each run is compared with the same run alone (which the model covers)
    bad = "Case %s [] Full (Trace [] [] [] (0%%nat, 0%%nat) false false 0%%nat FuelOut)" % G.g_cfg(case)
    if "driver_exception" in obs or "watchdog" in obs:
        return bad
    try:
        workers = glist([gpair(glist([gnat(i) for i in served]), gnat(G.STATE_CODE[s0]), gnat(G.STATE_CODE[s1]))
                         for (_, served, s0, s1) in obs["workers"]])
        events = glist([gpair(gnat(G.EVENT_CODE[k]), gnat(p)) for k, p in obs["events"]])
        out = G.OUTCOMES[obs["outcome"]]
        tr = "(Trace %s %s %s %s %s %s %s %s)" % (glist([gnat(p) for p in obs["polls"]]), workers, events,
                                             gpair(gnat(obs["left"][0]), gnat(obs["left"][1])), gbool(obs["lock"]),
                                             gbool(obs["term"]),
                                             gnat(obs["clock"]), out)
    except (KeyError, TypeError, AssertionError):
        return bad       # something the model cannot express (e.g. an ignored SIGTERM): force a mismatch
    return "Case %s %s %s %s" % (G.g_cfg(case), G.g_script(case), G.g_stop(case), tr)


def explain(case, obs):
    return "model_trace (%s)" % to_gallina(case, obs)


def direct(case, obs):
    if "driver_exception" in obs:
        return [("driver", obs["driver_exception"])]
    if case.get("kind") == "real":
        from lib import eqreal
        return eqreal.direct_c13(case, obs)
    if "watchdog" in obs:
        return [("run-blocks-forever", obs["watchdog"])]
    if case.get("kind") == "multi":
        return direct_multi(case, obs)
    return direct_single(case, obs)


def direct_multi(case, obs):
    fails = []
    want_cfg = [case["keep"], case["dedicated"], case["rate"], case["timeout"]]
    for k, run in enumerate(obs["runs"]):
        sub = sub_case(case, k)
        who = "run %d of %d (%s, %s)" % (k + 1, len(obs["runs"]), case["via"], case.get("probe", ""))
        # the equalizer of this run enforces the configuration the caller gave (to the studio / to the equalizer)
        if run.get("cfg_seen") != want_cfg:
            fails.append(("configuration-not-handed-on", "%s: configured [keep, dedicated, recycle rate, timeout] = %s, the "
                          "run's equalizer has %s" % (who, want_cfg, run.get("cfg_seen"))))
        if run["outcome"] in ("not-finished", "no-generator"):
            if run["outcome"] == "no-generator":
                fails.append(("run-aborted", "%s: no comparison generator" % who))
            continue
        run = dict(run, why=obs.get("why"))
        fails += [(sg, "%s: %s" % (who, m)) for sg, m in direct_single(sub, run)]
        # ... and the run is the run it is alone: verdicts, polls per task, tasks per worker, births and deaths
        alone = obs["alone"][k]
        for key in ("cmps", "outcome", "workers", "polls", "events", "left", "lock", "term", "max_live"):
            if run[key] != alone[key] and run["outcome"] != "deadlock":
                fails.append(("runs-interfere", "%s: %s is %s, alone it is %s" % (who, key, run[key], alone[key])))
                break
        if run.get("still_alive"):
            fails.append(("worker-left-behind", "%s: worker(s) %s still alive when every run has ended"
                          % (who, run["still_alive"])))
    return fails


def direct_single(case, obs):
    fails = []
    ids, T, rate = case["ids"], case["timeout"], case["rate"]
    known = G.f08_sig(case)

    def sig(s):
        return known or s

    n = G.expected_count(case)
    cmps = obs["cmps"]
    # (1) the run finishes and continues after every fault
    if obs["outcome"] == "deadlock":
        fails.append((sig("run-blocks-forever"), "parent blocks forever after %d of %d recordings (%s)"
                      % (len(cmps), n, obs.get("why") or "join of a hung worker")))
    elif obs["outcome"] in ("abort-exit", "blocks"):
        fails.append(("run-aborted", "run ended with %s" % obs["outcome"]))
    elif len(cmps) != n:
        fails.append(("run-did-not-continue", "%d comparisons for %d recordings" % (len(cmps), n)))
    # (2) bounded wait: at most timeout + 1 one-second polls per task
    for k, p in enumerate(obs["polls"]):
        if p > T + 1:
            fails.append(("too-many-polls", "task #%d was waited for with %d polls, timeout %d s" % (k, p, T)))
            break
    # (3) a fault is reported as a failure, a replay within the timeout is not
    for k, c in enumerate(cmps[:n]):
        b = G.beh_of(case, ids[k])
        f = G.fatal_dedicated(b, T)
        if f and c[1] != "EqualizerFailure":
            fails.append((sig("fault-not-reported"), "r%s (%s) got status %s" % (ids[k], b, c[1])))
        if f is False and c[2] in ("timeout", "died"):
            fails.append((sig("premature-failure"), "r%s (%s) reported as '%s' with timeout %d s" % (ids[k], b, c[2], T)))
    # (4) tasks are served once, in order; after a fault the next task is served by a fresh worker
    order = [(w[0], j, i) for w in obs["workers"] for j, i in enumerate(w[1])]
    never = set(i for i in ids if G.beh_of(case, i) == "dies_before")    # their worker died before taking them
    served_ids = [i for (_, _, i) in order if i not in never]
    if obs["outcome"] == "deadlock":
        pass
    elif served_ids != [i for i in ids[:len(cmps)] if i not in never]:
        fails.append((sig("task-not-served-once"), "tasks taken by the workers %s, recordings %s" % (served_ids, ids[:n])))
    elif not never:
        for k in range(len(order) - 1):
            if G.fatal_dedicated(G.beh_of(case, ids[k]), T) and (order[k + 1][1] != 0 or order[k + 1][0] <= order[k][0]):
                fails.append((sig("no-fresh-worker-after-fault"),
                              "r%s (%s) was followed by r%s on worker #%d as its task #%d"
                              % (ids[k], G.beh_of(case, ids[k]), ids[k + 1], order[k + 1][0], order[k + 1][1] + 1)))
                break
    # (5) no worker is handed more than max(1, rate) tasks
    for w in obs["workers"]:
        if len(w[1]) > max(1, rate):
            fails.append((sig("worker-over-age"), "worker #%d took %d tasks, recycle rate %d" % (w[0], len(w[1]), rate)))
            break
    # (6) no worker is left: dead, or idle and told to terminate (and gone at its next poll); never two alive
    for w in obs["workers"]:
        ok_now = w[2].startswith("dead") or (w[2] == "idle" and obs["term"])
        if not ok_now or not w[3].startswith("dead"):
            fails.append((sig("worker-left-behind"),
                          "worker #%d is '%s' when the run ends (terminate flag %s) and '%s' after its next poll"
                          % (w[0], w[2], obs["term"], w[3])))
            break
    if obs["max_live"] > 1:
        fails.append((sig("two-live-workers"), "%d workers alive at the same time" % obs["max_live"]))
    return fails


def features(case):
    if case.get("kind") == "multi":
        f = set(["mode:several-runs-in-one-process" if len(case["runs"]) > 1 else "mode:one-run-through-the-studio",
                 "via:" + case["via"], "runs=%d" % len(case["runs"]), "probe:" + case.get("probe", "-")])
        for k in range(len(case["runs"])):
            f |= set(x for x in G.features(sub_case(case, k)) if x.startswith(("beh:", "consume:", "rate=", "timeout=")))
        return f
    return G.features(case)


def nontrivial(case):
    if case.get("kind") == "multi":
        return len(case["runs"]) > 1 or any(nontrivial(sub_case(case, k)) for k in range(len(case["runs"])))
    return any(G.fatal_dedicated(G.beh_of(case, i), case["timeout"]) or G.beh_of(case, i) in G.ANSWER_BEH
               for i in case["ids"]) or case.get("consume", ["full"])[0] != "full"


def shrink_candidates(case):
    from props import c08
    if case.get("kind") == "multi":
        return shrink_multi(case)
    return c08.shrink_candidates(case)


def shrink_multi(case):
    from props import c08
    runs = case["runs"]
    if len(runs) > 1:
        for k in range(len(runs)):
            yield dict(case, runs=runs[:k] + runs[k + 1:],
                       schedule=[j - (j > k) for j in case["schedule"] if j != k])
    for k in range(len(runs)):
        for c in c08.shrink_candidates(sub_case(case, k)):
            if case["via"] == "studio" and not c["ids"]:
                continue
            yield dict(case, runs=runs[:k] + [dict(ids=c["ids"], beh=c["beh"], consume=c["consume"])] + runs[k + 1:])
    if case["schedule"]:
        yield dict(case, schedule=[])


def search_harder(rng, bad_cases):
    out = []
    # (real-process scripts are fixed anchors with margins of their own - a timeout far above the moment of the interrupt, a
    # watchdog above the timeout -: no variants of them)
    for c in [b for b in bad_cases if b.get("kind") not in ("multi", "real")][:10]:
        for rate in (1, 2, 3):
            for mode in ("full", "close"):
                out.append(dict(c, rate=rate, consume=[mode] if mode == "full" else [mode, max(1, len(c["ids"]) - 1)]))
    return out + generate(rng, "quick")[:200]


MANIFEST = dict(
    design_ref='6/C13',
    text="Coq theorems over all scripts, recycle rates, timeouts and abandonment points about the same hand-written model of the equalizer's dispatch / wait / timeout / recycle logic and worker loop as C08: the wait for one result performs at most timeout+1 one-second polls and never runs out of fuel (for every script, late answers included); for scripts of hangs, exits, slow answers and answers the parent cannot use (unloadable item, (False, message)) the run always completes, its modelled duration is the sum of the per-recording costs, after a fault no worker is alive and the next recording is served by a worker that has served nothing else, no worker takes more than max(1, rate) tasks, and after completion or abandonment after any number of yields every worker is dead or idle-and-told-to-terminate and dead after one more step; the late-answer case (parent blocks forever in join, hung worker leaked) is refuted with a witness (known finding F08). Tie: the REAL Equalizer over fake multiprocessing/clock/kill; the full trace (polls per task, tasks per worker, worker states, births/deaths/kills, queue leftovers, flag, clock) is compared with the model by vm_compute; the simulator also tracks where an idle worker sleeps (a worker that dies inside Queue.get leaves the read lock held, one that dies inside Event.wait stays a registered sleeper and the next Event.set blocks forever), with streams of idle deaths (worker dies before taking its task, idle worker killed at the timeout) and of failures that leave the worker in place at every position of short runs; several runs alive in one simulated process (equalizers built directly or by one PlaybackStudio, consumed back to back or interleaved under named and random schedules) must each equal the same run alone (verdicts, polls per task, tasks per worker, births/deaths, flag, leftovers) and leave no worker alive after its next poll once the run has ended, and a run started through PlaybackStudio must carry and enforce the configured timeout / recycle rate / flags (implementation-only cases: the single-run model covers each run alone); direct predicate on the simulator's observables and, in the thorough tier (four anchor scripts also in the quick tier), on real processes (no active children within ~1.5 s after completion/abandonment - by close, consumer exception or Ctrl-C to the process group during a hung replay -, tasks per worker pid <= rate, wall time per comparison bounded).",
    note='Trusted: Coq kernel + vm_compute; hand-written model; the scheduling implemented by the fake multiprocessing layer; os.kill(SIGKILL) succeeds; real wall time, zombies and signal delivery are not claimed by theorem (real-process scripts sample them, an anomaly must reproduce three times).',
    technique='Coq proof (invariant over the parent loop, measure on the wait loop) + model/implementation correspondence by vm_compute over a deterministic multiprocessing simulator + real-process sampling',
)
