"""C05 - a recording is persisted whole or not at all, and finalised exactly once."""
from lib import recdsl as rd
from props.rec_common import *  # noqa: F401,F403
from props import race_common as rc
from props import rec2_cases as r2
from props.c04 import static_gate  # noqa: F401  (atomic-region reduction of the racing-threads model)

ID = "C05"
LOG_LEVEL_INVARIANT = True      # (harness/vp.py: a sample of the cases again with logging at DEBUG; same observables)
RUN_MODULE = "RunC05"
RULE = ("one case = recorded operations (faults, discards, sampling outcomes, ordinary and interrupt-style terminations at "
        "random steps incl. inside intercepted bodies) each followed by a replay of what was saved on the unchanged "
        "program; histories of three operations of one process whose intercepted inputs get equal-but-differently-typed "
        "arguments (1 / True / 1.0, 0 / False / 0.0, pairs of them; same or different functions; every order), saved to a "
        "file cassette and replayed in the recording process AND in another interpreter (also the last replay of ten of the "
        "random histories); a file cassette after operations that captured a value the serializer refuses (input result / output "
        "argument / record_data value / operation result; kind file_store, implementation only): every created recording is "
        "fetched whole or is absent, the category lookup lists exactly the whole ones and each of them replays; non-trivial = at least one interception or fault; distinct = distinct history")
ASSUMPTIONS = ["a cassette whose create_new_recording / abort_recording raise is outside the tolerated fault list",
               "threads: as for C04 - the methods that touch the active recording are modelled access by access "
               "(Recorder/Threads.v), any number of threads, any schedule, a locked region is one step; the program-level "
               "theorems (rec_exec, record_run) are about one thread"]
THEOREMS = ["C05_abort_at_most_once", "C05_finalised_exactly_once", "C05_saved_only_if_captured",
            "C05_finalised_exactly_once_under_any_interleaving", "C05_legacy_refuted"]

INTERRUPT_KINDS = ["custom", "keyboard", "sysexit", "genexit"]   # which BaseException an "interrupt" of the program is
W = dict(rd.DEFAULT_W, fault=0.3, unser=0.05, handler=0.35, discard=0.8, force=0.6, enable=0.35, prep_discards=0.1,
         interrupt=0.15, raise_=0.25, playdata=0.1, recdata=0.4)


def stale_state_history(rng):
    """Operation A captures some outputs and is then discarded / hits a capture fault; operation B on the same recorder
    uses the same output alias and is replayed: B's recording must be numbered from 1 and replay cleanly."""
    def out(alias, i, handler="none"):
        return {"k": "out", "cfg": dict(alias=alias, static=True, handler=handler, fail=True, default={"t": "none"}),
                "body": {"k": "ret", "e": {"lit": {"t": "int", "v": 100 + i}}}, "args": [{"lit": {"t": "int", "v": i}}], "kwargs": []}

    def chain(stmts, term):
        c = term
        for st in reversed(stmts):
            st = dict(st)
            st["next"] = c
            c = st
        return c
    alias = rng.choice(["send", "w"])
    na = rng.randrange(1, 4)
    fault = rng.choice(["discard", "handler", "interrupt", "disabled-discard"])
    a_stmts = [out(alias, i) for i in range(na)]
    if fault == "discard":
        a_stmts.append({"k": "discard"})
    elif fault == "disabled-discard":
        # recording is switched off on the way (a feature flag refresh), then the operation discards: nothing may be saved
        a_stmts += [{"k": "enable", "b": False}, {"k": "discard"}, {"k": "enable", "b": True}]
    elif fault == "handler":
        a_stmts.append(out(alias, 9, handler="raises"))
    term_a = {"k": "interrupt"} if fault == "interrupt" else {"k": "ret", "e": {"lit": {"t": "int", "v": 1}}}
    opa = dict(cls="OpA", classlevel=False, extractor={"kind": "none"}, body=chain(a_stmts, term_a))
    opb = dict(cls="OpA", classlevel=False, extractor={"kind": "none"},
               body=chain([out(alias, i) for i in range(rng.randrange(1, 4))], {"k": "ret", "e": {"var": 0}}))
    prm = dict(rate=[1, 1], ignore=False, skipped=False, copy=False)
    return [dict(kind="record", enabled=True, prm=prm, op=opa, save_fails=False),
            dict(kind="play", target=0, pf={"kind": "op", "op": rd.clean(opa)}, enabled=False),
            dict(kind="record", enabled=True, prm=prm, op=opb, save_fails=False),
            dict(kind="play", target=1, pf={"kind": "op", "op": rd.clean(opb)}, enabled=False)]


def _lit(t, v):
    return {"t": "float", "r": repr(float(v))} if t == "float" else {"t": t, "v": {"int": int, "bool": bool}[t](v)}


# argument tuples that Python considers equal (and hashes alike) although they are different values with different
# encodings: 1 == True == 1.0, 0 == False == 0.0
EQUAL_GROUPS = [[[("int", 1)], [("bool", 1)], [("float", 1)]],
                [[("int", 0)], [("bool", 0)], [("float", 0)]],
                [[("int", 1), ("int", 0)], [("bool", 1), ("bool", 0)], [("float", 1), ("int", 0)]],
                [[("int", 1), ("bool", 0)], [("float", 1), ("float", 0)], [("bool", 1), ("int", 0)]]]


def equal_arguments_history(rng, k):
    """A long-lived recording process: 3 operations in ONE interpreter call intercepted inputs (the same function or three
    different ones) with argument tuples that are equal in Python's eyes but differently typed; every recording is saved to
    a FILE cassette and replayed on the unchanged program twice: in the recording process and in ANOTHER interpreter (as the
    studio does).  The key of a call is a function of the call, not of what the process intercepted earlier."""
    group = EQUAL_GROUPS[k % len(EQUAL_GROUPS)]
    order = [[0, 1, 2], [1, 2, 0], [2, 0, 1], [0, 2, 1], [1, 0, 2], [2, 1, 0]][(k // len(EQUAL_GROUPS)) % 6]
    same_alias = (k // 3) % 2 == 0
    static = k % 2 == 0
    runs = []
    for n, j in enumerate(order):
        alias = "load" if same_alias else ["load", "get_user", "db.fetch"][n]
        cfg = dict(alias=alias, resolver={"kind": "none"}, cap=None, static=static, property=False, handler="none",
                   prep_discards=False, run_missing=False, vmiss={"kind": "none"}, fallbacks={"kind": "none"})
        body = {"k": "in", "cfg": cfg, "body": {"k": "ret", "e": {"lit": {"t": "int", "v": 10 + j}}},
                "args": [{"lit": _lit(t, v)} for t, v in group[j]], "kwargs": [],
                "next": {"k": "out", "cfg": dict(alias="send", static=True, handler="none", fail=True, default={"t": "none"}),
                         "body": {"k": "ret", "e": {"lit": {"t": "none"}}}, "args": [{"var": 0}], "kwargs": [],
                         "next": {"k": "ret", "e": {"var": 0}}}}
        op = dict(cls=["OpA", "OpB", "Op_C"][n] if k % 4 == 3 else "OpA", classlevel=False, extractor={"kind": "none"}, body=body)
        runs.append(dict(kind="record", enabled=True, prm=dict(rate=[1, 1], ignore=False, skipped=False, copy=False), op=op,
                         save_fails=False))
        runs.append(dict(kind="play", target=n, pf={"kind": "op", "op": rd.clean(op)}, enabled=False, fresh_process=True))
    return dict(interrupt_kind="custom", draws=[], runs=runs, cassette="file", stream="equal-arguments-other-interpreter")


def to_gallina(case, obs):     # noqa: F811
    if r2.is_rec2(case):
        return None          # (implementation only: the store's own state is outside the model)
    if rc.is_race(case):
        return rc.to_gallina(case, obs)
    from props import rec_common
    t = rec_common.to_gallina(case, obs)
    return None if t is None else "H (%s)" % t


def explain(case, obs):        # noqa: F811
    if r2.is_rec2(case):
        return "0%nat"
    if rc.is_race(case):
        return rc.explain(case, obs)
    from props import rec_common
    return "explain_case (%s)" % rec_common.to_gallina(case, obs)


_hist_features, _hist_nontrivial = features, nontrivial     # (from rec_common)


def features(case):      # noqa: F811
    if r2.is_rec2(case):
        return r2.features(case)
    if rc.is_race(case):
        return rc.features(case)
    fs = _hist_features(case)
    if case.get("stream"):
        fs.add("stream:" + case["stream"])
    if any(r.get("fresh_process") for r in case["runs"]):
        fs.add("saved-recording-replayed-in-another-interpreter")
    return fs


def nontrivial(case):    # noqa: F811
    return True if rc.is_race(case) or r2.is_rec2(case) else _hist_nontrivial(case)


def shrink_candidates(case):     # noqa: F811
    if rc.is_race(case) or r2.is_rec2(case):
        return
    from props import rec_common
    for c in rec_common.shrink_candidates(case):
        yield c


def generate(rng, tier):
    cases = rc.race_cases(rng, tier)
    for _ in range(24 if tier == "quick" else 200):
        cases.append(dict(interrupt_kind=rng.choice(INTERRUPT_KINDS), draws=[], runs=stale_state_history(rng), cassette="memory"))
    n = 240 if tier == "quick" else 4000
    for i in range(n):
        runs = []
        nrec = 0
        for _ in range(rng.choice([1, 2, 3])):
            op = rd.rand_opdef(rng, W, budget=rng.choice([6, 10, 16]))
            runs.append(dict(kind="record", enabled=rng.random() < 0.95, prm=rd.rand_prm(rng), op=op,
                             save_fails=rng.random() < 0.1))
            runs.append(dict(kind="play", target=nrec, pf={"kind": "op", "op": rd.clean(op)}, enabled=rng.random() < 0.5))
            nrec += 1
        cases.append(dict(interrupt_kind=rng.choice(INTERRUPT_KINDS), draws=rd.rand_draws(rng, 12), runs=runs, cassette="memory"))
    # replays in ANOTHER interpreter: equal-but-differently-typed arguments across the operations of one process (every order
    # of the three variants: 8 histories x 3 replays in the quick tier), and the last replay of some of the random histories
    for k in range(8 if tier == "quick" else 48):
        cases.append(equal_arguments_history(rng, k))
    done = 0
    for c in cases:
        if done >= (10 if tier == "quick" else 60):
            break
        if not rc.is_race(c) and c.get("cassette") == "memory" and c["runs"][-1]["kind"] == "play" and not c.get("stream"):
            c["cassette"] = "file"
            c["runs"][-1]["fresh_process"] = True
            done += 1
    # the store itself after saves that fail in the encoder (persistent cassette; lookup and replay of the good recordings)
    cases += r2.file_store_cases()
    return cases


def direct(case, obs):
    if "driver_exception" in obs:
        return [("driver", obs["driver_exception"] + obs.get("trace", "")[-400:])]
    if rc.is_race(case):
        return rc.direct_finalisation(case, obs)
    if r2.is_rec2(case):
        return r2.direct_file_store(case, obs)
    if f07c_affected(obs):
        return []          # region of known finding F07c (reported by C01): nothing is concluded from such a case
    fails = []
    finals = {}
    created = 0
    for i, (run, ob) in enumerate(zip(case["runs"], obs["runs"])):
        cs = ob["cass"]
        if run["kind"] == "record":
            kinds = [c["c"] for c in cs]
            ncreate = kinds.count("create")
            fin = [c for c in cs if c["c"] in ("save", "savefailed", "abort")]
            if ncreate > 1:
                fails.append(("two-creates", "run %d: %s" % (i, kinds)))
            if ncreate == 0 and fin:
                fails.append(("finalised-without-create", "run %d: %s" % (i, kinds)))
            if ncreate == 1:
                if len(fin) == 0:
                    fails.append(("never-finalised", "run %d: recording created and neither saved nor aborted: %s" % (i, kinds)))
                elif len(fin) > 1:
                    fails.append(("finalised-twice", "run %d: %s" % (i, kinds)))
                if any(c.get("ord", created) != created for c in fin):
                    fails.append(("finalised-other-recording", "run %d: %s" % (i, cs)))
                created += 1
                saved = [c for c in fin if c["c"] == "save"]
                aborted = [c for c in fin if c["c"] == "abort"]
                if saved and aborted:
                    fails.append(("saved-and-aborted", "run %d" % i))
                # saved although a capture failed / it was discarded?  (journal of the DSL program, no model)
                if saved and "discarded" in capture_failures(run, ob):
                    fails.append(("saved-after-discard", "run %d: the program discarded / a capture failed, yet a recording "
                                  "was saved" % i))
                if saved:
                    why = missing_captures(run, ob, saved[0])
                    if why:
                        fails.append(("saved-without-capture", "run %d: %s" % (i, why)))
                finals[created - 1] = (run, saved[0] if saved else None)
        else:
            src = finals.get(run["target"])
            if src and src[1] is not None:
                rrun, sv = src
                meta = dict((k, v) for k, v in sv["meta"])
                incomplete = meta.get("_tape_recorder_incomplete_recording", {}).get("v")
                body = rrun["op"]["body"]
                plain = not rd.has_stmt(body, ("enable", "playdata", "recdata")) and rd.clean(run["pf"].get("op")) == rd.clean(rrun["op"])
                if plain and incomplete is False and ob["outcome"] == {"o": "exn", "e": "KeyMissing"}:
                    fails.append(("saved-recording-misses-a-key", "run %d: a saved, complete recording replayed on the "
                                  "unchanged program raised RecordingKeyError" % i))
                fr = ob.get("fresh")
                if fr is not None and "skipped" not in fr:
                    if "error" in fr:
                        fails.append(("replay-in-another-interpreter-failed", "run %d: %s" % (i, fr["error"])))
                    elif plain and incomplete is False and fr["outcome"] == {"o": "exn", "e": "KeyMissing"}:
                        fails.append(("key-missing-in-another-interpreter", "run %d: a saved, complete "
                                      "recording (keys: %s) replayed on the unchanged program in a fresh interpreter raised "
                                      "RecordingKeyError%s" % (i, [k for k, _ in sv["data"] if k.startswith("input: ")][:3],
                                                               "" if ob["outcome"] == fr["outcome"] else
                                                               " (the replay inside the recording process gave %s)" % ob["outcome"])))
                    elif plain and incomplete is False and fr["outcome"] != ob["outcome"]:
                        fails.append(("replay-differs-in-another-interpreter", "run %d: replay in the recording process gave "
                                      "%s, in a fresh interpreter %s" % (i, ob["outcome"], fr["outcome"])))
    return fails


def capture_failures(run, ob):
    """Model-free: did the executed program reach a discard_recording() statement while a recording was active
    (journalled by the driver's interpreter), or did the cassette see an abort?"""
    kinds = [c["c"] for c in ob["cass"]]
    if "abort" in kinds or any(j["j"] == "discard" and j["active"] for j in ob.get("journal", [])):
        return {"discarded"}
    return set()


def outermost_completed(trace):
    """(kind, alias) of every outermost intercepted call that returned or raised an ordinary exception."""
    out, depth, stack = [], 0, []
    for e in trace:
        if e["e"] == "begin":
            stack.append(e)
        elif e["e"] == "call":
            b = stack.pop()
            if not stack and e["o"]["o"] != "int":
                out.append((b.get("kind"), b["alias"]))
    return out


def missing_captures(run, ob, saved):
    """For a saved recording of a program that never switches recording off: every outermost completed output call must
    have its '.output' and '.result' entries, and completed input calls must have left at least one 'input:' entry."""
    if rd.has_stmt(run["op"]["body"], ("enable",)):
        return None
    calls = outermost_completed(ob["trace"])
    keys = [k for k, _ in saved["data"]]
    nout = {}
    for kind, al in calls:
        if kind == "out":
            nout[al] = nout.get(al, 0) + 1
    for al, n in nout.items():
        for suffix in (".output", ".result"):
            have = sum(1 for k in keys if k.startswith("output: %s #" % al) and k.endswith(suffix))
            if have < n:
                return "output alias %r was called %d times, the saved recording holds %d '%s' entries" % (al, n, have, suffix)
    import re
    ords = {}
    for k in keys:
        m = re.match(r"^output: (.*) #(\d+)\.output$", k)
        if m:
            ords.setdefault(m.group(1), set()).add(int(m.group(2)))
    for al, st in ords.items():
        if st != set(range(1, len(st) + 1)):
            return "the output entries of alias %r are numbered %s instead of 1..%d" % (al, sorted(st), len(st))
    if any(kind == "in" for kind, _ in calls) and not any(k.startswith("input: ") for k in keys):
        return "intercepted inputs completed but the saved recording holds no input entry"
    return None


MANIFEST = dict(
    design_ref="6/C05",
    text="Coq theorems for every program, recorder state, fault placement and termination mode: the recorder-state "
         "invariant step_inv through rec_exec (an active recording stays active with no abort, or is aborted exactly once "
         "and the recorder reset; nothing is written or aborted without one), hence every decorated-operation run creates "
         "at most one recording and finalises it exactly once (save / failed save / abort), a save implies no discard, no "
         "capture failure, a 'keep' decision and a snapshot holding every write of the run. Model tied to /repo by running "
         "fault-laden programs with all termination modes on a real TapeRecorder with a spy cassette and comparing the "
         "cassette call sequence and saved snapshots; direct predicate counts finalisations per created recording and "
         "replays every saved, complete recording on the unchanged program (no missing-key error) - in the recording process "
         "and, for file-cassette histories incl. equal-but-differently-typed key arguments, in a fresh interpreter. Racing threads "
         "(Recorder/Threads.v, any number of threads, any schedule): the recording is handed to the cassette at most once "
         "at every moment and exactly once when it is gone and every thread is between calls "
         "(C05_finalised_exactly_once_under_any_interleaving; the code before /repo 359c201 refuted by C05_legacy_refuted); "
         "tied to /repo by deterministic preemption of the real methods before every shared access (race_driver.py).",
    note="Trusted: Coq kernel + vm_compute, hand-written model, correspondence harness (spy cassette around the real "
         "in-memory cassette). The clause 'a saved complete recording replays without a missing-key error' is proved "
         "under C01's hypotheses (Properties/C01.v) and searched directly here. Cassettes whose create/abort raise are "
         "outside the tolerated faults. Threads are modelled at the granularity of accesses to the recorder's shared "
         "fields, a locked region being one step (trusted reduction, source-gated in C04's check).",
    technique="Coq proof (invariant by structural induction, transitive step relation) + differential correspondence by "
              "vm_compute + finalisation counting on a spy cassette")
