"""C10 - lookup returns exactly the matching recordings, identically on all cassettes."""
import datetime
import json
import random

from lib import pyvals as pv
from lib.gallina import gZ, gnat, glist, gopt, gstr, gpair, gbool
from props.c14 import spec_match, has_class_pattern

ID = "C10"
LOG_LEVEL_INVARIANT = True      # (harness/vp.py: a sample of the cases again with logging at DEBUG; same observables)
RUN_MODULE = "RunC10"
DRIVER = "lookup_driver.py"
SHARD = 250
MAX_DRIVER_SHARDS = 6
RULE = ("one case = one history of saves (categories Op/OpX/Op_Y/O/Op_ or, every fifth history, categories named like "
        "the storage layout's own literals: metadata/Op_metadata/metadata_/full/tape_recorder_recordings/p/json; re-saves, "
        "metadata with absent keys and the incomplete flag True/False/None/absent) on the three real cassettes + one "
        "lookup (category, filter from the C14 universe incl. every way a caller can constrain the incomplete flag "
        "himself, limit, ordered/real-RNG/scripted-RNG listing, S3 key prefix, optional time window, through "
        "iter_recording_ids or find_matching_recording_ids with skip_incomplete on/off); deterministic streams: prefix "
        "categories x key prefixes, layout-literal categories x key prefixes x (plain / filter / window), flag values x "
        "lookups, caller's flag filters x default lookup, day folders x limits x merge schedules, string filters that are "
        "fnmatch patterns with character classes / ranges / negations / brackets made literal (alone, as a list "
        "alternative, next to another key) x stored texts that match, do not match or ARE the pattern text x plain / "
        "default lookup x key prefixes, plus random histories of short texts looked up with random patterns over the "
        "alphabet ab1[]!-*?x; histories with saves that FAIL "
        "part-way on S3 (the bucket refuses the first or the second put of a save, alone or with everything after it: of a new recording, of a stored one, of "
        "one that is saved successfully on a retry; such a save stores nothing on the other cassettes) x key prefixes x "
        "lookups + a random stream of such histories; lookups with a time window (start = now - 1h as the default "
        "lookup is used, start + end at / just before now, end only, two day folders; plus every third windowed lookup of the "
        "streams above) in a process whose time zone is NOT UTC (TZ + time.tzset() per case: America/New_York, "
        "Pacific/Pago_Pago west, Asia/Kolkata, Pacific/Kiritimati east of UTC) - same expected answer as on a UTC host; "
        "categories that are glob patterns when read as one (Handler[Order], Repo[int], a[b]c, x*y, q?, [, a[!b], [a-c]x, "
        "*, []], Op[_]Y) next to the categories those patterns would select, on all three cassettes x plain / filtered / "
        "limited / default / windowed lookup x key prefixes + a random stream of histories over them; windows of 3-8 day "
        "folders whose matches all sit in ONE or two of them (first / middle / last day; the other folders empty) x limit 2, 3, "
        "5, more than the matches, none x ordered / scripted round-robin x plain / filtered / default lookup, explicit end "
        "and end = now (more day prefixes than the limit and fewer: min(limit, matches) either way); lookups INTERLEAVED with "
        "the saves: the case's lookup is also made at given points of the history (answers discarded) through the objects "
        "that make the final lookup - a second cassette object on the same directory / bucket, or the saving objects - and "
        "recordings those earlier lookups saw are saved again with other metadata (tenant a -> b, b -> a, incomplete -> "
        "complete, key dropped) x filters / default lookup / limit + copies of random-stream lookups over histories with "
        "re-saves: the answer depends on what is saved now; non-trivial = the lookup "
        "selects a non-empty proper subset of the stored recordings; distinct = distinct (history, lookup)")
EXHAUSTIVE = {"quick": False, "thorough": False}
ASSUMPTIONS = [
    "categories contain no '/' (and, for the file cassette, no '.'); uuid texts contain no '/', '_' or '.' (hex)",
    "strftime('%Y%m%d') is injective on days and contains no '/'; the clock is the fake one and answers UTC for today() and "
    "utcnow() alike, also in the cases that run with a non-UTC process time zone (those vary what the C library / "
    "datetime.astimezone / time.mktime make of a naive datetime, not the day folder a save goes to)",
    "categories are arbitrary texts without '/' (and '.' on the file cassette), including glob / fnmatch metacharacters "
    "[ ] * ? !: a category is never a pattern",
    "file names are usable on the file system (no NUL, length, case folding) - outside the domain",
    "os.listdir order, random.shuffle and random.choice are arbitrary (oracles); uuid1 texts come from the case",
    "limit is None or >= 1 (limit=0 means 'no limit' on the in-memory/file cassette and 'nothing' on S3: recorded as "
    "an observation, not part of the theorem or of the count rule)",
    "cassettes_agree: metadata is JSON-native (S3 matches on json.loads of the encoded metadata)",
    "a save that raised did not save: the model is run on the successful saves only (C15 proves that a save interrupted after "
    "any of its bucket mutations leaves nothing that lookup can discover without being fetchable); the direct predicate "
    "checks it on the implementation (not listed, or at least fetchable - the recording of a failed save must not be listed)",
    "the bucket holds no foreign key under this cassette's metadata root (C15 owns confinement); sibling key "
    "prefixes are exercised as decoys on the implementation side (with a category called 'metadata' only those "
    "siblings whose root is not inside this cassette's root: layout_decoys)",
]
ASSUMPTIONS.append(
    "fnmatch on two strings is an oracle in the theorems (section variable glob); in the runs the model side uses "
    "Cassette.GlobClass.glob_fn (fnmatch.translate of CPython 3.12 incl. character classes; equals the simple instance "
    "on bracket-free patterns: glob_fn_simple) and the direct predicate uses Python's own fnmatch (c14.spec_match)")
TRUSTED = ["fake bucket behind the real S3BasicFacade; fake clock; uuid.uuid1 replaced by the case's hex text; "
           "scripted RNG (shuffle = reverse, choice = scripted index) for random:2 cases",
           "harness-side re-statement of the lookup meaning (expected) used as direct predicate, with c14.spec_match"]

H = 3600 * 10**6
DAY = 24 * H
BASE = datetime.datetime(2020, 2, 27)
INC = "_tape_recorder_incomplete_recording"
CATS = ["Op", "OpX", "Op_Y", "O", "Op_"]
KPS = ["", "p", "p/q", "pq", "metadata", "xmetadata/y"]
# categories whose text collides with the storage layout's own literals (key templates
# 'tape_recorder_recordings/{key_prefix}metadata/{id}' / '.../full/{id}', a key prefix, the file suffix): the id has to
# be recovered from the key / file name whatever the category text is
LCATS = ["metadata", "Op_metadata", "full", "tape_recorder_recordings", "p", "Op", "json", "metadata_"]
DECOYS = {'': ['metadata', 'p'], 'p': ['pq', 'p/q', ''], 'p/q': ['p', 'p/qq'], 'pq': ['p', ''],
          'metadata': ['', 'metadata/metadata'], 'xmetadata/y': ['x', 'xmetadata', 'y']}
# what a caller can say about the flag in his own filter (the default lookup has to override all of them)
FLAG_FILTERS = [pv.b(False), pv.b(True), pv.none(), pv.lst([pv.b(False), pv.none()]), pv.lst([pv.none()]),
                pv.lst([pv.b(True), pv.b(False), pv.none()]), pv.lst([pv.b(True)]),
                pv.dct([("operator", pv.s("=")), ("value", pv.none())]),
                pv.dct([("operator", pv.s("=")), ("value", pv.b(True))]),
                pv.dct([("operator", pv.s("!=")), ("value", pv.b(False))])]


def s3_root(kp):
    return "tape_recorder_recordings/" + ((kp + "/") if kp else "") + "metadata/"


def layout_decoys(kp):
    """Sibling key prefixes whose keys are NOT under this cassette's metadata root (the ASSUMPTION on foreign keys):
    with a category called 'metadata' the sibling prefix 'metadata' of the empty prefix would be inside the root."""
    return [d for d in DECOYS.get(kp, []) if not s3_root(d).startswith(s3_root(kp))]
# categories that are glob / fnmatch patterns when somebody pastes them into one (class-like names of generic types,
# wildcards, a lone or unbalanced bracket, a negated class): a category is a literal text on every cassette - and GPLAIN:
# the texts those patterns would select instead (the category read as a pattern must neither lose its own recordings nor
# pick up these)
GCATS = ["Handler[Order]", "Repo[int]", "a[b]c", "x*y", "q?", "[", "a[!b]", "[a-c]x", "*", "[]]", "Op[_]Y"]
GPLAIN = ["HandlerO", "Repoi", "abc", "xzy", "qa", "ac", "bx", "Op", "]", "Op_Y"]
# process time zones (TZ + time.tzset() in the driver) west and east of UTC, with their offsets on the harness's base
# date: the lookup window is naive UTC whatever the zone of the process is
TZS = ["America/New_York", "Asia/Kolkata", "Pacific/Pago_Pago", "Pacific/Kiritimati"]
TZ_OFFSETS = {"America/New_York": -5 * 3600, "Asia/Kolkata": 5 * 3600 + 1800, "Pacific/Pago_Pago": -11 * 3600,
              "Pacific/Kiritimati": 14 * 3600}
CLASS_NAMES = {1: "lib.pyvals.OpaqueA", 2: "lib.pyvals.OpaqueB"}

# string filter values are fnmatch patterns (tape_cassette.py _match_metadata_value): besides * and ? they may hold
# character classes [seq], negations [!seq], ranges [a-c] and brackets that make a metacharacter literal ([[], []], [*],
# [?]); an opening bracket without a closing one is a literal.  REGIONS = stored values that match some of the patterns,
# values that match none, and the pattern texts themselves (a pattern is not a literal: 'eu-west-[12]' does not select
# the recording whose value is the text 'eu-west-[12]')
REGIONS = ["eu-west-1", "eu-west-2", "eu-west-3", "us-east-1", "eu-west-[12]", "ax", "bx", "cx", "[!a]x", "a[1]", "a*", "a?",
           "ab", "-", "]", "[a-", "eu-west-12", "EU-WEST-1", "Bx", "xbx"]      # longer / other case / match inside only
PATTERNS = ["eu-west-[12]", "eu-west-[!12]", "eu-west-[1-2]", "eu-west-[3-9]", "eu-*-[12]", "eu-west-[[]12]", "e[tu]-west-?",
            "[!a]x", "[a-b]x", "[!a-b]x", "a[[]1[]]", "a[*]", "a[?]", "a[!*]", "[]-]", "[!]]", "[a-", "us-east-[1]",
            "[ue][us]-*"]
PAT_ALPHABET = "ab1[]!-*?x"

ATOMS = [pv.none(), pv.b(True), pv.b(False), pv.i(0), pv.i(1), pv.i(2), pv.fl(3, 2), pv.s(""), pv.s("a"), pv.s("ab"),
         pv.s("a*"), pv.s("?b"), pv.lst([]), pv.lst([pv.i(1)]), pv.dct([("x", pv.i(1))])]
OPS = ["=", "<", "<=", ">", ">=", "!="]


def rand_meta(rng, native=True):
    items = []
    if rng.random() < 0.75:
        items.append(("tenant", pv.s(rng.choice(["a", "b", "ab", "a*"]))))
    if rng.random() < 0.6:
        items.append(("n", rng.choice([pv.i(0), pv.i(1), pv.i(2), pv.fl(3, 2), pv.b(True), pv.none()])))
    r = rng.random()
    if r < 0.3:
        items.append((INC, pv.b(False)))
    elif r < 0.55:
        items.append((INC, pv.b(True)))
    elif r < 0.7:
        items.append((INC, pv.none()))
    if rng.random() < 0.3:
        items.append(("tag", rng.choice(ATOMS)))
    if not native and rng.random() < 0.5:
        items.append(("cls", pv.cls(rng.choice([1, 2]))))
    rng.shuffle(items)
    return [[k, v] for k, v in items]


def rand_hex(rng):
    return "".join(rng.choice("0123456789abcdef") for _ in range(32))


def rand_hist(rng, days=4, native=True, pool=CATS):
    n = rng.choice([0, 1, 2, 3, 5, 6, 8, 10, 12])
    cats = rng.sample(pool, rng.randrange(2, len(pool) + 1))
    ents = []
    for _ in range(n):
        t = rng.randrange(0, days * 24) * H + rng.choice([0, 0, 1, DAY - 1, rng.randrange(H)])
        t = min(t, days * DAY - 1)
        ents.append(dict(cat=rng.choice(cats), uuid=rand_hex(rng), ct=t, t=t, meta=rand_meta(rng, native)))
    for e in list(ents):
        if rng.random() < 0.15:      # the same recording saved again later with other metadata
            ents.append(dict(cat=e["cat"], uuid=e["uuid"], ct=e["ct"], t=e["t"] + rng.choice([1, H, 5 * H, DAY + H]),
                             meta=rand_meta(rng, native)))
    ents.sort(key=lambda e: e["t"])
    return ents


def rand_filter_value(rng):
    k = rng.random()
    if k < 0.4:
        return rng.choice(ATOMS)
    if k < 0.7:
        return pv.lst(rng.sample(ATOMS, rng.randrange(0, 3)))
    return pv.dct([("operator", pv.s(rng.choice(OPS))), ("value", rng.choice(ATOMS))])


def rand_filter(rng, allow_inc=True):
    r = rng.random()
    if r < 0.3:
        return None
    if r < 0.35:
        return []
    keys = ["tenant", "n", "tag", "absent"] + ([INC] if allow_inc else [])
    ks = rng.sample(keys, rng.choice([1, 1, 2]))
    out = []
    for k in ks:
        if k == "tenant" and rng.random() < 0.6:
            v = rng.choice([pv.s("a"), pv.s("a*"), pv.s("?"), pv.lst([pv.s("b"), pv.none()]), pv.s("b")])
        elif k == INC:
            v = rng.choice(FLAG_FILTERS)
        elif k == "n" and rng.random() < 0.5:
            v = rng.choice([pv.i(1), pv.dct([("operator", pv.s(">=")), ("value", pv.i(1))]),
                            pv.dct([("operator", pv.s("<")), ("value", pv.fl(3, 2))]), pv.lst([pv.i(0), pv.none()])])
        else:
            v = rand_filter_value(rng)
        out.append([k, v])
    return out


def rand_query(rng, hist, days=4, pool=CATS):
    q = {}
    cats = sorted({e["cat"] for e in hist}) or ["Op"]
    q["cat"] = rng.choice(cats + cats + pool + ["Zz"])
    q["skip"] = rng.choice([None, None, True, True, False])
    q["filter"] = rand_filter(rng, allow_inc=(q["skip"] is not True or rng.random() < 0.35))
    q["limit"] = rng.choice([None, None, None, 1, 2, 5, 50, 1, 2])
    if rng.random() < 0.03:
        q["limit"] = 0
    q["random"] = rng.choice([0, 0, 1, 2])
    q["sched"] = [rng.randrange(0, 7) for _ in range(rng.randrange(1, 6))]
    q["seed"] = rng.randrange(1000)
    tmax = max([e["t"] for e in hist] + [0])
    q["now"] = tmax + rng.choice([0, 1, H, DAY + H])
    r = rng.random()
    q["start"] = q["end"] = None
    if r < 0.35:
        s = rng.randrange(-6, days * 24) * H + rng.choice([0, 0, 1, 30 * 60 * 10**6])
        q["start"] = s
        if rng.random() < 0.7:
            q["end"] = s + rng.randrange(-2, 60) * H + rng.choice([0, 1, -1])
    elif r < 0.42:
        q["end"] = rng.randrange(0, days * 24) * H
    return q


def targeted(rng):
    """Small deterministic histories for each mechanism named in the property's anchors."""
    u = ["%032x" % (0xabc0 + i) for i in range(12)]
    out = []
    # categories that are prefixes of one another / contain underscores, no filter, every cassette
    h = [dict(cat=c, uuid=u[i], ct=i * H, t=i * H, meta=[["tenant", pv.s("a")]]) for i, c in
         enumerate(["Op", "OpX", "Op_Y", "O", "Op_", "Op", "Op_Y"])]
    for kp in KPS:
        for c in CATS + ["Zz"]:
            for skip in (None, True, False):
                out.append(dict(hist=h, kp=kp, cat=c, filter=None, limit=None, random=0, sched=[0], seed=0,
                                start=None, end=None, now=8 * H, skip=skip))
    # the incomplete flag: True / False / None / absent, default lookup vs plain listing, with a user filter
    flags = [[[INC, pv.b(True)]], [[INC, pv.b(False)]], [[INC, pv.none()]], [], [[INC, pv.b(True)], ["tenant", pv.s("a")]],
             [["tenant", pv.s("a")]], [[INC, pv.b(False)], ["tenant", pv.s("b")]]]
    h2 = [dict(cat="Op", uuid=u[i], ct=i * H, t=i * H, meta=m) for i, m in enumerate(flags)]
    for skip in (None, True, False):
        for f in (None, [], [["tenant", pv.s("a")]], [["tenant", pv.lst([pv.s("b"), pv.none()])]],
                  [["absent", pv.lst([pv.i(3), pv.none()])]], [["absent", pv.dct([("operator", pv.s("=")), ("value", pv.none())])]]):
            for lim in (None, 1, 2, 5, 50):
                out.append(dict(hist=h2, kp="", cat="Op", filter=f, limit=lim, random=0, sched=[0], seed=0,
                                start=None, end=None, now=9 * H, skip=skip))
    # the default lookup under a caller's filter that itself names the flag (alone / next to an ordinary key): the
    # forced skip-incomplete meaning wins whatever the caller said about the flag; plain listings honour the caller
    for fv in FLAG_FILTERS:
        for extra in ([], [["tenant", pv.s("a")]]):
            for pos in (0, 1):
                f = ([[INC, fv]] + extra) if pos == 0 else (extra + [[INC, fv]])
                if pos == 1 and not extra:
                    continue
                for skip, lim in ((True, None), (True, 2), (False, None)):
                    out.append(dict(hist=h2, kp="p", cat="Op", filter=f, limit=lim, random=0, sched=[0], seed=0,
                                    start=None, end=None, now=9 * H, skip=skip))
    # categories named like the storage layout's literals, under every key prefix, with and without a window / filter
    h5 = [dict(cat=c, uuid=u[i], ct=i * 7 * H, t=i * 7 * H, meta=[["tenant", pv.s("ab"[i % 2])]]) for i, c in
          enumerate(LCATS + ["metadata", "Op_metadata", "full"])]
    for kp in KPS:
        for c in LCATS:
            for f, win in ((None, False), ([["tenant", pv.s("a")]], False), (None, True)):
                out.append(dict(hist=h5, kp=kp, decoys=layout_decoys(kp), cat=c, filter=f, limit=None, random=0, sched=[0],
                                seed=0, start=0 if win else None, end=4 * DAY if win else None, now=4 * DAY, skip=None))
    # several day folders, limits, ordered / scripted round-robin / real RNG
    h3 = [dict(cat="Op", uuid=u[i], ct=t, t=t, meta=[["n", pv.i(i % 3)]]) for i, t in
          enumerate([1 * H, 2 * H, 3 * H, DAY + H, DAY + 2 * H, 2 * DAY + H, 2 * DAY + 2 * H, 2 * DAY + 3 * H, 3 * DAY + 1])]
    for lim in (None, 1, 2, 3, 5, 8, 9, 50):
        for rnd, sched in ((0, [0]), (2, [0]), (2, [1, 0, 2]), (2, [3, 1, 4, 1, 5]), (1, [0])):
            for f in (None, [["n", pv.dct([("operator", pv.s(">=")), ("value", pv.i(1))])]]):
                out.append(dict(hist=h3, kp="p/q", cat="Op", filter=f, limit=lim, random=rnd, sched=sched, seed=lim or 0,
                                start=0, end=3 * DAY + 2 * H, now=4 * DAY, skip=None))
    out.append(dict(hist=h3, kp="p", cat="Op", filter=None, limit=0, random=0, sched=[0], seed=0,
                    start=None, end=None, now=4 * DAY, skip=None))
    # categories outside the domain ('.' or '/' inside): correspondence only (the file cassette raises
    # NoSuchRecording, '/' categories are never listed in memory / on file and leak into 'a' on S3)
    h4 = [dict(cat=c, uuid=u[i], ct=i * H, t=i * H, meta=[]) for i, c in enumerate(["a.b", "a/b", "a", "a.b"])]
    for c in ("a.b", "a/b", "a"):
        for lim in (None, 1):
            out.append(dict(hist=h4, kp="p", cat=c, filter=None, limit=lim, random=0, sched=[0], seed=0,
                            start=None, end=None, now=8 * H, skip=None, outside_domain=True))
    return out


def pattern_stream():
    """Deterministic: every pattern of PATTERNS as a string filter (alone, as one alternative of a list, next to an
    ordinary key) against recordings holding REGIONS, through iter_recording_ids and the default lookup, on every
    cassette; key prefixes in rotation."""
    u = ["%032x" % (0xdef0 + i) for i in range(len(REGIONS) + 4)]
    h = []
    for i, r in enumerate(REGIONS):
        meta = [["region", pv.s(r)], ["tenant", pv.s("ab"[i % 2])]]
        if i % 3 == 0:
            meta.append([INC, pv.b(False)])
        h.append(dict(cat="Op", uuid=u[i], ct=i * H, t=i * H, meta=meta))
    n = len(REGIONS)
    h.append(dict(cat="OpX", uuid=u[n], ct=n * H, t=n * H, meta=[["region", pv.s("eu-west-1")]]))           # other category
    h.append(dict(cat="Op", uuid=u[n + 1], ct=(n + 1) * H, t=(n + 1) * H, meta=[["tenant", pv.s("a")]]))    # key absent
    h.append(dict(cat="Op", uuid=u[n + 2], ct=(n + 2) * H, t=(n + 2) * H, meta=[["region", pv.i(1)]]))      # not a string
    h.append(dict(cat="Op", uuid=u[n + 3], ct=(n + 3) * H, t=(n + 3) * H,
                  meta=[["region", pv.s("eu-west-2")], [INC, pv.b(True)]]))                                  # incomplete
    out = []
    for k, p in enumerate(PATTERNS):
        forms = [[["region", pv.s(p)]],
                 [["region", pv.lst([pv.s("us-east-1"), pv.s(p)])]],
                 [["tenant", pv.s("[!b]")], ["region", pv.s(p)]]]
        for f in forms:
            for skip, lim in ((None, None), (True, None), (None, 1)):
                out.append(dict(hist=h, kp=KPS[k % len(KPS)], cat="Op", filter=f, limit=lim, random=0, sched=[0], seed=0,
                                start=None, end=None, now=(n + 5) * H, skip=skip))
    return out


def rand_pattern(rng):
    if rng.random() < 0.5:
        return rng.choice(PATTERNS)
    return "".join(rng.choice(PAT_ALPHABET) for _ in range(rng.randrange(1, 7)))


def pattern_cases(rng, tier):
    """Random histories whose metadata holds short texts over the pattern alphabet, looked up with pattern filters."""
    out = []
    n_hist, n_q = (8, 10) if tier == "quick" else (80, 16)
    for k in range(n_hist):
        hist = rand_hist(rng)
        for e in hist:
            if rng.random() < 0.85:
                r = rng.choice(REGIONS) if rng.random() < 0.5 else \
                    "".join(rng.choice("ab1[]!-x") for _ in range(rng.randrange(0, 4)))
                e["meta"] = [kv for kv in e["meta"] if kv[0] != "region"] + [["region", pv.s(r)]]
        for _ in range(n_q):
            q = rand_query(rng, hist)
            f = [kv for kv in (q["filter"] or []) if kv[0] != "region"][:1]
            v = pv.s(rand_pattern(rng))
            if rng.random() < 0.3:
                v = pv.lst([v, rng.choice([pv.none(), pv.s(rand_pattern(rng)), pv.i(1)])])
            f.insert(rng.randrange(len(f) + 1), ["region", v])
            q.update(hist=hist, kp=KPS[k % len(KPS)], filter=f)
            out.append(q)
    return out


def tz_stream():
    """Deterministic: recordings saved minutes / hours / a day folder before "now", looked up with the windows a caller
    really uses (utcnow() - 1h as start, an explicit end at or just before now, end only, two day folders) through
    iter_recording_ids and the default lookup, in processes whose time zone is west / east of UTC; key prefixes in
    rotation.  The expected answer does not mention the zone."""
    M = 60 * 10**6
    T0 = DAY + 12 * H               # noon: the local day is the UTC day in the zones within +-11h
    u = ["%032x" % (0x7200 + i) for i in range(8)]
    ta, tb = [["tenant", pv.s("a")]], [["tenant", pv.s("b")]]
    recs = [("Op", T0 - 14 * H, tb), ("Op", T0 - 8 * H, ta), ("Op", T0 - 3 * H, ta), ("Op", T0 - 50 * M, ta),
            ("Op", T0 - 30 * M, tb), ("OpX", T0 - 20 * M, ta), ("Op", T0 - 10 * M, ta + [[INC, pv.b(True)]]),
            ("Op", T0 - 1 * M, ta + [[INC, pv.b(False)]])]
    h = [dict(cat=c, uuid=u[i], ct=t, t=t, meta=m) for i, (c, t, m) in enumerate(recs)]
    windows = [(T0 - H, None), (T0 - H, T0), (T0 - 4 * H, T0 - 5 * M), (T0 - 15 * H, T0), (None, T0), (None, T0 - 25 * M),
               (T0 - H, T0 + H), (T0 - 9 * H, T0 - 2 * H)]
    out = []
    for tz in TZS:
        for k, (st, en) in enumerate(windows):
            for f, lim, skip in ((None, None, None), (None, None, True), (ta, 2, True)):
                c = dict(hist=h, kp=KPS[k % len(KPS)], cat="Op", filter=f, limit=lim, random=0, sched=[0], seed=0,
                         start=st, end=en, now=T0, skip=skip)
                if tz:
                    c["tz"] = tz
                out.append(c)
    return out


def tz_copies(cases, every):
    """every n-th lookup of the given ones that has a time window, once more in a process whose zone is not UTC"""
    out, j = [], 0
    for c in cases:
        if c.get("kind") == "cat" or (c["start"] is None and c["end"] is None):
            continue
        if j % every == 0:
            out.append(dict(c, tz=TZS[(j // every) % len(TZS)]))
        j += 1
    return out


def glob_stream():
    """Deterministic: categories that are glob patterns when read as one, next to the categories those patterns would
    select; plain / filtered / limited / default / windowed lookup of each on every cassette."""
    u = ["%032x" % (0x9b00 + i) for i in range(40)]
    names = GCATS + GPLAIN + GCATS[:5]
    h = []
    for i, c in enumerate(names):
        meta = [["tenant", pv.s("ab"[i % 2])]]
        if i % 5 == 0:
            meta.append([INC, pv.b(i % 10 == 0)])
        h.append(dict(cat=c, uuid=u[i], ct=i * H, t=i * H, meta=meta))
    end = len(names) * H
    out = []
    for n, c in enumerate(GCATS + GPLAIN):
        for kp in (("", "p/q") if n < 3 else (KPS[n % len(KPS)],)):
            for f, lim, skip, win in ((None, None, None, False), (ta_filter(), None, True, False), (None, 1, None, False),
                                      (None, None, False, True)):
                out.append(dict(hist=h, kp=kp, cat=c, filter=f, limit=lim, random=0, sched=[0], seed=0,
                                start=0 if win else None, end=end if win else None, now=end, skip=skip))
    return out


def sparse_window_stream():
    """Deterministic (round 7): windows of several day folders most of which hold NO match - the matches sit in one or
    two day folders (first / middle / last day of the window; the normal case of "the last 7 days" on a service that was
    recorded today only) - x limits 2, 3, 5, more than the matches, none x ordered / scripted round-robin x plain /
    filtered / default lookup; key prefixes in rotation.  min(limit, matches) must come back however many day prefixes
    the window has compared to the limit."""
    u = ["%032x" % (0x5a00 + i) for i in range(16)]
    ta, tb = [["tenant", pv.s("a")]], [["tenant", pv.s("b")]]
    out = []
    k = 0
    # (day folders holding the recordings, window in days [first, last])
    for busy, (d0, d1) in (((7,), (0, 7)), ((0,), (0, 7)), ((3,), (1, 6)), ((2, 5), (0, 7)), ((4,), (3, 5)), ((6,), (2, 6))):
        h = []
        for j in range(6):
            d = busy[j % len(busy)]
            t = d * DAY + (j + 1) * H
            meta = (ta if j != 4 else tb) + ([[INC, pv.b(True)]] if j == 5 else [])
            h.append(dict(cat="Op", uuid=u[j], ct=t, t=t, meta=meta))
        h.append(dict(cat="OpX", uuid=u[6], ct=busy[0] * DAY + 8 * H, t=busy[0] * DAY + 8 * H, meta=ta))
        h.sort(key=lambda e: e["t"])
        for lim in (2, 3, 5, 50, None):
            for f, skip, rnd, sched in ((None, None, 0, [0]), (ta_filter(), None, 0, [0]), (None, True, 0, [0]),
                                        (None, None, 2, [1, 0, 2])):
                if lim in (50, None) and (f or rnd):
                    continue
                out.append(dict(hist=h, kp=KPS[k % len(KPS)], cat="Op", filter=f, limit=lim, random=rnd, sched=sched, seed=0,
                                start=d0 * DAY + 30 * 60 * 10**6, end=d1 * DAY + 23 * H, now=8 * DAY, skip=skip))
                k += 1
        # the default end (now) instead of an explicit one: "everything since a week ago"
        out.append(dict(hist=h, kp=KPS[k % len(KPS)], cat="Op", filter=None, limit=2, random=0, sched=[0], seed=0,
                        start=d0 * DAY, end=None, now=7 * DAY + 23 * H, skip=True))
    return out


def reader_stream():
    """Deterministic (round 7): lookups interleaved with the saves.  A recording is saved, looked up, saved AGAIN with other
    metadata (tenant a -> b, b -> a, incomplete True -> False, a key dropped), and looked up again - the saves go through
    one set of cassette objects, the lookups through a SECOND cassette object on the same directory / bucket (recorder and
    player of examples/flask; own = false) or through the saving objects themselves (own = true).  The last lookup must
    answer from what is saved now."""
    u = ["%032x" % (0x4e00 + i) for i in range(8)]
    ta, tb = [["tenant", pv.s("a")]], [["tenant", pv.s("b")]]
    h = [dict(cat="Op", uuid=u[0], ct=1 * H, t=1 * H, meta=ta),
         dict(cat="Op", uuid=u[1], ct=2 * H, t=2 * H, meta=tb),
         dict(cat="Op", uuid=u[2], ct=3 * H, t=3 * H, meta=ta + [[INC, pv.b(True)]]),
         dict(cat="OpX", uuid=u[3], ct=4 * H, t=4 * H, meta=ta),
         dict(cat="Op", uuid=u[4], ct=5 * H, t=5 * H, meta=ta + [["n", pv.i(1)]]),
         # ---- looked up here (probe before index 5), then saved again:
         dict(cat="Op", uuid=u[0], ct=1 * H, t=6 * H, meta=tb),                            # a -> b: must leave tenant=a
         dict(cat="Op", uuid=u[1], ct=2 * H, t=7 * H, meta=ta),                            # b -> a: must join tenant=a
         dict(cat="Op", uuid=u[2], ct=3 * H, t=8 * H, meta=ta + [[INC, pv.b(False)]]),     # completed: default lookup lists it
         dict(cat="Op", uuid=u[4], ct=5 * H, t=9 * H, meta=ta),                            # key n dropped
         dict(cat="Op", uuid=u[5], ct=10 * H, t=10 * H, meta=tb)]                          # a new one after the probes
    lookups = [(ta_filter(), None, None), (ta_filter(), None, True), (None, None, True), ([["tenant", pv.s("b")]], None, False),
               ([["n", pv.i(1)]], None, None), (ta_filter(), 2, None), (None, None, None),
               ([[INC, pv.b(True)]], None, None)]
    out = []
    k = 0
    for own in (False, True):
        for probes in ([5], [0, 5, 7], [5, 10], [3, 6, 8, 9]):
            for f, lim, skip in lookups:
                out.append(dict(hist=h, kp=KPS[k % len(KPS)], cat="Op", filter=f, limit=lim, random=0, sched=[0], seed=0,
                                start=None, end=None, now=11 * H, skip=skip, reader=dict(probes=probes, own=own)))
                k += 1
    return out


def reader_copies(rng, cases, n):
    """n lookups of the random streams whose history saves a recording more than once, again with earlier lookups of a
    second cassette object (or the saving one) at random points of the history"""
    pool = [c for c in cases if c.get("kind") != "cat" and not c.get("outside_domain") and not c.get("failed") and
            not c.get("tz") and not c.get("reader") and len({e["uuid"] for e in c["hist"]}) < len(c["hist"])]
    out = []
    for c in (rng.sample(pool, n) if len(pool) > n else pool):
        m = len(c["hist"])
        out.append(dict(c, reader=dict(probes=sorted(set(rng.randrange(0, m + 1) for _ in range(rng.randrange(1, 4)))),
                                       own=rng.random() < 0.3)))
    return out


FAILED_BASE = 4500     # ordinals of recordings none of whose saves succeeded (harness/impl/lookup_driver.py)


def failing_histories():
    """Saves that fail part-way on S3 (the bucket refuses the n-th mutation of the save: 0 = the first put, 1 = the second
    one - and everything after it, as when the process dies, or with "only" just that one request; save_recording raises, TapeRecorder would log and carry on): a recording whose save failed was not saved, so no
    lookup may hand out its id; a re-save that failed leaves the earlier version; a retry that succeeds counts.
    Returns [(history of successful saves, failing saves)]; "after": the failing save happens before hist[after]."""
    u = ["%032x" % (0xfa10 + i) for i in range(12)]
    ta = [["tenant", pv.s("a")]]
    tb = [["tenant", pv.s("b")]]
    out = []
    for crash, only in ((1, False), (0, False), (0, True)):
        h = [dict(cat="Op", uuid=u[0], ct=1 * H, t=1 * H, meta=ta),
             dict(cat="Op", uuid=u[1], ct=2 * H, t=2 * H, meta=tb),
             dict(cat="OpX", uuid=u[2], ct=3 * H, t=3 * H, meta=ta),
             dict(cat="Op", uuid=u[5], ct=DAY + 4 * H, t=DAY + 6 * H, meta=ta),       # the retry of a failed first save
             dict(cat="Op", uuid=u[3], ct=DAY + 7 * H, t=DAY + 7 * H, meta=[["tenant", pv.s("a")], [INC, pv.b(True)]])]
        failed = [dict(cat="Op", uuid=u[4], ct=2 * H + 1, t=2 * H + 1, meta=ta, crash=crash, after=2),      # never saved
                  dict(cat="Op", uuid=u[1], ct=2 * H, t=3 * H + 1, meta=ta, crash=crash, after=3),           # failed re-save
                  dict(cat="Op", uuid=u[5], ct=DAY + 4 * H, t=DAY + 4 * H, meta=ta, crash=crash, after=3),   # retried later
                  dict(cat="OpX", uuid=u[6], ct=DAY + 8 * H, t=DAY + 8 * H, meta=tb, crash=crash, after=5),  # the last call
                  dict(cat="Op", uuid=u[7], ct=DAY + 9 * H, t=DAY + 9 * H, meta=[], crash=1 - crash, after=5)]
        if only:      # only that one put is refused (size cap, throttling): whatever the save does afterwards gets through
            failed = [dict(f, only=True) for f in failed]
        out.append((h, failed))
    # nothing was ever saved successfully
    out.append(([], [dict(cat="Op", uuid=u[8], ct=H, t=H, meta=ta, crash=1, after=0),
                     dict(cat="Op", uuid=u[9], ct=2 * H, t=2 * H, meta=[], crash=0, after=0)]))
    return out


def failing_targeted():
    out = []
    for n, (h, failed) in enumerate(failing_histories()):
        for kp in (KPS if n == 0 else ["", "p/q"] if n != 2 else ["p", "metadata"]):
            for cat in ("Op", "OpX"):
                for f, lim, skip, win in ((None, None, None, False), (ta_filter(), None, None, False), (None, 2, None, False),
                                          (None, None, True, False), (None, None, None, True), (ta_filter(), 50, False, True)):
                    out.append(dict(hist=h, failed=failed, kp=kp, cat=cat, filter=f, limit=lim, random=0, sched=[0], seed=0,
                                    start=0 if win else None, end=2 * DAY if win else None, now=2 * DAY, skip=skip))
    return out


def ta_filter():
    return [["tenant", pv.s("a")]]


def rand_failed(rng, hist, pool):
    """1-3 failing saves spread over a random history: of new recordings, of stored ones (re-save), of ones saved later"""
    out = []
    for _ in range(rng.randrange(1, 4)):
        after = rng.randrange(0, len(hist) + 1)
        r = rng.random()
        if r < 0.45 or not hist:
            t = (hist[after - 1]["t"] + 1) if after else 0
            out.append(dict(cat=rng.choice(pool), uuid=rand_hex(rng), ct=t, t=t, meta=rand_meta(rng), crash=rng.choice([0, 1, 1]),
                            after=after))
        elif r < 0.8 and after:
            e = rng.choice(hist[:after])                        # re-save of a stored recording fails
            out.append(dict(cat=e["cat"], uuid=e["uuid"], ct=e["ct"], t=hist[after - 1]["t"] + 1, meta=rand_meta(rng),
                            crash=rng.choice([0, 1, 1]), after=after))
        else:
            k = rng.randrange(len(hist))                        # the first attempt of a save that succeeds later (or earlier)
            e = hist[k]
            first = min(i for i, x in enumerate(hist) if x["uuid"] == e["uuid"])
            out.append(dict(cat=e["cat"], uuid=e["uuid"], ct=e["ct"], t=e["ct"], meta=rand_meta(rng), crash=rng.choice([0, 1, 1]),
                            after=first))
    for f in out:
        if rng.random() < 0.4:
            f["only"] = True
    out.sort(key=lambda f: f["after"])
    return out


CAT_IDS = [("Op/ab12", None), ("Op_Y/0123", None), ("Op/20200227/ab12", "Op"), ("Op_Y/20200301/ffff", "Op_Y"),
           ("Op_/20200301/0", "Op_"), ("O/1/2", "O"), ("Op", None), ("Op/", None), ("/a/b", None), ("a/b/", None),
           ("a//b", None), ("a/b/c/d", "a"), ("", None), ("/", None), ("//", None), ("///", None), ("a/b//", "a"),
           ("////", None), ("a///", None), ("/a/b/c", None)]


def generate(rng, tier):
    cases = [dict(c) for c in targeted(rng)]
    n_hist, n_q = (45, 14) if tier == "quick" else (600, 20)
    for k in range(n_hist):
        native = rng.random() < 0.85
        layout = k % 5 == 4               # every fifth history: categories named like the storage layout's literals
        pool = LCATS if layout else CATS
        hist = rand_hist(rng, native=native, pool=pool)
        kp = KPS[k % len(KPS)]
        for _ in range(n_q):
            q = rand_query(rng, hist, pool=pool)
            q.update(hist=hist, kp=kp)
            if layout:
                q["decoys"] = layout_decoys(kp)
            cases.append(q)
    tz_extra = tz_copies(cases, 3 if tier == "quick" else 4)
    for i, exp in CAT_IDS:
        cases.append(dict(kind="cat", id=i, expect=exp))
    prng = random.Random(rng.random())      # own stream: the cases above are those of the earlier rounds
    cases += pattern_stream()
    cases += pattern_cases(prng, tier)
    # histories with saves that fail part-way on S3 (deterministic probes + a random stream with its own generator: the
    # streams above draw the same cases as before this one existed)
    cases += failing_targeted()
    rng_f = __import__("random").Random(rng.getrandbits(64))
    for k in range(8 if tier == "quick" else 120):
        hist = rand_hist(rng_f, native=True)
        failed = rand_failed(rng_f, hist, CATS)
        kp = KPS[k % len(KPS)]
        for _ in range(8 if tier == "quick" else 12):
            q = rand_query(rng_f, hist)
            q.update(hist=hist, kp=kp, failed=failed)
            cases.append(q)
    # round 6: the lookups with a time window again in processes that are not on UTC (deterministic probes + copies of
    # the windowed lookups of the random stream above), and categories that are glob patterns when read as one
    # (deterministic probes + a random stream with its own generator)
    cases += tz_stream()
    cases += tz_extra
    cases += glob_stream()
    rng_g = random.Random(rng.getrandbits(64))
    gpool = GCATS + GPLAIN
    for k in range(6 if tier == "quick" else 80):
        hist = rand_hist(rng_g, native=True, pool=gpool)
        kp = KPS[k % len(KPS)]
        for j in range(8 if tier == "quick" else 12):
            q = rand_query(rng_g, hist, pool=gpool)
            q.update(hist=hist, kp=kp)
            if j % 4 == 3 and (q["start"] is not None or q["end"] is not None):
                q["tz"] = TZS[(k + j) % len(TZS)]
            cases.append(q)
    # round 7: windows of several day folders whose matches sit in one or two of them, under a limit
    cases += sparse_window_stream()
    # round 7: lookups interleaved with the saves, through a second cassette object on the same directory / bucket
    rng_r = random.Random(rng.getrandbits(64))
    cases += reader_stream() + reader_copies(rng_r, cases, 60 if tier == "quick" else 600)
    return cases


# ------------------------------------------------------------------------------------------ Gallina
def day_str(d):
    return (BASE + datetime.timedelta(days=d)).strftime("%Y%m%d")


def g_meta(items):
    return glist([gpair(gstr(k), pv.to_mval(v)) for k, v in items])


def g_rec(e):
    return "(Rec %s %s %s %s %s)" % (gstr(e["cat"]), gstr(e["uuid"]), gZ(e["ct"] // DAY), gZ(e["t"]), g_meta(e["meta"]))


def prelude(cases):
    seen = {}
    out = ["Definition days_tbl : list (Z * str) := %s." %
           glist([gpair(gZ(d), gstr(day_str(d))) for d in range(-3, 12)])]
    for c in cases:
        if c.get("kind") == "cat":
            continue
        k = json.dumps(c["hist"], sort_keys=True)
        if k not in seen:
            seen[k] = "hist_%d" % len(seen)
            out.append("Definition %s : list rec := %s." % (seen[k], glist([g_rec(e) for e in c["hist"]])))
    prelude.names = seen
    return "\n".join(out)


def g_obs(o):
    if o.get("exc") is not None:
        return "(ORaised %s)" % gnat(o["exc"])
    return "(OIds %s)" % glist([gnat(i if 0 <= i < 4999 else 4999) for i in o["ids"]])


def to_gallina(case, obs):
    if case.get("kind") == "cat":
        if "driver_exception" in obs:
            return "CatCase [] (U \"driver-exception\") None"
        memcat = obs["mem"] if obs["mem"] == obs["file"] else "<<mem and file disagree>>"
        return "CatCase %s %s %s" % (gstr(case["id"]), gstr(memcat), gopt(None if obs["s3"] is None else gstr(obs["s3"])))
    name = prelude.names[json.dumps(case["hist"], sort_keys=True)]
    if "driver_exception" in obs:
        return "Case %s days_tbl [] [] [] None 0%%nat [] None None 0%%Z None [] (ORaised 7%%nat) (ORaised 7%%nat) (ORaised 7%%nat)" % name
    zopt = lambda v: gopt(None if v is None else gZ(v))   # noqa: E731
    skip = gopt(None if case["skip"] is None else gbool(case["skip"]))
    return "Case %s days_tbl %s %s %s %s %s %s %s %s %s %s %s %s %s %s" % (
        name, gstr(case["kp"]), gstr(case["cat"]), g_meta(case["filter"] or []),
        gopt(None if case["limit"] is None else gnat(case["limit"])), gnat(case["random"]),
        glist([gnat(x) for x in case["sched"]]), zopt(case["start"]), zopt(case["end"]), gZ(case["now"]), skip,
        glist([gnat(i if 0 <= i < 4999 else 4999) for i in obs["listdir"]]),
        g_obs(obs["mem"]), g_obs(obs["file"]), g_obs(obs["s3"]))


def explain(case, obs):
    return "model_obs (%s)" % to_gallina(case, obs)


# ------------------------------------------------------------------------------------------ direct predicate
def view(j, s3):
    """The metadata value the matcher sees: decoded value (in-memory / file) or json.loads of the encoded text (S3)."""
    t = j["t"]
    if t == "cls":
        return {"py/type": CLASS_NAMES[j["v"]]} if s3 else pv.to_py(j)
    if t == "list":
        return [view(x, s3) for x in j["v"]]
    if t == "dict":
        return {k: view(v, s3) for k, v in j["v"]}
    return pv.to_py(j)


def native(j):
    t = j["t"]
    if t == "cls":
        return False
    if t == "list":
        return all(native(x) for x in j["v"])
    if t == "dict":
        return all(native(v) for _, v in j["v"])
    return True


def stored(hist):
    """ordinal (index of first save) -> latest saved version"""
    first, cur, order = {}, {}, []
    for i, e in enumerate(hist):
        if e["uuid"] not in first:
            first[e["uuid"]] = i
            order.append(e["uuid"])
        cur[e["uuid"]] = e
    return {first[u]: cur[u] for u in order}


def flag_of(e):
    for k, v in e["meta"]:
        if k == INC:
            return pv.to_py(v)
    return None


def why_not(case, e, s3):
    """None when the recording must be listed; otherwise the reason it must not."""
    if e["cat"] != case["cat"]:
        return "wrong-category"
    flt = dict((k, v) for k, v in (case["filter"] or []))
    if case["skip"] is True:
        flt.pop(INC, None)           # the default lookup replaces the caller's filter on the flag
        if flag_of(e) is True:
            return "incomplete-listed"
    meta = {k: view(v, s3) for k, v in e["meta"]}
    for k, f in flt.items():
        if not spec_match(view(f, False), meta.get(k)):
            return "filter-not-satisfied"
    if s3 and (case["start"] is not None or case["end"] is not None):
        if case["start"] is not None:
            endv = case["now"] if case["end"] is None else case["end"]
            if not (case["start"] // DAY <= e["ct"] // DAY <= endv // DAY) or e["t"] < case["start"]:
                return "outside-window"
        if case["end"] is not None and e["t"] > case["end"]:
            return "outside-window"
    return None


def direct(case, obs):
    if "driver_exception" in obs:
        return [("driver", obs["driver_exception"])]
    fails = []
    if case.get("kind") == "cat":
        if case["expect"] is not None and obs["s3"] != case["expect"]:
            fails.append(("category-extract", "S3 extract_recording_category(%r) = %r (%s), created with category %r" %
                          (case["id"], obs["s3"], obs["s3_err"], case["expect"])))
        if obs["mem"] != obs["file"]:
            fails.append(("category-extract", "in-memory and file cassette extract different categories from %r" % case["id"]))
        return fails
    if case.get("outside_domain"):
        return fails
    if case.get("tz"):
        if obs.get("tz_offset") != TZ_OFFSETS.get(case["tz"]):
            return [("driver", "the driver did not run this case in time zone %s (utc offset seen: %s s)" %
                     (case["tz"], obs.get("tz_offset")))]
        return [(sig, msg + reader_note(case, obs) + "  [process time zone TZ=%s (utc offset %+d s); the lookup window start=%s end=%s is naive "
                 "UTC: what is listed must not depend on the zone of the process]" %
                 (case["tz"], obs["tz_offset"], case["start"], case["end"])) for sig, msg in direct_utc(case, obs)]
    if case.get("reader"):
        return [(sig, msg + reader_note(case, obs)) for sig, msg in direct_utc(case, obs)]
    return direct_utc(case, obs)


def reader_note(case, obs):
    r = case.get("reader")
    if not r:
        return ""
    return ("  [the same lookup was also made before save number %s of the history (answers then: %s) and all lookups went "
            "through %s: a lookup answers from what is saved now]" %
            (r["probes"], obs.get("earlier_lookups"), "the saving cassette objects" if r.get("own") else
             "a second cassette object on the same directory / bucket"))


def direct_utc(case, obs):
    fails = []
    st = stored(case["hist"])
    pre = "dflt-" if case["skip"] is True else ""
    sets = {}
    for name in ("mem", "file", "s3"):
        o = obs[name]
        s3 = name == "s3"
        if o["exc"] is not None:
            fails.append((name + "-" + pre + "raises", "%s listing raised %s" % (name, o.get("excname"))))
            continue
        got = o["ids"]
        want = sorted(i for i, e in st.items() if why_not(case, e, s3) is None)
        sets[name] = sorted(got)
        if o.get("dups") or len(set(i for i in got if i >= 0)) != len([i for i in got if i >= 0]):
            fails.append((name + "-" + pre + "duplicate", "%s listed a recording twice: %s" % (name, got)))
        if o["unknown"] or any(i < 0 for i in got):
            fails.append((name + "-" + pre + "foreign-id", "%s listed ids that were never saved: %s" % (name, o["unknown"])))
        for i in got:
            if i >= 0 and i not in want:
                why = why_not(case, st[i], s3) if i in st else "not-stored"
                if i >= FAILED_BASE and case.get("failed"):
                    fl = [f for k, f in enumerate(case["failed"]) if f["uuid"] == case["failed"][i - FAILED_BASE]["uuid"]]
                    fails.append((name + "-" + pre + why, "%s listed a recording that was never saved for category %r filter %s: "
                                  "every save of it failed (category %s; the bucket refused mutation number %s of the save, "
                                  "save_recording raised %s)" % (name, case["cat"], case["filter"], fl[0]["cat"],
                                                                [f["crash"] for f in fl], obs.get("failed_saves"))))
                    break
                fails.append((name + "-" + pre + why, "%s listed recording #%d (%s, meta %s) for category %r filter %s: %s" %
                              (name, i, st.get(i, {}).get("cat"), st.get(i, {}).get("meta"), case["cat"], case["filter"], why)))
                break
        lim = case["limit"]
        if lim is None:
            missed = sorted(set(want) - set(got))
            if missed:
                e = st[missed[0]]
                sig = "flag-not-true-dropped" if (case["skip"] is True and flag_of(e) is not True and
                                                             INC not in dict(case["filter"] or [])) else "missed"
                fails.append((name + "-" + pre + sig, "%s did not list matching recording #%d (%s, meta %s) for category %r "
                              "filter %s" % (name, missed[0], e["cat"], e["meta"], case["cat"], case["filter"])))
        elif lim >= 1:
            if len(got) != min(lim, len(want)):
                fails.append((name + "-" + pre + "count", "%s listed %d ids, limit %d with %d matching recordings" %
                              (name, len(got), lim, len(want))))
        if o["fetch_bad"]:
            fails.append((name + "-" + pre + "not-fetchable", "%s listed ids that cannot be fetched: %s" % (name, o["fetch_bad"])))
        if o["cat_bad"]:
            fails.append((name + "-" + pre + "category-extract", "%s listed ids whose extracted category differs: %s" %
                          (name, o["cat_bad"])))
    if (len(sets) == 3 and case["limit"] is None and case["start"] is None and case["end"] is None and
            all(native(v) for e in case["hist"] for _, v in e["meta"])):
        if not (sets["mem"] == sets["file"] == sets["s3"]):
            fails.append((pre + "cassettes-disagree", "same saves, same lookup: mem=%s file=%s s3=%s" %
                          (sets["mem"], sets["file"], sets["s3"])))
    return fails


def features(case):
    if case.get("kind") == "cat":
        return {"extract-category"}
    if case.get("outside_domain"):
        return {"category-outside-the-domain (correspondence only)"}
    f = {"kp=" + repr(case["kp"]), "cat=" + case["cat"], "random=%d" % case["random"],
         "limit=" + ("None" if case["limit"] is None else ("0 (observation only)" if case["limit"] == 0 else
                                                            ">=1" if case["limit"] < 50 else "more-than-matches")),
         "via=" + ("iter_recording_ids" if case["skip"] is None else "find(skip_incomplete=%s)" % case["skip"]),
         "window=" + ("none" if case["start"] is None and case["end"] is None else
                      "start" + ("+end" if case["end"] is not None else "") if case["start"] is not None else "end-only"),
         "filter=" + ("none" if not case["filter"] else "+".join(sorted(v["t"] for _, v in case["filter"])))}
    if any(has_class_pattern(v) for _, v in (case["filter"] or [])):
        f.add("filter-pattern-with-character-class")
    if case.get("reader"):
        f.add("earlier-lookups-interleaved-with-the-saves:" + ("saving-object" if case["reader"].get("own") else
                                                                "second-cassette-object"))
        seen_before = {e["uuid"] for i, e in enumerate(case["hist"]) if any(i < p for p in case["reader"]["probes"])}
        if any(e["uuid"] in seen_before and any(i >= p for p in case["reader"]["probes"]) and
               sum(1 for x in case["hist"][:i] if x["uuid"] == e["uuid"]) for i, e in enumerate(case["hist"])):
            f.add("recording-saved-again-after-a-lookup-saw-it")
    if case.get("tz"):
        f.add("process-time-zone=%s" % case["tz"])
        if case["start"] is not None or case["end"] is not None:
            f.add("window-in-a-non-utc-process:" + ("west" if TZ_OFFSETS[case["tz"]] < 0 else "east"))
    if any(ch in case["cat"] for ch in "[]*?"):
        f.add("category-with-glob-metacharacters")
    if any(ch in e["cat"] for e in case["hist"] for ch in "[]*?"):
        f.add("history-with-glob-metacharacter-categories")
    if any(e["ct"] != e["t"] or sum(1 for x in case["hist"] if x["uuid"] == e["uuid"]) > 1 for e in case["hist"]):
        f.add("history-with-resave")
    if not all(native(v) for e in case["hist"] for _, v in e["meta"]):
        f.add("metadata-with-class-reference")
    f.add("stored=%d" % min(len(stored(case["hist"])), 10))
    st_ = {e["uuid"] for e in case["hist"]}
    for fl in case.get("failed") or []:
        f.add("failed-s3-save:refused-mutation=%d%s" % (fl["crash"], "-only" if fl.get("only") else "-and-all-later"))
        f.add("failed-s3-save:" + ("of-a-recording-that-is-never-saved" if fl["uuid"] not in st_ else
                                   "re-save-or-first-attempt-of-a-saved-recording"))
    st = stored(case["hist"])
    n3 = sum(1 for e in st.values() if why_not(case, e, True) is None)
    if case["limit"] and case["limit"] < n3:
        f.add("limit-cuts-the-s3-listing")
    if case["start"] is not None:
        endv = case["now"] if case["end"] is None else case["end"]
        nd = endv // DAY - case["start"] // DAY + 1
        f.add("s3-day-folders=" + ("0" if nd <= 0 else "1" if nd == 1 else "2+"))
        folders = {e["ct"] // DAY for e in st.values() if why_not(case, e, True) is None}
        if len(folders) >= 2:
            f.add("matches-in-2+-day-folders")
            if case["limit"] and case["limit"] < n3:
                f.add("round-robin-under-a-cutting-limit")
    return f


def nontrivial(case):
    if case.get("kind") == "cat" or case.get("outside_domain"):
        return False
    st = stored(case["hist"])
    n = sum(1 for e in st.values() if why_not(case, e, False) is None)
    return 0 < n < len(st)


def shrink_candidates(case):
    if case.get("kind") == "cat":
        return
    h = case["hist"]
    fl = case.get("failed") or []
    for j in range(len(fl)):
        yield dict(case, failed=fl[:j] + fl[j + 1:])
    for i in range(len(h)):
        c2 = dict(case, hist=h[:i] + h[i + 1:], failed=[dict(f, after=f["after"] - (1 if f["after"] > i else 0)) for f in fl])
        if case.get("reader"):
            c2["reader"] = dict(case["reader"], probes=sorted(set(p - (1 if p > i else 0) for p in case["reader"]["probes"])))
        yield c2
    if case["filter"]:
        for i in range(len(case["filter"])):
            yield dict(case, filter=case["filter"][:i] + case["filter"][i + 1:])
    if case.get("tz"):
        yield {k: v for k, v in case.items() if k != "tz"}
    if case.get("reader") and len(case["reader"]["probes"]) > 1:
        for j in range(len(case["reader"]["probes"])):
            pr = case["reader"]["probes"]
            yield dict(case, reader=dict(case["reader"], probes=pr[:j] + pr[j + 1:]))
    if case["random"]:
        yield dict(case, random=0)
    if case["start"] is not None or case["end"] is not None:
        yield dict(case, start=None, end=None)
    if case["limit"] is not None:
        yield dict(case, limit=None)
    for i, e in enumerate(h):
        if len(e["meta"]) > 1:
            for j in range(len(e["meta"])):
                yield dict(case, hist=h[:i] + [dict(e, meta=e["meta"][:j] + e["meta"][j + 1:])] + h[i + 1:])


MANIFEST = dict(
    design_ref='6/C10',
    text='Coq theorems for every history of saves, category, filter, limit (None or >= 1), listing order / shuffle / '
         'choice oracle and S3 key prefix: each cassette model lists without duplicates, only ids of the specification '
         'set {id r | r stored, category r = c, filter satisfied}, exactly min(limit, matches) of them (all without a '
         'limit); the round-robin merge is modelled exactly with fuel that is proved sufficient; the three models '
         'list the same recordings (unlimited, JSON-native metadata); the default lookup drops exactly the '
         'recordings whose incomplete flag is True. Models tied to /repo on every run by histories x lookups on the '
         'three real cassettes (fake bucket behind the real S3BasicFacade, scratch directory, fake clock/uuid, '
         'scripted or real RNG); direct predicate (subset, exact category, filter, count, no duplicates, fetchable, '
         'cassettes agree, skip-incomplete) on the implementation; string filters are checked against the documented '
         'fnmatch meaning including character classes, ranges, negations and literal brackets on all three cassettes '
         '(model side: a Gallina transcription of fnmatch.translate, direct predicate: Python fnmatch); histories in which '
         'saves fail part-way on S3 are included; lookups with a time window are also run in processes whose time zone is '
         'west / east of UTC (the window is naive UTC: same answer), and categories containing glob metacharacters '
         '([...], *, ?) are looked up on all three cassettes (a category is a literal); limited lookups over windows of '
         'several day folders most of which are empty (matches concentrated in one or two days) must still return '
         'min(limit, matches) ids; lookups made through a second cassette object on the same directory / bucket (or the '
         'saving one) after earlier lookups of that object and re-saves in between answer from what is saved now.',
    note='Trusted: Coq kernel + vm_compute; hand-written models of the three iter_recording_ids, iter_keys, '
         'find_matching_recording_ids; the C14 matcher model; strftime/listdir/shuffle/choice/uuid as oracles; '
         'correspondence harness. limit=0 divergence (no limit on memory/file, nothing on S3) is an observation.',
    technique='Coq proof (induction over histories, listings and the merge loop; permutation reasoning) + '
              'model/implementation correspondence by vm_compute',
)
