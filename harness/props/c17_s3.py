"""C17, S3 clause over histories ("storage-level sampling by a size-based calculator follows the same rule ...
reproducible from the seed"): several S3 cassettes with a size-based calculator living in one process.  Every
cassette saves a prefix of one master sequence of payload sizes, so two cassettes must take the same decisions on
their common prefix whatever else happened in the process (another cassette created before, saving in between, other
content of the same size band).  Cassettes are fed directly (recordings saved straight on the cassette) or THROUGH a
real TapeRecorder whose operations return / raise / are interrupted: the storage-level decision may not look at the outcome
the recorder wrote into the metadata.  Used by props/c17.py (kind "s3hist") and impl/s3sample_driver.py."""
import random
from fractions import Fraction

from lib.gallina import gQ, gbool, glist

TENTH = [3602879701896397, 36028797018963968]       # float(0.1) exactly
LENGTHS = [16, 500, 1500, 4000]                     # payload lengths: compressed sizes ~ 60 / 300 / 800 / 2050 bytes
LIMITS = [150, 550, 1400, None]                     # size bands of the calculator (compressed bytes)
RATIO_SETS = [
    [[1, 1], [3, 5], [1, 4], [0, 1]],               # keep small ones, sample the middle, drop the huge
    [[1, 2], [1, 2], [1, 2], [1, 2]],               # one fractional rate for every size
    [TENTH, [3, 4], [3, 2], [1, 4]],
    [[1, 4], [1, 1], [1, 2], [7, 8]],
]
SCHEDULES = ["sequential", "roundrobin", "interposed", "random"]
# histories fed THROUGH a TapeRecorder (operations that return / raise / are interrupted): the recorder's own metadata
# (operation class, exception flag, duration) makes the recordings larger, hence other size bands; the first two sets give
# every size the same ratio, so that histories with different outcomes (= slightly different sizes) stay comparable
REC_LIMITS = [350, 800, 1800, None]       # compressed sizes through the recorder: ~180-265 / 460-560 / 1030-1135 / 2480-2590
REC_RATIO_SETS = [
    [[1, 2], [1, 2], [1, 2], [1, 2]],
    [[0, 1], [0, 1], [0, 1], [0, 1]],               # a calculated rate of 0 stores nothing, whatever the operation did
    [[1, 1], [3, 5], [1, 4], [0, 1]],
    [TENTH, [3, 4], [3, 2], [1, 4]],
]
OUTCOMES = ["return", "raise", "interrupt"]


def schedule(kind, ns, rng):
    if kind == "sequential":          # one cassette after the other (e.g. closed and created again)
        return [i for i, n in enumerate(ns) for _ in range(n)]
    if kind == "roundrobin":
        return [i for k in range(max(ns)) for i, n in enumerate(ns) if k < n]
    if kind == "interposed":          # cassette 0 saves, the others save everything, cassette 0 goes on
        half = ns[0] // 2
        return [0] * half + [i for i, n in enumerate(ns) if i for _ in range(n)] + [0] * (ns[0] - half)
    left = list(ns)
    out = []
    while any(left):
        i = rng.choice([j for j, n in enumerate(left) if n])
        out.append(i)
        left[i] -= 1
    return out


def generate(rng, tier):
    fork = random.Random()
    fork.setstate(rng.getstate())     # a copy of the stream: the caller's later cases do not move
    rng = fork
    cases = []
    n_master = 40 if tier == "quick" else 300
    reps = 1 if tier == "quick" else 4
    for rep in range(reps):
        for k, ratios in enumerate(RATIO_SETS):
            for sk, kind in enumerate(SCHEDULES):
                if tier == "quick" and (k + sk) % 2 and kind != "interposed":
                    continue
                master = [rng.choice(LENGTHS) for _ in range(n_master)]
                ncas = 2 if kind == "interposed" else rng.choice([2, 3, 3])
                cassettes = [dict(n=n_master, twin=False, share_bucket=False)]
                for c in range(1, ncas):
                    cassettes.append(dict(n=rng.choice([n_master, n_master, n_master // 2]), twin=(c + k + rep) % 2 == 0,
                                          share_bucket=rng.random() < 0.5))
                if cassettes[1].get("share_bucket"):
                    cassettes[0]["share_bucket"] = True
                cases.append(dict(kind="s3hist", bands=[[lim, r] for lim, r in zip(LIMITS, ratios)], master=master,
                                  cassettes=cassettes, schedule_kind=kind,
                                  schedule=schedule(kind, [c["n"] for c in cassettes], rng)))
    # cassettes fed through a TapeRecorder: cassette 0 records operations that all return, the others the same master
    # sequence with outcomes drawn per operation (and, for a twin, other content); one is fed directly for comparison
    for rep in range(reps):
        for k, ratios in enumerate(REC_RATIO_SETS):
            kind = SCHEDULES[(k + rep) % len(SCHEDULES)]
            master = [rng.choice(LENGTHS) for _ in range(n_master)]
            cassettes = [dict(n=n_master, twin=False, share_bucket=False, via="recorder", outcomes=["return"]),
                         dict(n=n_master, twin=False, share_bucket=k % 2 == 0, via="recorder",
                              outcomes=[rng.choice(OUTCOMES) for _ in range(n_master)])]
            if kind != "interposed":
                cassettes.append(dict(n=n_master // 2, twin=True, share_bucket=False, via="recorder",
                                      outcomes=[rng.choice(OUTCOMES) for _ in range(n_master // 2)]))
            if cassettes[1]["share_bucket"]:
                cassettes[0]["share_bucket"] = True
            cases.append(dict(kind="s3hist", bands=[[lim, r] for lim, r in zip(REC_LIMITS, ratios)], master=master,
                              cassettes=cassettes, schedule_kind=kind, fed="recorder",
                              schedule=schedule(kind, [c["n"] for c in cassettes], rng)))
    # highly compressible payloads: encoded and stored size fall into different bands of the calculator
    cases += list(compressible_cases(rng, tier))
    # a single cassette alone in its history (the shape a one-cassette process has)
    master = [rng.choice(LENGTHS) for _ in range(n_master)]
    cases.append(dict(kind="s3hist", bands=[[lim, r] for lim, r in zip(LIMITS, RATIO_SETS[0])], master=master,
                      cassettes=[dict(n=n_master, twin=False, share_bucket=False)], schedule_kind="alone",
                      schedule=[0] * n_master))
    return cases


# payloads that compress to a few dozen bytes whatever their length: the size of what is STORED (which the calculator is to
# judge) and the size of the encoded text lie on different sides of every limit below
COMPRESSIBLE_BANDS = [
    [[200, [1, 1]], [None, [0, 1]]],                 # keep what is cheap to store, drop the rest
    [[200, [0, 1]], [None, [1, 1]]],
    [[120, [1, 2]], [250, [1, 1]], [1000, [1, 4]], [None, [0, 1]]],
]


def compressible_cases(rng, tier):
    n = 12 if tier == "quick" else 60
    for k, bands in enumerate(COMPRESSIBLE_BANDS):
        for via in (None, "recorder"):
            master = [LENGTHS[(j + k) % len(LENGTHS)] for j in range(n)]
            if via:
                # (through a recorder the metadata adds ~150 stored bytes: limits moved up accordingly)
                bands = [[None if lim is None else lim + 200, r] for lim, r in bands]
            cas = dict(n=n, twin=False, share_bucket=False)
            if via:
                cas.update(via=via, outcomes=["return", "raise", "interrupt"])
            yield dict(kind="s3hist", bands=bands, master=master, cassettes=[cas, dict(cas, twin=True)],
                       schedule_kind="roundrobin", schedule=schedule("roundrobin", [n, n], rng), payload_kind="repetitive",
                       **({"fed": "recorder"} if via else {}))


def band_ratio(bands, size):
    for limit, ratio in bands:
        if limit is None or size < limit:
            return ratio
    return None


def rule(ratio, draw):
    return ratio >= 1 or draw <= ratio


def direct(case, obs):
    fails = []
    cass = obs["cassettes"]
    for i, saves in enumerate(cass):
        outs = case["cassettes"][i].get("outcomes")
        for pos, s in enumerate(saves):
            how = " (recording made by a TapeRecorder, the operation's outcome: %s)" % outs[pos % len(outs)] if outs else ""
            if s["calc_calls"] != 1 or s["ratio"] is None:
                fails.append(("s3-calculator-calls", "cassette %d save %d%s: the sampling calculator was called %d times for "
                              "one save (stored=%s)" % (i, pos, how, s["calc_calls"], s["kept"])))
                break
            if s.get("stored_size") is not None and s["size"] != s["stored_size"]:
                want = band_ratio(case["bands"], s["stored_size"])
                fails.append(("s3-calculator-size", "cassette %d save %d%s: the sampling calculator was given size %s, the "
                              "recording takes %s bytes in storage (ratio for the stored size: %s, ratio applied: %s, stored=%s)" %
                              (i, pos, how, s["size"], s["stored_size"], want, s["ratio"], s["kept"])))
                break
            r = Fraction(*s["ratio"])
            if r >= 1 and not s["kept"]:
                fails.append(("s3-wrong-decision", "cassette %d save %d: ratio %s >= 1 but the recording was not stored" %
                              (i, pos, s["ratio"])))
                break
            if s["draws"] is None:
                continue
            want_draws = 0 if r >= 1 else 1
            if len(s["draws"]) != want_draws:
                fails.append(("s3-wrong-number-of-draws", "cassette %d save %d: ratio %s, %d draws taken from the cassette's "
                              "generator, expected %d" % (i, pos, s["ratio"], len(s["draws"]), want_draws)))
                break
            if want_draws and s["kept"] != rule(r, Fraction(*s["draws"][0])):
                fails.append(("s3-wrong-decision", "cassette %d save %d: ratio %s draw %s: stored=%s" %
                              (i, pos, s["ratio"], s["draws"][0], s["kept"])))
                break
    ref = cass[0]
    for i in range(1, len(cass)):
        twin = case["cassettes"][i].get("twin")
        for pos, (a, b) in enumerate(zip(ref, cass[i])):
            if a["ratio"] != b["ratio"] and None not in (a["ratio"], b["ratio"]):
                break                  # (the twin's content landed in another size band: no longer the same history)
            if a["kept"] != b["kept"]:
                oa, ob = (case["cassettes"][j].get("outcomes") or ["return"] for j in (0, i))
                differ = any(oa[q % len(oa)] != ob[q % len(ob)] for q in range(pos + 1))
                sig = "s3-depends-on-content" if twin else "s3-depends-on-outcome" if differ else "s3-not-reproducible"
                fails.append((sig, "two S3 cassettes with the same calculator and the same sequence of sampling ratios (%s "
                              "schedule%s): save %d (ratio %s) stored=%s on cassette 0 and stored=%s on cassette %d - the "
                              "decisions are not a function of the cassette's own seeded history" %
                              (case.get("schedule_kind"), ", other content in the same size bands" if twin else "", pos,
                               a["ratio"], a["kept"], b["kept"], i)))
                break
    return fails


def to_gallina(case, obs):
    rows = []
    for saves in obs["cassettes"]:
        for s in saves:
            if s["ratio"] is None or s["draws"] is None or len(s["draws"]) > 1:
                return None            # draws not observable (no generator attribute to tap): implementation-only case
            d = Fraction(*s["draws"][0]) if s["draws"] else Fraction(0)
            rows.append("(Some %s, %s, %s)" % (gQ(Fraction(*s["ratio"])), gQ(d), gbool(s["kept"])))
    return "S3H %s" % glist(rows)


def features(case):
    fs = {"s3hist", "s3hist:" + case.get("schedule_kind", "?"), "s3hist:cassettes=%d" % len(case["cassettes"])}
    if case.get("payload_kind") == "repetitive":
        fs.add("s3hist:compressible-payloads(encoded-and-stored-size-in-different-bands)")
    if any(c.get("twin") for c in case["cassettes"]):
        fs.add("s3hist:content-twin")
    if any(c.get("share_bucket") for c in case["cassettes"]):
        fs.add("s3hist:same-bucket-other-prefix")
    if any(c["n"] < case["cassettes"][0]["n"] for c in case["cassettes"]):
        fs.add("s3hist:shorter-history")
    for c in case["cassettes"]:
        if c.get("via") == "recorder":
            fs.add("s3hist:fed-through-TapeRecorder")
            for o in set(c.get("outcomes") or []):
                fs.add("s3hist:operation-outcome=" + o)
    return fs


def shrink_candidates(case):
    ns = [c["n"] for c in case["cassettes"]]
    if len(ns) > 2:
        for drop in range(1, len(ns)):
            keep = [i for i in range(len(ns)) if i != drop]
            remap = {old: new for new, old in enumerate(keep)}
            yield dict(case, cassettes=[case["cassettes"][i] for i in keep],
                       schedule=[remap[i] for i in case["schedule"] if i in remap])
    m = max(ns)
    if m > 2:
        h = m // 2
        seen = [0] * len(ns)
        sched = []
        for i in case["schedule"]:
            if seen[i] < h:
                sched.append(i)
            seen[i] += 1
        yield dict(case, master=case["master"][:h], cassettes=[dict(c, n=min(c["n"], h)) for c in case["cassettes"]],
                   schedule=sched)
