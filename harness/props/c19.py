"""C19 - the studio plays each recording once under its own category's tuning."""
import collections
import itertools
import re

from lib.gallina import gstr, glist, gopt, gbool, gpair, gnat

ID = "C19"
LOG_EXACT = False                # (listing order of the file cassette varies from run to run; the predicate is order-free)
LOG_LEVEL_INVARIANT = True      # (harness/vp.py: a sample of the cases again with logging at DEBUG; same observables)
RUN_MODULE = "RunC19"
DRIVER = "studio_driver.py"
SHARD = 150
MAX_DRIVER_SHARDS = 8
RULE = ("one case = one store (recordings of real decorated operations whose class names are the prefix-related "
        "categories A, AB, A_B, B on one of the three real cassettes) + one PlaybackStudio.play() request (explicit "
        "id list in any order with duplicates and unknown ids, 1 to 30+ ids, next to lookup properties without a "
        "limit / the studio's default ones (limit 20) / caller-supplied limits smaller than the number of selected "
        "ids of one category; or lookup mode over a category list, in lookup order or as a RANDOM SAMPLE "
        "(random_sample=True under a seed of `random` named by the case) without a limit / with a limit smaller than, "
        "equal to and larger than the number of recordings of a category; category lists naming 5-9 distinct categories "
        "(the four with recordings + C, D, BA, AA, b without) some of them two or three times: reported and tuned once "
        "each, in the order of their first occurrence) + the set of "
        "categories whose tuning cannot be created, each failing with an exception of its own shape (no arguments: bare "
        "assert / raise <class> / next() of an empty generator / KeyError() / a custom class; one text; several "
        "arguments; non-text arguments: int, None, tuple, bytes, dict, another exception; OSError family) "
        "+ a consumption script for the lazy result generators; "
        "non-trivial = at least two prefix-related categories are involved; distinct = distinct canonical case")
EXHAUSTIVE = {"quick": False, "thorough": False}
ASSUMPTIONS = ["the content of a lookup is C10/C16's business: the model takes what the cassette's "
               "iter_recording_ids answered (spy) as its lookup oracle; the direct predicate checks it against the "
               "C10 specification (exactly that category, incomplete recordings skipped by default; a random sample "
               "may be any min(limit, size) distinct recordings of the category in any order - WHICH ones is not "
               "specified, so two plays of one sampled request are compared by shape only: categories, error or "
               "not, number of comparisons)",
               "dedicated comparison processes are modelled by C08/C13; here a few requests run on REAL worker "
               "processes and are expected to give what the in-process model gives (C08_modes_agree: no worker exits, "
               "hangs or late answers are scripted); a timing anomaly must show up three times in a row to count",
               "a tuner fails with an Exception subclass (a BaseException - KeyboardInterrupt, SystemExit, "
               "GeneratorExit - is not a tuning failure and is out of scope); whatever its class and arguments, the "
               "category's result is that very object",
               "a tuning's functions behave per recording as scripted (ok / different / player, extractor, "
               "comparator raising / no output recorded / no such recording)"]
TRUSTED = ["tagging tuner + journal in studio_driver.py; pass-through spy on the cassette's iter_recording_ids; "
           "fake bucket behind the real S3BasicFacade, fake clock for the S3 cassette",
           "harness-side re-statement of the category of an id (split('/')[0]; regex of the S3 id template)"]

CATS = ["A", "AB", "A_B", "B"]
# The ways a tuner fails for a category, and the exception each of them ends in: (class name, arguments) - an
# independent re-statement of studio_driver.fail_tuning.  All Exception subclasses (BaseException is out of scope).
FAIL_SHAPES = {
    "msg": lambda c: ("TunerError", ("cannot tune %s" % c,)),                  # one text argument
    "assert": lambda c: ("AssertionError", ()),                                 # bare assert
    "notimpl": lambda c: ("NotImplementedError", ()),                           # raise <class>
    "stopiter": lambda c: ("StopIteration", ()),                                # next() of an empty generator
    "keyerror0": lambda c: ("KeyError", ()),
    "bare": lambda c: ("BareTunerError", ()),                                   # custom class, super().__init__() bare
    "lookup": lambda c: ("KeyError", (c,)),                                     # {}[category]
    "two": lambda c: ("TunerError", ("cannot tune", c)),
    "three": lambda c: ("ValueError", (c, 2, None)),
    "oserror": lambda c: ("FileNotFoundError", (2, "No such tuning")),          # OSError(2, text, filename)
    "int": lambda c: ("TunerError", (42,)),
    "none": lambda c: ("TunerError", (None,)),
    "tuple": lambda c: ("TunerError", ((c, 1),)),
    "bytes": lambda c: ("TunerError", (b"cannot tune",)),
    "dict": lambda c: ("TunerError", ({"category": c},)),
    "emptystr": lambda c: ("TunerError", ("",)),
    "unicode": lambda c: ("TunerError", (u"caf\u00e9 \u2713 %s" % c,)),
    "braces": lambda c: ("TunerError", ("{} {0} {category} %s" % c,)),
    "nested": lambda c: ("TunerError", (KeyError(c),)),
}
NO_ARGS = ["assert", "notimpl", "stopiter", "keyerror0", "bare"]
SHAPE_NAMES = sorted(FAIL_SHAPES)


def expected_error(case, c):
    """canonical text of the exception the tuner of the failing category c ends in"""
    name, args = FAIL_SHAPES[(case.get("fail_shape") or {}).get(c, "msg")](c)
    return "%s%s" % (name, ascii(tuple(args)))
BEHS = ["ok", "ok", "ok", "diff", "player_raises", "extractor_raises", "comparator_raises"]
DAY0 = 20200227


# ---------------------------------------------------------------------------------------------- generation
def gen_store(rng, kind, size):
    cats = list(CATS)
    if rng.random() < 0.25:
        cats = rng.sample(CATS, 3)
    recs = []
    for _ in range(size):
        r = dict(cat=rng.choice(cats), beh=rng.choice(BEHS))
        if rng.random() < 0.2:
            r["incomplete"] = True
        if kind == "s3":
            r["day"] = rng.choice([0, 0, 1, 2])
        recs.append(r)
    # make sure prefix-related categories are populated
    for c in ("A", "AB"):
        if not any(r["cat"] == c and not r.get("incomplete") for r in recs):
            r = dict(cat=c, beh="ok")
            if kind == "s3":
                r["day"] = 0
            recs.insert(rng.randrange(len(recs) + 1), r)
    return recs


def missing_id(rng, kind):
    c = rng.choice(CATS + ["C"])
    if kind == "s3":
        return rng.choice(["%s/%d/m%d" % (c, DAY0 + rng.randrange(3), rng.randrange(3)),
                           "%s/x/m1/extra" % c, "%s//x/y" % c, "/%s/b/c" % c])
    return rng.choice(["%s/m%d" % (c, rng.randrange(3)), c, "%s/B/c" % c, "/x", "%s_m1" % c])


def rand_fail(rng, universe):
    k = rng.random()
    if k < 0.35:
        return []
    if k < 0.6:
        return [rng.choice(universe)]
    return sorted(c for c in universe if rng.random() < 0.4)


def explicit_case(rng, kind, recs, fail=None):
    n = rng.choice([1, 2, 3, 5, 8, 12])
    ids = [rng.randrange(len(recs)) for _ in range(n)]
    k = rng.random()
    if k < 0.2:
        ids = sorted(ids, key=lambda i: (recs[i]["cat"], i))        # sorted id lists: a run of X followed by XY
    elif k < 0.3:
        ids = sorted(ids, key=lambda i: (recs[i]["cat"], i), reverse=True)
    if rng.random() < 0.3:
        ids.insert(rng.randrange(len(ids) + 1), missing_id(rng, kind))
    if rng.random() < 0.3 and ids:
        ids.append(rng.choice(ids))
    universe = sorted({recs[i]["cat"] if isinstance(i, int) else "C" for i in ids} | {"A"})
    case = dict(cassette=kind, recs=recs, mode="explicit", ids=ids,
                categories=rng.choice([None, None, ["B", "C"], []]),
                fail=rand_fail(rng, universe) if fail is None else fail,
                config=rng.choice([None, "default", "keep"]),
                script=[rng.randrange(12) for _ in range(rng.randrange(1, 9))])
    # lookup properties handed to a studio that is given explicit ids: they drive lookups only, the selection is
    # played as given (absent = properties without a limit, as before)
    k = rng.random()
    if k < 0.25:
        case["lp"] = dict(default=True)
    elif k < 0.6:
        case["lp"] = dict(limit=rng.choice([1, 1, 2, 3, 5, 20]), skip_incomplete=rng.random() < 0.75)
    return case


def long_explicit_case(rng, kind, recs, lp, major=None, n_major=None):
    """An explicit selection holding MORE ids of one category than the lookup properties' limit (the studio's own
    default properties: 20), next to a few ids of the other categories: every selected id is played, lookup
    properties or not.  Distinct ids as far as the store has them, then repeats (an id list may name a recording twice)."""
    by = {}
    for i, r in enumerate(recs):
        by.setdefault(r["cat"], []).append(i)
    if major is None:
        major = max(sorted(by), key=lambda c: (len(by[c]), rng.random()))
    limit = 20 if lp is None or lp.get("default") else (lp.get("limit") or 0)
    if n_major is None:
        n_major = limit + rng.choice([1, 1, 2, 7])
    pool = list(by[major])
    rng.shuffle(pool)
    ids = pool[:n_major]
    while len(ids) < n_major:
        ids.append(rng.choice(by[major]))
    for c in sorted(by):
        if c != major:
            ids += [rng.choice(by[c]) for _ in range(rng.choice([0, 1, 3]))]
    k = rng.random()
    if k < 0.4:
        rng.shuffle(ids)
    elif k < 0.6:
        ids = sorted(ids, key=lambda i: (recs[i]["cat"], i))
    case = dict(cassette=kind, recs=recs, mode="explicit", ids=ids, categories=rng.choice([None, None, ["B", "C"]]),
                fail=[] if rng.random() < 0.7 else [rng.choice(sorted(by))],
                config=rng.choice([None, "default", "keep"]),
                script=rng.choice([[0], [1, 0], [rng.randrange(12) for _ in range(rng.randrange(2, 9))]]))
    if lp is not None:
        case["lp"] = lp
    return case


def gen_big_store(rng, kind):
    """a store with well over 20 recordings of one category (more than the studio's default lookup limit)"""
    major = rng.choice(CATS)
    recs = []
    for n in range(rng.choice([26, 30])):
        r = dict(cat=major if n < 23 or rng.random() < 0.5 else rng.choice(CATS),
                 beh=rng.choice(BEHS))
        if kind == "s3":
            r["day"] = rng.choice([0, 0, 1, 2])
        recs.append(r)
    for c in CATS[:2] + [rng.choice(CATS[2:])]:
        for _ in range(2):
            r = dict(cat=c, beh="ok")
            if kind == "s3":
                r["day"] = 0
            recs.append(r)
    rng.shuffle(recs)
    return recs, major


def lookup_case(rng, kind, recs, fail=None):
    n = rng.choice([1, 2, 3, 4, 5, 6])
    cats = [rng.choice(CATS + ["C"]) for _ in range(n)]
    if rng.random() < 0.3:
        cats = rng.sample(CATS, len(CATS))
    lp = dict(limit=rng.choice([None, None, 1, 2, 20]), skip_incomplete=rng.random() < 0.75)
    if kind != "s3" and rng.random() < 0.2:
        lp = dict(default=True)     # the studio's own DEFAULT_LOOKUP_PROPERTIES (limit 20, skip incomplete)
    return dict(cassette=kind, recs=recs, mode="lookup", ids=rng.choice([None, None, None, []]), categories=cats,
                fail=rand_fail(rng, sorted(set(cats))) if fail is None else fail, lp=lp,
                config=rng.choice([None, "default", "keep"]),
                script=[rng.randrange(12) for _ in range(rng.randrange(1, 9))])


def uneven_case(rng, kind, recs, config):
    """Several categories with uneven numbers of recordings, consumed interleaved: one category finishes (or is closed
    by the consumer) while others still have recordings to go."""
    by = {}
    for i, r in enumerate(recs):
        by.setdefault(r["cat"], []).append(i)
    cats = sorted(by)
    rng.shuffle(cats)
    short, rest = cats[0], cats[1:]
    close = {}
    if rng.random() < 0.5:      # explicit ids
        ids = [rng.choice(by[short])]
        for c in rest:
            ids += [rng.choice(by[c]) for _ in range(rng.choice([2, 3, 4, 5]))]
        rng.shuffle(ids)
        case = dict(cassette=kind, recs=recs, mode="explicit", ids=ids, categories=None)
    else:
        case = dict(cassette=kind, recs=recs, mode="lookup", ids=None, categories=cats + rng.choice([[], ["C"]]),
                    lp=dict(limit=None, skip_incomplete=False))
    if rng.random() < 0.4:
        close[rng.choice(cats)] = rng.choice([0, 1, 1, 2])
    fail = [] if rng.random() < 0.7 else [rng.choice(cats)]
    script = rng.choice([[0, 1, 2, 3], [0], [1, 0], [rng.randrange(12) for _ in range(rng.randrange(2, 9))]])
    return dict(case, fail=fail, config=config, script=script, close=close)


def gen_sample_store(rng, kind):
    """a store whose categories have known, uneven sizes (A 5-7, AB 4, A_B 1-2, B 3 complete recordings, a few
    incomplete ones in between): a limited random sample of a category is smaller than / as large as / larger than it"""
    recs = []
    for cat, n in (("A", rng.choice([5, 6, 7])), ("AB", 4), ("A_B", rng.choice([1, 2])), ("B", 3)):
        recs += [dict(cat=cat, beh=rng.choice(BEHS)) for _ in range(n)]
    recs += [dict(cat=rng.choice(["A", "AB"]), beh="ok", incomplete=True) for _ in range(2)]
    rng.shuffle(recs)
    if kind == "s3":
        for r in recs:
            r["day"] = rng.choice([0, 0, 1, 2])
    return recs


def random_sample_cases(rng, kind, tier):
    """Lookup-driven runs with RecordingLookupProperties.random_sample: no limit / a limit smaller than, equal to and
    larger than the number of recordings of a category, each under several seeds of `random` (the sample is drawn
    from the process-wide generator: random.seed selects it).  Whatever is drawn, each drawn recording is replayed once."""
    out = []
    for _ in range(1 if tier == "quick" else 4):
        recs = gen_sample_store(rng, kind)
        n_a = sum(1 for r in recs if r["cat"] == "A" and not r.get("incomplete"))
        for limit in (None, 2, 4, n_a - 1, n_a, n_a + 1, 20):
            for rseed in rng.sample(range(1000), 3 if tier == "quick" else 6):
                cats = rng.sample(CATS, len(CATS))
                k = rng.random()
                if k < 0.3:
                    cats.insert(rng.randrange(len(cats) + 1), "C")
                elif k < 0.45:
                    cats = cats[:rng.choice([1, 2, 3])]
                out.append(dict(cassette=kind, recs=recs, mode="lookup", ids=rng.choice([None, None, []]),
                                categories=cats, fail=[] if rng.random() < 0.75 else [rng.choice(cats)],
                                lp=dict(limit=limit, skip_incomplete=rng.random() < 0.8, random=True), rseed=rseed,
                                config=rng.choice([None, "default", "keep"]),
                                script=rng.choice([[0], [1, 0], [rng.randrange(12) for _ in range(rng.randrange(2, 9))]])))
    return out


EXTRA_CATS = ["C", "D", "BA", "AA", "b"]      # categories without recordings (a lookup of them answers nothing)


def duplicate_category_cases(rng, kind, tier):
    """Lookup-driven runs over category lists that name 5 to 9 distinct categories, some of them twice or three times
    (lists concatenated from several configurations): each category is reported and tuned once, in the order of its
    first occurrence - whatever the string hash seed of the interpreter (a list collapsed through a set of strings
    comes out in hash order: with 5+ categories that is practically never the listing order)."""
    out = []
    recs = gen_store(rng, kind, 8)
    for _ in range(6 if tier == "quick" else 30):
        distinct = rng.sample(CATS + EXTRA_CATS, rng.choice([5, 6, 7, 9]))
        cats = list(distinct)
        for _ in range(rng.choice([1, 1, 2, 3])):
            cats.insert(rng.randrange(len(cats) + 1), rng.choice(distinct))
        if rng.random() < 0.3:
            cats = distinct + distinct[::rng.choice([1, -1])]       # two configurations naming the same categories
        case = lookup_case(rng, kind, recs, fail=rand_fail(rng, sorted(set(cats) & set(CATS + ["C"]))))
        case["categories"] = cats
        out.append(case)
    return out


def generate(rng, tier):
    cases = generate_main(rng, tier)
    # ---- random samples.  Drawn after everything else so that the requests above stay what they were.
    # (a) a share of the lookup requests above asks for a random sample
    for c in cases:
        lp = c.get("lp")
        if c["mode"] == "lookup" and lp and not lp.get("default") and "close" not in c and rng.random() < 0.35:
            c["lp"] = dict(lp, random=True)
            c["rseed"] = rng.randrange(1000)
    # (b) the small region limit x category size x seed, always (also in the quick tier)
    for kind in ("mem", "file", "s3"):
        cases += random_sample_cases(rng, kind, tier)
    # ---- the exception a failing tuner ends in.  Also drawn after everything else.
    # (a) a share of the requests above with failing tuners: each failing category fails in a way of its own
    for c in cases:
        if c.get("fail") and rng.random() < 0.4:
            c["fail_shape"] = {f: rng.choice(SHAPE_NAMES) for f in c["fail"]}
    # (b) the small region exception shape x request mode x cassette, always (also in the quick tier)
    for kind in ("mem", "file", "s3"):
        cases += fail_shape_cases(rng, kind, tier)
    # ---- category lists with repetitions over many categories (round 7).  Drawn last.
    for kind in ("mem", "file", "s3"):
        cases += duplicate_category_cases(rng, kind, tier)
    return cases


def fail_shape_cases(rng, kind, tier):
    """Every way a tuner can fail (exception without arguments / with one text / several / non-text arguments, raised
    as a class, by an assert, by next(), by a lookup, a custom class) on an explicit and a lookup-driven request over
    three or four categories of which one in the middle (and, second round, two with different shapes) fails: the
    failing category's result is that exception, the other categories replay."""
    out = []
    recs = gen_store(rng, kind, 8)
    for r in recs:
        r.pop("incomplete", None)
    present = sorted({r["cat"] for r in recs})
    for shape in SHAPE_NAMES:
        if tier == "quick" and kind != "mem" and shape not in NO_ARGS + ["msg", "two", "int"]:
            continue
        for mode in ("explicit", "lookup"):
            victim = present[1 + rng.randrange(len(present) - 2)] if len(present) > 2 else present[-1]
            fail, shapes = [victim], {victim: shape}
            if rng.random() < 0.35:
                other = rng.choice([c for c in present if c != victim])
                fail, shapes = sorted([victim, other]), {victim: shape, other: rng.choice(SHAPE_NAMES)}
            if mode == "explicit":
                case = explicit_case(rng, kind, recs, fail=fail)
                # every category at least once (so that the failing tuner is asked), a few more, in any order
                ids = [rng.choice([i for i, r in enumerate(recs) if r["cat"] == c]) for c in present]
                ids += [rng.randrange(len(recs)) for _ in range(3)]
                rng.shuffle(ids)
                case["ids"] = ids
                case.pop("lp", None)
            else:
                case = lookup_case(rng, kind, recs, fail=fail)
                case["categories"] = rng.sample(present, len(present)) + rng.choice([[], ["C"]])
                case["lp"] = dict(limit=None, skip_incomplete=True)
            case["fail_shape"] = shapes
            case["config"] = rng.choice([None, "default", "keep"])
            out.append(case)
    return out


def generate_main(rng, tier):
    n_stores, per_store = (3, 45) if tier == "quick" else (20, 120)
    cases = []
    for kind in ("mem", "file", "s3"):
        for s in range(n_stores):
            recs = gen_store(rng, kind, rng.choice([5, 8, 12]))
            for _ in range(per_store):
                if rng.random() < 0.55:
                    cases.append(explicit_case(rng, kind, recs))
                else:
                    cases.append(lookup_case(rng, kind, recs))
            # tuners failing for EVERY subset of the categories, on one explicit and one lookup request
            if s == 0 or tier != "quick":
                base_e = explicit_case(rng, kind, recs, fail=[])
                base_e["ids"] = rng.sample(range(len(recs)), min(len(recs), 6)) + [0]
                base_l = lookup_case(rng, kind, recs, fail=[])
                base_l["categories"] = rng.sample(CATS, 4) + ["C"]
                subsets = [list(s_) for k in range(1, 5) for s_ in itertools.combinations(CATS, k)]
                if tier == "quick":
                    subsets = rng.sample(subsets, 6) + [list(CATS)]
                for sub in subsets:
                    cases.append(dict(base_e, fail=sub))
                    cases.append(dict(base_l, fail=sub))
            # interleaved consumption with a category finishing / being closed early; in-process and on REAL
            # dedicated comparison processes (few: each costs worker start-up and 50 ms polls)
            for _ in range(4 if tier == "quick" else 10):
                cases.append(uneven_case(rng, kind, recs, rng.choice([None, "keep", "default"])))
            if s < (2 if tier == "quick" else 6):
                for _ in range(3 if tier == "quick" else 6):
                    cases.append(uneven_case(rng, kind, recs, rng.choice(
                        ["dedicated", "dedicated:1", "dedicated:2", "dedicated:5:keep", "dedicated:3"])))
            # explicit selections longer (per category) than the limit of the lookup properties the studio holds
            # - its own default properties (limit 20) or properties supplied by the caller; always in the quick tier
            if s == 0 or tier != "quick":
                for lp in (None, dict(default=True), dict(limit=1), dict(limit=2, skip_incomplete=False),
                           dict(limit=rng.choice([3, 5, 8]))):
                    cases.append(long_explicit_case(rng, kind, recs, lp))
            # degenerate requests
            cases.append(dict(cassette=kind, recs=recs, mode="lookup", ids=None, categories=None, fail=[], script=[0]))
            cases.append(dict(cassette=kind, recs=recs, mode="lookup", ids=[], categories=[], fail=[], script=[0]))
            if kind == "s3":
                cases.append(dict(cassette=kind, recs=recs, mode="explicit", ids=[0, "A/m1", 1], categories=None,
                                  fail=[], script=[0]))
        # a store with more than 20 recordings of one category: long explicit selections of DISTINCT ids, and a lookup
        # under the default limit next to them (the limit applies there, and only there)
        for _ in range(1 if tier == "quick" else 3):
            recs, major = gen_big_store(rng, kind)
            for lp in (dict(default=True), None, dict(limit=20), dict(limit=rng.choice([2, 7, 19]))):
                cases.append(long_explicit_case(rng, kind, recs, lp, major=major))
            cases.append(long_explicit_case(rng, kind, recs, dict(default=True), major=major, n_major=20))
            cases.append(long_explicit_case(rng, kind, recs, dict(default=True), major=major, n_major=23))
            for lp in (dict(limit=20, skip_incomplete=False), dict(limit=None, skip_incomplete=False)) + \
                    ((dict(default=True),) if kind != "s3" else ()):
                cases.append(dict(cassette=kind, recs=recs, mode="lookup", ids=None, categories=[major, "B", "A"],
                                  fail=[], lp=lp, config=None, script=[1, 0]))
    return cases


# ---------------------------------------------------------------------------------------------- specification side
def spec_category(kind, rid):
    """The category of an id as the cassettes document it (independent re-statement)."""
    if kind == "s3":
        m = re.match(r"^(.+?)/(.+?)/(.+?)$", rid, re.DOTALL)
        return None if m is None else m.group(1)
    return rid.split("/")[0]


def req_ids(case, obs):
    if not case.get("ids"):
        return None
    store = obs["store"]
    return [store[x][0] if isinstance(x, int) else x for x in case["ids"]]


FIELDS = re.compile(r"^stage=(\w+)(?:;(.*))?$", re.S)


def parse_msg(msg):
    """verdict message -> dict(stage=.., P=.., E=.., C=.., D=.., n=.., cls=.., drid=.., id=..) or None"""
    if msg in ("", None):
        return {"stage": "nooutput"}
    m = FIELDS.match(msg)
    if not m:
        return None
    d = {"stage": m.group(1)}
    for part in (m.group(2) or "").split(";"):
        if part:
            if "=" not in part:
                return None
            k, v = part.split("=", 1)
            d[k] = v
    return d


STATUS = {"Equal": "Equal", "Different": "Different", "EqualizerFailure": "Failure"}
STAGE = {"done": "Done", "comparator": "AtComparator", "extractor": "AtExtractor", "nooutput": "AtNoOutput",
         "player": "AtPlayer", "fetch": "AtFetch"}


def subject_of(f, store):
    """the recording the tuning's functions saw, as a canonical id (n = ordinal stored inside the recording)"""
    if "n" not in f:
        return None
    ns = set(f["n"].split(","))
    if len(ns) != 1:
        return "MIXED:" + f["n"]
    try:
        cid = store[int(ns.pop())][0]
    except (ValueError, IndexError):
        return "UNKNOWN:" + f["n"]
    if "drid" in f and f["drid"] != cid:
        return "MIXED:%s|%s" % (cid, f["drid"])
    return cid


def two(v):
    """'E:A,E:A' -> 'E:A' ; differing halves stay visible"""
    if v is None:
        return None
    parts = set(v.split(","))
    return parts.pop() if len(parts) == 1 else v


# ---------------------------------------------------------------------------------------------- Gallina
def g_ostr(x):
    return gopt(None if x is None else gstr(x))


def g_cmp(c, store):
    if "junk" in c:
        return "(Cmp %s Failure AtFetch None None None None None None None [])" % gstr("JUNK:" + c["junk"])
    f = parse_msg(c["msg"])
    if f is None or f["stage"] not in STAGE or c["status"] not in STATUS:
        return "(Cmp %s Failure AtFetch None None None None None None None [])" % gstr("UNPARSED:" + str(c["msg"])[:60])
    kept = None
    if c["kept"] is not None:
        kept = two(",".join(str(x) for x in c["kept"]))
    if f["stage"] == "fetch" and f.get("id") != c["id"]:
        f = dict(f, n="fetch-of-" + str(f.get("id")))
    return "(Cmp %s %s %s %s %s %s %s %s %s %s %s)" % (
        gstr(c["id"]), STATUS[c["status"]], STAGE[f["stage"]], g_ostr(f.get("P")), g_ostr(two(f.get("E"))),
        g_ostr(f.get("C")), g_ostr(f.get("D")), g_ostr(subject_of(f, store)), g_ostr(kept), g_ostr(c["attached"]),
        glist([gpair(gstr(p), gstr(i)) for p, i in c["played"]]))


def g_result(r, store):
    if "error" in r:
        return "(CatError %s)" % gstr(r["error"] if r.get("same", True) else "NOT-THE-RAISED-OBJECT:" + r["error"])
    if "junk" in r or "died" in r:
        return "(CatError %s)" % gstr("JUNK:" + str(r.get("junk", r.get("died"))))
    return "(CatRun %s)" % glist([g_cmp(c, store) for c in r["cmps"]])


BEH = {"ok": "BOk", "diff": "BDiff", "player_raises": "BPlayerRaises", "extractor_raises": "BExtractorRaises",
       "comparator_raises": "BComparatorRaises"}


def to_gallina(case, obs):
    if "driver_exception" in obs:
        return 'Case false [] [] [] false None None [] (Raises (U "driver"))'
    store = obs["store"]
    o = obs["inter"]
    behs = []
    for (cid, _, inc, _), r in zip(store, case["recs"]):
        # the playback function raises before the (missing) operation output is looked for
        behs.append(gpair(gstr(cid), "BIncomplete" if inc and r["beh"] != "player_raises" else BEH[r["beh"]]))
    if "raised" in o:
        impl = "(Raises %s)" % gstr(o["raised"])
        lookups = []
    else:
        impl = "(Ans %s)" % glist([gpair(gstr(c), g_result(r, store)) for c, r in zip(o["cats"], o["results"])])
        lookups = o["lookups"]
    ids = req_ids(case, obs)
    if case.get("ids") == []:
        ids = []
    cats = case.get("categories")
    return "Case %s %s %s %s %s %s %s %s %s" % (
        gbool(case["cassette"] == "s3"), glist(behs), glist([gpair(gstr(c), gstr(expected_error(case, c))) for c in case.get("fail", [])]),
        glist([gpair(gstr(c), glist([gstr(i) for i in l])) for c, l in lookups]),
        gbool("keep" in str(case.get("config")).split(":")),
        gopt(None if ids is None else glist([gstr(i) for i in ids])),
        gopt(None if cats is None else glist([gstr(c) for c in cats])),
        glist([gpair(gstr(c), gnat(n)) for c, n in sorted((case.get("close") or {}).items())]), impl)


def explain(case, obs):
    return "model_obs (%s)" % to_gallina(case, obs)


# ---------------------------------------------------------------------------------------------- direct predicate
def labels(r):
    return [c.get("id") for c in r.get("cmps", [])]


def check_play(case, obs, o, which):
    """The property's own predicate on one consumed play() of the implementation."""
    kind = case["cassette"]
    store = obs["store"]
    fail = set(case.get("fail", []))
    ids = req_ids(case, obs)
    fails = []

    close = case.get("close") or {}

    def bad(sig, msg):
        fails.append((sig, "[%s consumption] %s" % (which, msg)))

    def cut(c, lst):
        """what a category closed by its consumer after n comparisons has produced: the first n"""
        return lst[:close[c]] if c in close else lst

    if "raised" in o:
        if ids is None and case.get("categories") is None:
            return fails                                   # nothing selected at all: TypeError is the code's answer
        if ids is not None and any(spec_category(kind, i) is None for i in ids):
            return fails                                   # an id the cassette cannot attribute to any category
        bad("play-raises", "play() raised %s%s" % (o["raised"], "".join(
            "; tuner of %s fails with %s" % (c, expected_error(case, c)) for c in case.get("fail", []))))
        return fails
    cats = o["cats"]
    results = dict(zip(cats, o["results"]))
    if len(set(cats)) != len(cats):
        bad("duplicate-category", "categories %s" % cats)
    for c, r in results.items():
        if "junk" in r or "died" in r:
            bad("category-result-not-comparisons-or-error", "category %s: %s" % (c, r))
    # ---- which categories, in which order
    if ids is not None:
        idcats = [spec_category(kind, i) for i in ids]
        if any(c is None for c in idcats):
            bad("unattributable-id-accepted", "ids %s" % ids)
            return fails
        want = sorted(set(idcats))
        if cats != want:
            sig = "categories-not-sorted" if sorted(cats) == want else "wrong-categories"
            bad(sig, "result categories %s, the ids' categories sorted: %s" % (cats, want))
    else:
        # lookup mode: the requested categories, each once, in the order of their FIRST occurrence in the request - the
        # only order that is the same in every interpreter process (a set of strings iterates in the order of the
        # process's string hash seed) and the one the unchanged code and the model give
        want = list(dict.fromkeys(case["categories"]))
        if sorted(cats) != sorted(want):
            bad("wrong-categories", "result categories %s, requested %s" % (cats, want))
        elif cats != want:
            bad("categories-not-in-listing-order", "result categories %s, requested %s: first occurrences in listing "
                "order are %s" % (cats, case["categories"], want))
    # ---- the tuner is asked once per reported category, in the order of the report
    if "tuner_calls" in o and o["tuner_calls"] != cats and len(set(cats)) == len(cats):
        sig = "tuner-calls-not-in-report-order" if sorted(o["tuner_calls"]) == sorted(cats) else "tuner-not-asked-once-per-category"
        bad(sig, "the tuner was asked for %s, reported categories: %s" % (o["tuner_calls"], cats))
    # ---- tuner failure is that category's result, and only that category's
    for c in cats:
        r = results[c]
        if c in fail:
            if r.get("error") != expected_error(case, c):
                bad("tuner-error-lost", "tuner of %s fails with %s but its result is %s" %
                    (c, expected_error(case, c), str(r)[:200]))
            elif not r.get("same"):
                bad("tuner-error-lost", "tuner of %s fails; its result is an equal-looking %s but not the exception "
                    "the tuner raised" % (c, r["error"]))
        elif "error" in r:
            bad("tuner-error-leaked", "tuner of %s works but its result is %s" % (c, r))
    # ---- every comparison: label of exactly this category, everything it carries is this category's tuning
    for c in cats:
        for cm in results[c].get("cmps", []):
            if "junk" in cm:
                bad("not-a-comparison", "category %s yielded %s" % (c, cm))
                continue
            lab = cm["id"]
            if spec_category(kind, lab) != c:
                bad("foreign-recording-in-category", "recording %s reported under category %s" % (lab, c))
            f = parse_msg(cm["msg"])
            if f is None:
                bad("recording-not-compared-by-its-tuning", "category %s: the comparison of %s does not come from the "
                    "category's playback function / extractor / comparator: %s - %r" % (c, lab, cm["status"], cm["msg"]))
                continue
            for key, role in (("P", "P"), ("E", "E"), ("C", "C"), ("D", "D")):
                if key in f and two(f[key]) != "%s:%s" % (role, c):
                    bad("foreign-tuning", "recording %s (category %s) was handled by %s=%s" % (lab, c, key, f[key]))
            if "cls" in f and f["cls"] != c:
                bad("foreign-tuning", "recording %s (category %s) replayed as class %s" % (lab, c, f["cls"]))
            if cm["kept"] is not None and two(",".join(map(str, cm["kept"]))) != "E:" + c:
                bad("foreign-tuning", "kept results of %s extracted by %s" % (lab, cm["kept"]))
            subj = subject_of(f, store)
            if subj is not None and subj != lab:
                bad("verdict-of-other-recording", "comparison labelled %s holds the verdict of %s" % (lab, subj))
            if cm["attached"] not in (None, lab):
                bad("verdict-of-other-recording", "comparison labelled %s carries the playback of %s" %
                    (lab, cm["attached"]))
            known = any(s[0] == lab for s in store)
            want_runs = [["P:" + c, lab]] if known else []
            if cm["played"] != want_runs:
                sig = "played-more-than-once" if len(cm["played"]) > 1 else \
                    ("not-played" if not cm["played"] else "foreign-tuning")
                bad(sig, "producing the comparison of %s (category %s) ran %s" % (lab, c, cm["played"]))
    # ---- which recordings
    if ids is not None:
        for c in cats:
            if c in fail or "cmps" not in results[c]:
                continue
            want_ids = cut(c, [i for i in ids if spec_category(kind, i) == c])
            got = labels(results[c])
            if got != want_ids:
                if sorted(got) == sorted(want_ids):
                    sig = "order-within-category"
                elif set(got) == set(want_ids):
                    sig = "not-once-per-occurrence"
                else:
                    sig = "wrong-recordings-in-category"
                bad(sig, "category %s played %s, selected (in order): %s" % (c, got, want_ids))
        allgot = [lab for c in cats for lab in labels(results[c])]
        for i in set(ids):
            if spec_category(kind, i) not in fail and spec_category(kind, i) not in close \
                    and allgot.count(i) != ids.count(i):
                bad("not-once-per-occurrence", "%s selected %d times, played %d times" % (i, ids.count(i), allgot.count(i)))
    else:
        lp = case.get("lp") or {}
        limit = 20 if lp.get("default") else lp.get("limit")
        skip = True if lp.get("default") else lp.get("skip_incomplete", True)
        asked = [c for c, _ in o["lookups"]]
        for c in cats:
            if c in fail or "cmps" not in results[c]:
                continue
            got = labels(results[c])
            spec = [s[0] for s in store if s[1] == c and not (skip and s[2])]
            if len(set(got)) != len(got):
                bad("not-once-per-occurrence", "category %s played %s" % (c, got))
            extra = [g for g in got if g not in spec]
            if extra:
                sig = "lookup-drew-from-other-category" if any(spec_category(kind, g) != c for g in extra) \
                    else "lookup-drew-unselected-recording"
                bad(sig, "category %s played %s; its recordings are %s" % (c, extra, spec))
            n_want = len(spec) if limit is None else min(limit, len(spec))
            if c in close:
                n_want = min(n_want, close[c])
            if len(set(got)) != n_want and not extra:
                bad("lookup-missed-recordings", "category %s played %d of its %d recordings (limit %s): %s" %
                    (c, len(set(got)), len(spec), limit, got))
            if asked.count(c) != 1:
                bad("lookup-not-by-category", "lookups asked for %s while playing %s" % (asked, cats))
            else:
                answer = [l for cc, l in o["lookups"] if cc == c][0]
                # a random sample has no order to keep: what is played is drawn from the category's own lookup
                drawn = not (collections.Counter(got) - collections.Counter(answer)) if lp.get("random") \
                    else got == answer
                if not drawn:
                    bad("lookup-not-by-category", "category %s played %s but its lookup answered %s" % (c, got, answer))
        for c in asked:
            if c not in cats:
                bad("lookup-not-by-category", "a lookup asked for category %s, requested were %s" % (c, cats))
    # ---- every run of a playback function (also outside the consumption of the generators) is accounted for
    runs = [tuple(e) for e in o.get("journal", [])]
    produced = [tuple(e) for c in cats for cm in results[c].get("cmps", []) if "played" in cm for e in cm["played"]]
    if sorted(runs) != sorted(produced):
        extra = sorted(set(runs) - set(produced)) or [e for e in set(runs) if runs.count(e) > produced.count(e)]
        bad("played-more-than-once", "playback functions ran %d times but the comparisons account for %d runs; "
            "unaccounted: %s" % (len(runs), len(produced), extra[:4]))
    if not o.get("recorder_idle", True):
        bad("recorder-not-idle", "the recorder still holds playback state after the run")
    return fails


def direct(case, obs):
    if "driver_exception" in obs:
        return [("driver-exception", obs["driver_exception"])]
    fails = check_play(case, obs, obs["seq"], "category-by-category")
    if not fails:
        fails = check_play(case, obs, obs["inter"], "interleaved")

    sampled = bool((case.get("lp") or {}).get("random")) and not case.get("ids")

    def shape(r):
        """of a category's result under random sampling: WHICH recordings are drawn (and in which order) legitimately
        differs from one play to the next - the draws of the categories share one generator, so the sample of a
        category depends on which lookups ran before it; error or not and the number of comparisons do not"""
        return {"error": r["error"]} if "error" in r else {"n": len(r.get("cmps", [])), "closed": r.get("closed")}

    def proj(o):
        if sampled and "results" in o:
            return {"cats": o["cats"], "results": [shape(r) for r in o["results"]]}
        return {k: v for k, v in o.items() if k in ("raised", "cats", "results")}
    if not fails and proj(obs["seq"]) != proj(obs["inter"]):
        fails.append(("depends-on-consumption-order", "results differ between category-by-category and interleaved "
                      "consumption (script %s)" % case.get("script")))
    base = obs.get("base")
    if not fails and base is not None and "cats" in base and "cats" in obs["seq"]:
        if base["cats"] != obs["seq"]["cats"]:
            fails.append(("tuner-failure-not-isolated", "categories with failing tuners %s: %s, without: %s" %
                          (case["fail"], obs["seq"]["cats"], base["cats"])))
        for c, r, rb in zip(base["cats"], obs["seq"]["results"], base["results"]):
            if c not in case.get("fail", []) and (shape(r) != shape(rb) if sampled else r != rb):
                fails.append(("tuner-failure-not-isolated",
                              "category %s differs when the tuners of %s fail" % (c, case["fail"])))
                break
    return fails


# ---------------------------------------------------------------------------------------------- evidence
def features(case):
    f = {"cassette=" + case["cassette"], "mode=" + case["mode"], "failing-tuners=%d" % len(case.get("fail", [])),
         "config=%s" % case.get("config")}
    if str(case.get("config")).startswith("dedicated"):
        f.add("real-dedicated-processes")
    for c in case.get("fail", []):
        shape = (case.get("fail_shape") or {}).get(c, "msg")
        name, args = FAIL_SHAPES[shape](c)
        f.add("tuner-fails-with=" + shape)
        f.add("tuner-error-args=%s" % ("none" if not args else "one-text" if len(args) == 1 and isinstance(args[0], str)
                                       else "one-non-text" if len(args) == 1 else "several"))
    if case.get("close"):
        f.add("generator-closed-early")
    if "close" in case:
        f.add("uneven-categories-interleaved")
    if case.get("ids"):
        ids = case["ids"]
        f.add("ids=%s" % ("1" if len(ids) == 1 else "2-5" if len(ids) <= 5 else "6-20" if len(ids) <= 20 else "21+"))
        lp = case.get("lp")
        f.add("explicit-ids-with-lookup-properties=%s" % (
            "unlimited" if lp is None else "studio-default" if lp.get("default") else "limit-%s" % lp.get("limit")))
        limit = None if lp is None else 20 if lp.get("default") else lp.get("limit")
        per_cat = {}
        for i in ids:
            c = case["recs"][i]["cat"] if isinstance(i, int) else i.split("/")[0]
            per_cat.setdefault(c, []).append(i)
        if limit is not None and any(len(v) > limit for v in per_cat.values()):
            f.add("more-ids-of-one-category-than-lookup-limit")
            if any(len(set(map(str, v))) > limit for v in per_cat.values()):
                f.add("more-distinct-ids-of-one-category-than-lookup-limit")
        if any(len(v) > 20 for v in per_cat.values()):
            f.add("more-than-20-ids-of-one-category")
        if len(set(map(str, ids))) < len(ids):
            f.add("duplicate-ids")
        if any(not isinstance(i, int) for i in ids):
            f.add("unknown-id")
        cs = [case["recs"][i]["cat"] for i in ids if isinstance(i, int)]
        if any(a != b and b.startswith(a) for a, b in zip(cs, cs[1:])):
            f.add("prefix-category-directly-follows")
    elif case.get("categories") is not None:
        cats = case["categories"]
        if len(set(cats)) < len(cats):
            f.add("duplicate-categories")
            if len(set(cats)) >= 5:
                f.add("duplicate-categories-over-5+-distinct")
        lp = case.get("lp") or {}
        f.add("lookup=%s" % ("default" if lp.get("default") else "limit-%s" % lp.get("limit")))
        if lp.get("random"):
            f.add("lookup-random-sample")
            sizes = [sum(1 for r in case["recs"] if r["cat"] == c and not (r.get("incomplete") and
                                                                         lp.get("skip_incomplete", True)))
                     for c in set(cats)]
            lim = lp.get("limit")
            for n in sizes:
                if n:
                    f.add("random-sample:" + ("unlimited" if lim is None else "limit<category" if lim < n else
                                              "limit=category" if lim == n else "limit>category"))
        if not lp.get("skip_incomplete", True):
            f.add("lookup-keeps-incomplete")
        if case.get("ids") == []:
            f.add("empty-id-list-falls-to-lookup")
    else:
        f.add("nothing-selected")
    for r in case["recs"]:
        f.add("beh=" + ("incomplete" if r.get("incomplete") else r["beh"]))
    return f


def involved_categories(case):
    if case.get("ids"):
        return {case["recs"][i]["cat"] if isinstance(i, int) else i.split("/")[0] for i in case["ids"]}
    return set(case.get("categories") or [])


def nontrivial(case):
    cs = involved_categories(case)
    return any(a != b and b.startswith(a) for a in cs for b in cs)


def shrink_candidates(case):
    ids = case.get("ids") or []
    if len(ids) > 1:
        yield dict(case, ids=ids[:len(ids) // 2])
        yield dict(case, ids=ids[len(ids) // 2:])
        for i in range(len(ids)):
            yield dict(case, ids=ids[:i] + ids[i + 1:])
    cats = case.get("categories") or []
    if not ids and len(cats) > 1:
        for i in range(len(cats)):
            yield dict(case, categories=cats[:i] + cats[i + 1:])
    fl = case.get("fail") or []
    for i in range(len(fl)):
        yield dict(case, fail=fl[:i] + fl[i + 1:])
    if case.get("close"):
        yield dict(case, close={})
    if case.get("config") and not str(case["config"]).startswith("dedicated"):
        yield dict(case, config=None)
    if len(case.get("script") or []) > 1:
        yield dict(case, script=[0])


def search_harder(rng, bad_cases):
    out = []
    for c in bad_cases[:6]:
        for _ in range(12):
            out.append(explicit_case(rng, c["cassette"], c["recs"]))
            out.append(lookup_case(rng, c["cassette"], c["recs"]))
    return out


MANIFEST = dict(
    design_ref='6/C19',
    text='Coq theorems for all id lists, category lists, tuners (any subset failing), lookup oracles and per-recording '
         'behaviours about a hand-written model of PlaybackStudio.play (grouping by the cassette\'s category extraction, '
         'sorted categories, per-category tuning or error, explicit ids or per-category lookup, in-process equalizer with '
         'the tuning carried as tags through every comparison); model tied to /repo on every run by running the real '
         'PlaybackStudio + TapeRecorder over the three real cassettes with a tagging tuner on generated stores/requests '
         'and comparing with the model by vm_compute; direct predicate on the implementation searches for a failing request. '
         'Explicit selections are also played next to lookup properties whose limit (the default 20, or 1-20 supplied '
         'by the caller) is smaller than the number of selected ids of one category: the limit belongs to lookups, every '
         'selected id is played. Lookup-driven runs also ask for a random sample (random_sample=True, seeded `random`) '
         'with no limit / a limit below, at and above the size of a category, several seeds per combination on every '
         'cassette: whatever is drawn, the drawn recordings are distinct, of that category, as many as the limit allows, '
         'and each is replayed exactly once. A failing tuner fails in 19 ways - exceptions without arguments (bare assert, '
         'raise of a class, next() of an empty generator, KeyError(), a custom class), with one text, several, or non-text '
         'arguments (int, None, tuple, bytes, dict, a nested exception, the OSError family) - every way on every cassette for '
         'an explicit and a lookup-driven request: play() returns, the failing category maps to the very exception object '
         'the tuner raised (class and arguments compared with the model, identity checked by the driver), the other '
         'categories replay as without the failure. Lookup-driven runs report - and ask the tuner for - the requested '
         'categories once each in the order of their first occurrence in the request (direct predicate; category lists of 5-9 '
         'distinct categories with repetitions always run): the one order that does not depend on the interpreter\'s string '
         'hash seed.',
    note='Trusted: Coq kernel + vm_compute; hand-written model; correspondence harness (tagging tuner, lookup spy, fake '
         'bucket/clock). Lookup content is an oracle specified by C10; dedicated comparison processes are C08/C13.',
    technique='Coq proof (induction over id / category lists) + model/implementation correspondence by vm_compute',
)
