"""REC - model-validation self check of the recorder model (all observables); not a property."""
from lib import recdsl as rd
from props.rec_common import *  # noqa: F401,F403

ID = "REC"
RUN_MODULE = "RunRec"
RULE = "random histories"


def generate(rng, tier):
    cases = []
    n = 300 if tier == "quick" else 3000
    for _ in range(n):
        runs = []
        nrec = 0
        for _ in range(rng.randrange(1, 4)):
            if nrec and rng.random() < 0.45:
                t = rng.randrange(nrec + 1) if rng.random() < 0.1 else rng.randrange(nrec)
                src = [r for r in runs if r["kind"] == "record"][min(t, nrec - 1)]
                if rng.random() < 0.85:
                    pf = {"kind": "op", "op": rd.clean(src["op"])}
                else:
                    pf = {"kind": "raises", "ty": rng.choice(rd.EXC_TYPES)}
                runs.append(dict(kind="play", target=t, pf=pf, enabled=rng.random() < 0.5))
            else:
                runs.append(dict(kind="record", enabled=rng.random() < 0.93, prm=rd.rand_prm(rng),
                                 op=rd.rand_opdef(rng, rd.DEFAULT_W), save_fails=rng.random() < 0.05))
                nrec += 1
        cases.append(dict(draws=rd.rand_draws(rng), runs=runs, cassette="memory"))
    return cases


def direct(case, obs):
    if "driver_exception" in obs:
        return [("driver", obs["driver_exception"] + obs.get("trace", ""))]
    return []
