"""C11 - recorded data cannot be altered through the values handed out."""
import json

from lib import heapgraph as hg
from lib import pyvals as pv
from lib.gallina import gstr, glist, gopt

ID = "C11"
LOG_LEVEL_INVARIANT = True      # (harness/vp.py: a sample of the cases again with logging at DEBUG; same observables)
RUN_MODULE = "RunC11"
DRIVER = "heap_driver.py"
SHARD = 60
RULE = ("generated object graphs (lists, tuples, sets, dicts, plain objects; nested; shared sub-objects; cycles through "
        "lists/objects in the codec stream) are (codec) encoded/decoded by jsonpickle and by the heap model - exact text, "
        "py/id numbering and the decoded graph's shape compared in Coq; (rec) stored in a MemoryRecording and read "
        "twice; (cas) saved to and fetched from the in-memory, file and S3 cassettes along a random history of lookups, "
        "fetches and in-place mutations; (play) recorded through TapeRecorder and replayed several times while the "
        "replayed code mutates what it is handed; (copy) intercepted with copy-on-interception on and off, with and without an input data handler whose recorded form embeds live call arguments (out-parameter, request object), under every way the recording comes to be saved (sampling rate 0 / in between / 1, force_sample_recording() called before, inside or after the interception, after the in-place mutation or at the end of the operation - a probe stream that always runs enumerates rate x enforcement point x handler; and with the operation class inside a class hierarchy whose OTHER members (base, grand-base, mixin, derived, sibling, unrelated class) are configured on the same recorder with a different copy flag / rate, before or after it, the operation defined in the class or inherited, instance or class-level - a second probe stream that always runs enumerates role x flag x registration order x where the operation is defined: the flag that counts is the one registered for the class the operation runs on; and with the flag given its value in every way a mutable, long-lived RecordingParameters object allows - constructor keyword / positional, keywords of recording_params, or ASSIGNED to the attribute of an existing object before / after its registration, on an object shared by two classes, or by the operation before its first interception - a third probe stream that always runs enumerates way x handler x hierarchy x sampling); (play, stream renamed) replays by a later version of the code whose inputs were renamed - new aliases, the recorded ones as fallback_aliases (list / callable), every input found under a fallback key, asked for twice with an in-place mutation in between; after every replay the played recording holds exactly the keys an independent fetch holds; (rec, stream unser) values with a leaf the serializer refuses, whose copy cannot be made; (deep) reads made at EVERY remaining stack headroom - the copy needs stack of its own, so for every value there is a band of headrooms below the recursion limit in which it cannot be completed: a probe stream that always runs enumerates headroom 1, 2, 3, .. frames until the read succeeded 8 times in a row, for get_data / __getitem__ of a MemoryRecording and of a recording fetched from each cassette, for get_recording itself, and for every way a replay hands recorded values to replayed code that recurses before asking (plain input, pass-through data handler, play_data, output result, recorded exception; one replay per headroom), on flat, generated and 3-40 level nested values: a read may fail there, it never hands out the stored object graph.  The direct "
        "predicate walks the real objects by id() (no shared mutable node between handed-out value and store / other "
        "hand-outs) and compares order-insensitive snapshots before and after the mutations.  non-trivial = at least "
        "one mutable container in a handed-out value; distinct = distinct case")
ASSUMPTIONS = ["the interpreter's recursion limit is the only stack bound exercised (CPython 3.12 counts Python frames; jsonpickle is pure "
               "Python); the deep stream measures its own depth and burns frames with a plain recursive helper",
               "json.loads(json.dumps(x)) is the identity on the JSON produced by the pickler (the model's pickle_copy "
               "passes the AST, the code passes text)",
               "quoted-printable for bytes is an oracle; Coq evaluates only byte strings on which the simple codec is exact",
               "classes named in py/object can be imported when decoding",
               "set elements in the codec stream are small ints in ascending order or a single atom, so that a set's "
               "iteration order is the same before and after a copy (the model carries sets in iteration order)"]
TRUSTED = ["lib/heapgraph.py: graph builder, id()-based walk of mutable nodes, shape/snapshot printers, mutation scripts"]

CTYPES = ["mem", "file", "s3"]
HFORMS = ("result", "pair", "dict", "req", "buf_only", "nested", "fresh")
FORCE_POINTS = ("start", "in_input", "after_input", "after_mutation", "end")
RATES = (0, 0.3, 0.999, 1.0)
FAMILY_ROLES = ("base", "grandbase", "mixin", "derived", "sibling", "unrelated")
KEYS = [k for k in pv.KEY_TEXTS]
ATTRS = ["x", "y", "name", "é", "_p", "items"]
CLS = ["lib.pyvals.Pt", "lib.pyvals.Qt"]
TRACKED = ("list", "obj")


# ---------------------------------------------------------------------------------------------
# generators

def rand_atom(rng, simple=True):
    k = rng.randrange(9)
    if k == 0:
        return pv.none()
    if k == 1:
        return pv.b(rng.random() < 0.5)
    if k in (2, 3):
        return pv.i(rng.choice([0, 1, -1, 2, 7, 255, -2 ** 31, 2 ** 63, 10 ** 25, rng.randrange(-1000, 1000)]))
    if k == 4:
        return {"t": "float", "r": rng.choice(pv.FLOATS)}
    if k in (5, 6):
        return pv.s(rng.choice(pv.STR_TEXTS))
    if k == 7:
        bs = [rng.choice([0, 1, 33, 47, 48, 61, 65, 97, 126, 127, 128, 200, 255]) for _ in range(rng.randrange(0, 6))]
        return {"t": "bytes", "v": bs}
    return {"t": "clsref", "v": rng.choice(CLS)}


def gen_graph(rng, size=8, depth=3, share=0.0, cycles=False, kinds=("list", "list", "dict", "dict", "tuple", "set", "obj"),
              root_kind=None, empty_obj=0.03, reserved_keys=0.03, unser=0.0):
    """A graph in lib.heapgraph's format.  Children are allocated after their parent (pre-order).
    `share`: probability that a child is an existing location (a cross edge, or - with `cycles` - a back
    edge to a node under construction when a list/object lies on the cycle, which is when jsonpickle
    terminates)."""
    heap, stack = [], []

    def legal(q, holder_kind):
        if holder_kind == "set":
            return False
        pos = [i for i, (idx, _) in enumerate(stack) if idx == q]
        if not pos:
            return heap[q] is not None
        if not cycles:
            return False
        return any(k in TRACKED for _, k in stack[pos[0]:])

    def child(d, holder_kind):
        if holder_kind == "set":
            return None
        if share and heap and rng.random() < share:
            q = rng.randrange(len(heap))
            if legal(q, holder_kind):
                return {"l": q}
        if unser and rng.random() < unser:
            return {"t": "unser", "v": rng.randrange(3)}
        if d <= 0 or len(heap) >= size or rng.random() < 0.35:
            return rand_atom(rng)
        return node(d, rng.choice(kinds))

    def node(d, kind):
        idx = len(heap)
        heap.append(None)
        stack.append((idx, kind))
        n = rng.randrange(0, 4)
        if kind in ("list", "tuple"):
            nd = {"k": kind, "v": [child(d - 1, kind) for _ in range(n)]}
        elif kind == "set":
            if rng.random() < 0.6:
                nd = {"k": "set", "v": [pv.i(x) for x in sorted(rng.sample(range(8), n))]}
            else:
                nd = {"k": "set", "v": [pv.s(rng.choice(pv.STR_TEXTS))] if n else []}
        elif kind == "dict":
            keys = rng.sample(KEYS, n)
            if rng.random() < reserved_keys:
                keys.append(rng.choice(["py/id", "py/object", "py/tuple"]))
            nd = {"k": "dict", "v": [[k, child(d - 1, kind)] for k in keys]}
        else:
            n = 0 if rng.random() < empty_obj else rng.randrange(1, 4)
            nd = {"k": "obj", "cls": rng.choice(CLS), "v": [[k, child(d - 1, kind)] for k in rng.sample(ATTRS, n)]}
        heap[idx] = nd
        stack.pop()
        return {"l": idx}

    root = node(depth, root_kind or rng.choice(kinds))
    return {"heap": heap, "root": root}


def value_graph(rng, big=False):
    """A mutable value shape for the direct kinds: nested, with shared sub-objects, no cycles;
    the outermost container is a tuple fairly often (the usual multiple-return-values shape)."""
    rk = rng.choice(["list", "dict", "tuple", "tuple", "obj", "set", "list", "dict"])
    return gen_graph(rng, size=10 if big else 6, depth=3 if big else 2, share=rng.choice([0.0, 0.15, 0.3]),
                     root_kind=rk, empty_obj=0.0, reserved_keys=0.0,
                     kinds=("list", "list", "dict", "dict", "tuple", "set", "obj", "obj"))


def meta_graph(rng):
    g = gen_graph(rng, size=5, depth=2, share=0.1, root_kind="dict", kinds=("list", "dict"), empty_obj=0.0,
                  reserved_keys=0.0)
    root = g["heap"][g["root"]["l"]]
    tags = len(g["heap"])
    g["heap"].append({"k": "list", "v": [pv.s("nightly"), pv.s("eu")]})
    root["v"] = [kv for kv in root["v"] if kv[0] not in ("tenant", "tags")] + [["tenant", pv.s("acme")], ["tags", {"l": tags}]]
    return g


def rand_script(rng):
    return [[rng.randrange(50), rng.randrange(20)] for _ in range(rng.randrange(0, 5))]


def generate(rng, tier):
    q = tier == "quick"
    cases = []
    # ---- codec: tree shaped, with sharing, with cycles, with unserializable leaves
    for _ in range(90 if q else 1500):
        cases.append(dict(kind="codec", stream="tree", graph=gen_graph(rng, size=10, depth=4)))
    for _ in range(120 if q else 2500):
        cases.append(dict(kind="codec", stream="shared",
                          graph=gen_graph(rng, size=12, depth=4, share=rng.choice([0.2, 0.35, 0.5]))))
    for _ in range(50 if q else 800):
        cases.append(dict(kind="codec", stream="cyclic",
                          graph=gen_graph(rng, size=10, depth=4, share=0.4, cycles=True,
                                          kinds=("list", "list", "dict", "tuple", "obj", "obj"))))
    for _ in range(10 if q else 100):
        cases.append(dict(kind="codec", stream="unser", graph=gen_graph(rng, size=6, depth=3, unser=0.2)))
    cases += [dict(kind="codec", stream="fixed", graph=g) for g in FIXED_GRAPHS]
    # ---- the real recording / cassettes / recorder
    for _ in range(40 if q else 600):
        n = rng.randrange(1, 4)
        cases.append(dict(kind="rec", data=[[k, value_graph(rng, big=rng.random() < 0.3)]
                                            for k in rng.sample(["k", "input: a", "x y", "é"], n)],
                          script=rand_script(rng)))
    for _ in range(6 if q else 60):
        # values with a leaf the serializer refuses: the copy cannot be made, the read may fail - or hand out a fresh copy
        cases.append(dict(kind="rec", stream="unser", script=rand_script(rng),
                          data=[["k", gen_graph(rng, size=6, depth=2, unser=0.3, empty_obj=0.0, reserved_keys=0.0,
                                                root_kind=rng.choice(["list", "dict", "obj", "tuple"]))],
                                ["input: a", _g([L(R(1), {"t": "unser", "v": 1}), D(("x", pv.i(1)))])]]))
    for _ in range(14 if q else 200):
        for ctype in CTYPES:
            steps = [rng.choice(["lookup", "lookup_meta", "fetch2", "mutate_fetch", "mutate_read", "metadata_api"])
                     for _ in range(rng.randrange(2, 6))]
            if rng.random() < 0.5:
                steps = [rng.choice(["lookup", "lookup_meta"])] + steps
            if "mutate_fetch" not in steps:
                steps.append("mutate_fetch")
            steps.append("fetch2")
            n = rng.randrange(1, 3)
            cases.append(dict(kind="cas", ctype=ctype,
                              data=[[k, value_graph(rng)] for k in rng.sample(["k", "output: s #1.output", "é"], n)],
                              meta=meta_graph(rng), filter={"tenant": "acme"}, steps=steps, script=rand_script(rng)))
    for _ in range(8 if q else 120):
        for ctype in CTYPES:
            pre = [rng.choice(["none", "lookup", "lookup_meta", "fetch_mutate"]) for _ in range(rng.randrange(2, 4))]
            cases.append(dict(kind="play", ctype=ctype, vin=value_graph(rng), vout=value_graph(rng),
                              vdata=value_graph(rng), pre_steps=pre, script=rand_script(rng)))
    for _ in range(60 if q else 900):
        # copy-on-interception; two thirds with an input DATA HANDLER whose recorded form is built from the result and/or
        # from live objects of the call (an out-parameter the input fills, a request object passed by keyword)
        c = dict(kind="copy", copy=rng.random() < 0.75, vin=value_graph(rng, big=rng.random() < 0.3),
                 vout=value_graph(rng), script=rand_script(rng),
                 hform=rng.choice([None, None, None] + list(HFORMS)), via=rng.choice(["arg", "arg", "kwarg"]),
                 static=rng.random() < 0.25,
                 vbuf=gen_graph(rng, size=5, depth=2, share=0.15, root_kind=rng.choice(["list", "list", "dict", "obj"]),
                                empty_obj=0.0, reserved_keys=0.0),
                 vreq=gen_graph(rng, size=4, depth=2, share=0.1, root_kind=rng.choice(["dict", "obj", "list"]),
                                empty_obj=0.0, reserved_keys=0.0))
        # the sampling configuration of the operation class: half of the cases keep the default parameters, the others draw a
        # rate from RATES and (always for rate 0, which is otherwise never saved) a point where the operation enforces sampling
        if rng.random() < 0.5:
            c["rate"] = rng.choice(RATES)
            c["rseed"] = rng.randrange(1000)
            c["force"] = rng.choice(FORCE_POINTS) if (c["rate"] == 0 or rng.random() < 0.5) else None
        cases.append(c)
    cases += sampling_probes(rng)
    cases += deep_probes(rng, tier)
    cases += family_probes(rng, tier)       # (appended last: the streams above draw exactly what they drew before)
    cases += enable_probes(rng, tier)
    cases += renamed_probes(rng, tier)
    return cases


ENABLE_WAYS = ("ctor", "ctor_pos", "reg_kwargs", "assign_before_reg", "assign_after_reg", "assign_shared", "assign_in_op")


def enable_probes(rng, tier):
    """"With copy-on-interception ENABLED": RecordingParameters is a plain mutable object that lives as long as the recorder,
    so the option can get its value in several ways - constructor keyword, constructor positional, keyword arguments of
    TapeRecorder.recording_params, or ASSIGNED to the attribute of an existing parameters object (constructed with the
    opposite value): before it is registered, after it was registered, on one object registered for two classes, or by the
    operation itself before its first interception.  Always run, both tiers, enumerated: way x no handler / data handler x
    flat class / class hierarchy with a differently configured base x default sampling / rate 0 enforced after the capture
    (copy-on in all of them).  Then a random stream over the same ways with the flag on or off (assigning False to an
    object constructed with True turns copying off: nothing claimed), any handler form, rate and enforcement point."""
    out = []
    for way in ENABLE_WAYS:
        for hform in (None, "dict"):
            for fam in (None, dict(register=[["base", {"copy": False, "rate": None}], ["own", None]], op_in="own", classlevel=False)):
                for rate, force in ((None, None), (0, "after_input")):
                    c = _copy_case(rng, stream="enable", enable=way, hform=hform)
                    if fam:
                        c["family"] = fam
                    if rate is not None:
                        c.update(rate=rate, rseed=rng.randrange(1000), force=force)
                    out.append(c)
    for _ in range(20 if tier == "quick" else 300):
        c = _copy_case(rng, stream="enable", enable=rng.choice(ENABLE_WAYS), copy=rng.random() < 0.75,
                       vin=value_graph(rng, big=rng.random() < 0.3), vout=value_graph(rng), script=rand_script(rng),
                       hform=rng.choice([None, None, None] + list(HFORMS)), via=rng.choice(["arg", "arg", "kwarg"]),
                       static=rng.random() < 0.25)
        if rng.random() < 0.3:
            c["family"] = dict(register=[[rng.choice(FAMILY_ROLES), {"copy": rng.random() < 0.5, "rate": None}], ["own", None]][::rng.choice((1, -1))],
                               op_in=rng.choice(["own", "base"]), classlevel=rng.random() < 0.25)
        if rng.random() < 0.5:
            c["rate"] = rng.choice(RATES)
            c["rseed"] = rng.randrange(1000)
            c["force"] = rng.choice(FORCE_POINTS) if (c["rate"] == 0 or rng.random() < 0.5) else None
        out.append(c)
    return out


def renamed_probes(rng, tier):
    """Replays by a LATER VERSION of the code whose inputs were renamed: it declares them under new aliases with the recorded
    ones as fallback_aliases (a list whose first entry was never recorded either, or a function of the call's arguments), so
    every injected input (plain, through a data handler with an out-parameter, a recorded exception) is found under a
    fallback key.  The replayed code asks for each of them twice and mutates the first answer in between; everything a
    replay hands out is mutated before the next replay.  Always run, both tiers: cassette x list / callable x two histories."""
    out = []
    n = 0
    for ctype in CTYPES:
        for how in ("list", "callable"):
            for pre in (["none", "none"], ["lookup", "fetch_mutate", "none"]):
                vin = value_graph(rng)
                if not any(nd["k"] in hg.MUTABLE_KINDS for nd in vin["heap"]) or n % 2 == 0:
                    vin = _g([T(R(1), pv.i(3)), L(pv.i(30), pv.i(10), pv.i(20))])
                out.append(dict(kind="play", stream="renamed", renamed=how, ctype=ctype, vin=vin, vout=value_graph(rng),
                                vdata=value_graph(rng), pre_steps=pre, script=[[0, 1], [1, 3]] if n % 2 == 0 else rand_script(rng)))
                n += 1
    for _ in range(0 if tier == "quick" else 60):
        pre = [rng.choice(["none", "lookup", "lookup_meta", "fetch_mutate"]) for _ in range(rng.randrange(2, 4))]
        out.append(dict(kind="play", stream="renamed", renamed=rng.choice(["list", "callable"]), ctype=rng.choice(CTYPES),
                        vin=value_graph(rng), vout=value_graph(rng), vdata=value_graph(rng), pre_steps=pre, script=rand_script(rng)))
    return out


def _copy_case(rng, **kw):
    c = dict(kind="copy", copy=True, vin=value_graph(rng), vout=_g([D(("rows", R(1))), L(pv.i(1), pv.i(2))]),
             script=[[0, 1], [1, 3]], hform=None, via="arg", static=False,
             vbuf=_g([L(R(1)), D(("x", pv.i(1)))]), vreq=_g([D(("q", R(1))), L(pv.i(1))]))
    if not any(nd["k"] in hg.MUTABLE_KINDS for nd in c["vin"]["heap"]):
        c["vin"] = _g([T(R(1), pv.i(3)), L(pv.i(30), pv.i(10), pv.i(20))])
    c.update(kw)
    return c


def family_probes(rng, tier):
    """Copy-on-interception is enabled PER OPERATION CLASS, and a recorder serves many classes: the operation class inside a
    class hierarchy (GrandBase <- Base <- Op(Base, Mixin) <- Derived; Sibling(Base); Unrelated) whose other members are
    configured on the same recorder with parameters of their own.  Always run, both tiers, enumerated: which other class is
    configured (base, grandbase, mixin, derived, sibling, unrelated) x its copy flag x whether it was registered before or
    after the operation class x where the decorated operation is defined (the class itself / inherited from Base); data
    handler, class-level operation and the other class's sampling rate (default / 1.0 - the recording is saved either way)
    alternate.  Copy-on is enabled for the operation class in all of them: what is recorded must be the copy.  Then a random
    stream: 1-3 other classes, any parameters (copy flag, sampling rate incl. 0, skipped, ignore_enforced_sampling), any
    registration order, the case's own flag / rate / enforcement point drawn as in the main copy stream."""
    out = []
    n = 0
    for role in FAMILY_ROLES:
        for other_copy in (False, True):
            for order in ("before", "after"):
                for op_in in ("own", "base"):
                    other = [role, {"copy": other_copy, "rate": (None, 1.0)[n % 2]}]
                    reg = [other, ["own", None]] if order == "before" else [["own", None], other]
                    out.append(_copy_case(rng, stream="family", hform=(None, "dict", None, "pair")[(n // 2) % 4],
                                          family=dict(register=reg, op_in=op_in, classlevel=(n // 3) % 4 == 3)))
                    n += 1
    for _ in range(24 if tier == "quick" else 400):
        others = [[rng.choice(FAMILY_ROLES), {"copy": rng.random() < 0.4, "rate": rng.choice((None, None) + RATES),
                                              "skipped": rng.random() < 0.1, "ignore": rng.random() < 0.1}]
                  for _ in range(rng.randrange(1, 4))]
        seen, reg = set(), []
        for o in others:                                    # one registration per class
            if o[0] not in seen:
                seen.add(o[0])
                reg.append(o)
        reg.insert(rng.randrange(len(reg) + 1), ["own", None])
        c = _copy_case(rng, stream="family", copy=rng.random() < 0.75, vin=value_graph(rng, big=rng.random() < 0.3),
                       vout=value_graph(rng), script=rand_script(rng), hform=rng.choice([None, None, None] + list(HFORMS)),
                       via=rng.choice(["arg", "arg", "kwarg"]), static=rng.random() < 0.25,
                       family=dict(register=reg, op_in=rng.choice(["own", "own", "base", "grandbase"]),
                                   classlevel=rng.random() < 0.25))
        if rng.random() < 0.5:
            c["rate"] = rng.choice(RATES)
            c["rseed"] = rng.randrange(1000)
            c["force"] = rng.choice(FORCE_POINTS) if (c["rate"] == 0 or rng.random() < 0.5) else None
        out.append(c)
    return out


def sampling_probes(rng):
    """Copy-on-interception under every way a recording comes to be saved (always run, both tiers): sampling rate
    0 / in between / 1 x the point of the operation where force_sample_recording() is called (never, before the input is
    intercepted, inside the intercepted input, after the interception but before the in-place mutation, after the mutation,
    at the end) x without / with an input data handler; copy-on-interception on, values with at least one mutable node.
    The cases whose recording is not saved (rate 0 never enforced, a losing draw) say nothing and are reported as such."""
    out = []
    for rate in (0, 0.5, 1.0):
        for force in (None,) + FORCE_POINTS:
            for hform in (None, "dict"):
                vin = value_graph(rng)
                if not any(nd["k"] in hg.MUTABLE_KINDS for nd in vin["heap"]):
                    vin = _g([T(R(1), pv.i(3)), L(pv.i(30), pv.i(10), pv.i(20))])
                out.append(dict(kind="copy", stream="sampling", copy=True, vin=vin,
                                vout=_g([D(("rows", R(1))), L(pv.i(1), pv.i(2))]), script=[[0, 1], [1, 3]],
                                hform=hform, via="arg", static=False, rate=rate, rseed=rng.randrange(1000), force=force,
                                vbuf=_g([L(R(1)), D(("x", pv.i(1)))]), vreq=_g([D(("q", R(1))), L(pv.i(1))])))
    return out


def nested_graph(levels, kind="dict"):
    """An ordinary nested configuration: `levels` levels of dict -> dict (or object -> object / list -> list), each with a
    small list beside the child, a dict with a list at the bottom."""
    heap = []
    for i in range(levels):
        child, tags = {"l": 2 * i + 2}, {"l": 2 * i + 1}
        if kind == "dict":
            heap.append(D(("child", child), ("tags", tags)))
        elif kind == "obj":
            heap.append(O(("x", child), ("items", tags)))
        else:
            heap.append(L(child, tags))
        heap.append(L(pv.s("level-%d" % i)))
    heap.append(D(("leaf", {"l": 2 * levels + 1})))
    heap.append(L(pv.i(1), pv.i(2), pv.i(3)))
    return _g(heap)


def deep_probes(rng, tier):
    """Reads at every remaining stack headroom (always run, both tiers).  The copy a read makes needs stack of its own, so for
    every value there is a band of headrooms (tens to a few hundred frames below the recursion limit) in which the copy cannot be
    completed; the driver ENUMERATES the headrooms h = 1, 2, ... until the read has succeeded 8 times in a row, for get_data and
    __getitem__ of a MemoryRecording ("rec"), of a recording fetched from each cassette and the fetch itself ("cas"), and for
    every way a replay hands a recorded value to replayed code that recurses before asking ("play": plain input, input with
    a pass-through data handler, play_data, output result, recorded exception).  Values: flat, generated, and deeply nested
    ones (the band grows by ~4 frames per nesting level)."""
    out = []
    flat = _g([L(pv.i(3), pv.i(1), pv.i(2))])
    small = _g([D(("rows", R(1)), ("o", R(2))), L(pv.i(1), R(2)), O(("x", R(3))), L(pv.s("a"))])
    for k, n in enumerate((12, 40)):
        kind = ("dict", "obj", "list")[k % 3]
        out.append(dict(kind="deep", path="rec", data=[["flat", flat], ["input: small", small], ["nested", nested_graph(n, kind)],
                                                       ["gen", value_graph(rng, big=True)]],
                        script=[[0, 0], [1, 1], [2, 6]] + rand_script(rng)))
    for k, ctype in enumerate(CTYPES):
        out.append(dict(kind="deep", path="cas", ctype=ctype,
                        data=[["k", small if k else flat], ["input: n", nested_graph(6 + 3 * k, ("obj", "list", "dict")[k])]],
                        meta=meta_graph(rng), script=[[0, 0], [1, 6]] + rand_script(rng)))
    for k, ctype in enumerate(CTYPES if tier != "quick" else CTYPES[:2]):
        out.append(dict(kind="deep", path="play", ctype=ctype,
                        vin=[small, nested_graph(8, "dict"), value_graph(rng)][k], vout=[flat, small, value_graph(rng)][k],
                        vdata=[nested_graph(3, "list"), flat, small][k], script=[[0, 0], [1, 6]] + rand_script(rng)))
    return out


def _g(heap, root=0):
    return {"heap": heap, "root": {"l": root}}


L = lambda *v: {"k": "list", "v": list(v)}          # noqa: E731
T = lambda *v: {"k": "tuple", "v": list(v)}         # noqa: E731
D = lambda *kv: {"k": "dict", "v": [list(x) for x in kv]}   # noqa: E731
O = lambda *kv: {"k": "obj", "cls": "lib.pyvals.Pt", "v": [list(x) for x in kv]}   # noqa: E731
R = lambda i: {"l": i}                              # noqa: E731

FIXED_GRAPHS = [
    _g([L(R(1), R(1)), L(pv.i(1), pv.i(2))]),                                   # [a, a]
    _g([L(R(1), R(1)), D(("x", pv.i(1)))]),                                     # [d, d]: dicts are not referenced
    _g([T(R(1), R(1)), L(pv.i(1))]),                                            # (a, a)
    _g([L(R(1), R(1)), T(R(2), R(2)), L(pv.i(1))]),                             # [t, t], t = (a, a)
    _g([L(R(1), R(3), R(3)), O(("y", R(2))), L(pv.i(3)), L(pv.i(7))]),          # [o, a, a], o.y a list: ids shifted
    _g([L(R(1), R(2)), O(("y", R(2))), L(pv.i(1))]),                            # [o, o.y]
    _g([L(R(1), R(1)), O()]),                                                   # [o, o], o without attributes
    _g([L(pv.i(1), R(0))]),                                                     # c = [1, c]
    _g([O(("self", R(0)), ("n", pv.i(1)))]),                                    # o.self = o
    _g([O(("y", R(1))), L(R(1))]),                                              # o.y = c, c = [c]: decode recurses
    _g([D(("j", R(1)), ("k", R(2))), L(pv.i(1), pv.i(2)), L(R(1), R(3)), D(("z", R(1)))]),
    _g([T()]), _g([L(R(1), R(2)), T(), T()]),
    _g([D(("py/object", pv.s("x")), ("a", pv.i(1)))]),
    _g([O(("x", R(1)), ("y", R(2))), O(("z", pv.i(1))), L(R(3)), O(("w", pv.i(2)))]),
]


# ---------------------------------------------------------------------------------------------
# Gallina

def atoms_ok(graph):
    for nd in graph["heap"]:
        refs = nd["v"] if nd["k"] in ("list", "tuple", "set") else [c for _, c in nd["v"]]
        for r in refs:
            if not hg.is_loc(r):
                if r["t"] == "bytes" and not pv.simple_bytes_ok(r["v"]):
                    return False
                if r["t"] == "other":
                    return False
    return True


def to_gallina(case, obs):
    if case["kind"] != "codec" or "driver_exception" in obs:
        return None
    graph = case["graph"]
    if not atoms_ok(graph) or len(graph["heap"]) > 400:
        return None
    heap = []
    for i, nd in enumerate(graph["heap"]):
        if nd["k"] == "set":
            order = obs["set_orders"].get(str(i))
            if order is None or any(x["t"] == "other" for x in order):
                return None
            nd = {"k": "set", "v": order}
        heap.append(nd)
    enc = obs.get("enc")
    js = None
    if enc is not None:
        try:
            js = hg.gjson(json.loads(enc))
        except (ValueError, RecursionError):
            return None
    g = lambda s: gopt(None if s is None else gstr(s))      # noqa: E731
    return "Case %s %s %s %s %s %s %s" % (hg.gheap(heap), hg.gref(graph["root"]), gstr(obs["orig_shape"]), g(enc),
                                          gopt(js), g(obs.get("dec_shape")), g(obs.get("reenc")))


def explain(case, obs):
    t = to_gallina(case, obs)
    return "model_view (%s)" % t if t else "tt"


# ---------------------------------------------------------------------------------------------
# direct predicate

def _sh(x):
    return bool(x) and x.get("n", 0) > 0


def direct(case, obs):
    if "driver_exception" in obs:
        return [("driver", obs["driver_exception"] + " " + obs.get("trace", "")[-400:])]
    kind = case["kind"]
    f = []
    if "skipped" in obs:
        return f
    if kind == "codec":
        if _sh(obs.get("copy_shares_original")):
            f.append(("codec-copy-shares-original", "decode(encode(v)) shares a mutable node with v: %r" % obs["copy_shares_original"]))
    elif kind == "rec":
        for o in obs["keys"]:
            k = o["key"]
            if "skipped" in o:
                continue
            for name, sig in (("share_read_stored", "rec-read-shares-stored"), ("share_item_stored", "rec-read-shares-stored"),
                              ("share_two_reads", "rec-two-reads-share")):
                if _sh(o[name]):
                    f.append((sig, "key %r: %s: a mutable node is reachable from both (%s / %s)" %
                              (k, name, o[name].get("in_a"), o[name].get("in_b"))))
            if not o["two_reads_equal"]:
                f.append(("rec-two-reads-differ", "key %r: get_data and __getitem__ returned different data" % k))
            if not (o["reread_same"] and o["reread_same_2"]):
                f.append(("rec-later-read-differs", "key %r: after mutating a read value a later get_data differs: %s -> %s" %
                          (k, o.get("first_read"), o.get("later_read"))))
            if not o["stored_same"]:
                f.append(("rec-stored-altered", "key %r: mutating a read value changed the stored datum: %s -> %s" %
                          (k, o.get("stored_before"), o.get("stored_after"))))
            if not o["other_read_same"]:
                f.append(("rec-other-read-altered", "key %r: mutating one read value changed another read value" % k))
    elif kind == "cas":
        t = case["ctype"]
        if _sh(obs["share_fetch_saved"]):
            f.append(("cas-%s-fetch-shares-saved-object" % t, "a fetched recording shares %r with the recording object "
                      "that was saved" % obs["share_fetch_saved"]))
        if not obs["after_mutating_saved_object"]:
            f.append(("cas-%s-store-follows-saved-object" % t, "changing the saved recording object after save changed what a fetch returns"))
        if _sh(obs["share_fetch_cassette"]):
            f.append(("cas-%s-fetch-shares-cassette" % t, "a fetched recording shares a mutable node with the cassette's own state: %r" %
                      obs["share_fetch_cassette"]))
        for i, s in enumerate(obs["steps"]):
            if _sh(s.get("share")):
                f.append(("cas-%s-two-fetches-share" % t, "step %d (%s): two fetches of the same id share %r" % (i, s["step"], s["share"])))
            if _sh(s.get("share_cassette")):
                f.append(("cas-%s-fetch-shares-cassette" % t, "step %d (%s): a fetch shares a mutable node with the cassette's own "
                          "state: %r" % (i, s["step"], s["share_cassette"])))
            if s.get("equal") is False:
                f.append(("cas-%s-fetch-differs" % t, "step %d (%s): fetched data differs from what was saved" % (i, s["step"])))
            if s.get("reads_same") is False:
                f.append(("cas-%s-read-altered" % t, "step %d: mutating get_data results of a fetched recording changed its later reads" % i))
            if not s["fetch_same"]:
                f.append(("cas-%s-later-fetch-differs" % t, "after step %d (%s; history %s) a fresh fetch differs from the first: %s -> %s" %
                          (i, s["step"], case["steps"][:i + 1], s.get("saved"), s.get("later"))))
    elif kind == "play":
        t = case["ctype"]
        p0 = obs["plays"][0] if obs["plays"] else None
        for i, p in enumerate(obs["plays"]):
            if p["share_injected_recording"]:
                f.append(("play-%s-injected-shares-recording" % t, "replay %d%s: a value handed to the replayed code shares a mutable node with "
                          "the playback recording: %r" % (i, _renamed_text(case), p["share_detail"])))
            if p["share_two_reads"]:
                f.append(("play-%s-two-injections-share" % t, "replay %d: two values injected for the same key share a mutable node" % i))
            if not all(p["second_read_same"]):
                f.append(("play-%s-second-injection-sees-mutation" % t, "replay %d%s: the replayed code mutated an injected value and the next "
                          "injection of the same key differs (input/data/exception/out-parameter: %r)" %
                          (i, _renamed_text(case), p["second_read_same"])))
            if _sh(p["share_outputs_recording"]):
                f.append(("play-%s-recorded-outputs-share-recording" % t, "replay %d: Playback.recorded_outputs shares %r with the recording" %
                          (i, p["share_outputs_recording"])))
            if _sh(p["share_earlier_plays"]):
                f.append(("play-%s-replays-share" % t, "replay %d shares a mutable node with what an earlier replay/fetch handed out: %r" %
                          (i, p["share_earlier_plays"])))
            if p.get("recording_keys", []) != p.get("recording_keys_fetched", []):
                f.append(("play-%s-replay-changes-recording-keys" % t, "replay %d%s: after the replay the played recording "
                          "(Playback.original_recording) holds keys %r, an independent fetch of the same id made before holds %r" %
                          (i, _renamed_text(case), p.get("recording_keys"), p.get("recording_keys_fetched"))))
            if not p["duration_ok"]:
                f.append(("play-%s-later-replay-differs" % t, "replay %d (after %s): recorded_duration is not the recorded one" % (i, p["pre"])))
            if i > 0:
                for name in ("injected", "recorded_outputs", "playback_outputs", "metadata"):
                    if p[name] != p0[name]:
                        f.append(("play-%s-later-replay-differs" % t, "replay %d (after %s, and after mutating everything replay %d handed out) "
                                  "observes different %s: %s -> %s" % (i, p["pre"], i - 1, name, str(p0[name])[:300], str(p[name])[:300])))
                        break
    elif kind == "deep":
        f += direct_deep(case, obs)
    elif kind == "copy":
        if not obs.get("saved", True) and not must_be_saved(case):
            return f                    # not sampled (rate < 1, not enforced): no recording, nothing is claimed
        for o in obs["values"]:
            if not o.get("recorded"):
                f.append(("copy-not-recorded", "%s: nothing recorded (sampling rate %r, sampling enforced at %r%s)" %
                          (o["tag"], case.get("rate"), case.get("force"),
                           "; " + _family_text(case["family"]) if case.get("family") else "")))
                continue
            if case["copy"] and o["copy_possible"]:
                how = "data handler form %r" % case.get("hform") if (case.get("hform") and o["tag"] == "in") else "no data handler"
                if case.get("rate") is not None or case.get("force"):
                    how += "; sampling rate %r, force_sample_recording() at %r" % (case.get("rate"), case.get("force"))
                if case.get("family"):
                    how += "; " + _family_text(case["family"])
                if case.get("enable", "ctor") != "ctor":
                    how += "; copy flag set by: " + ENABLE_TEXT[case["enable"]]
                if _sh(o["share_recorded_result"]):
                    f.append(("copy-on-recorded-shares-result", "%s (%s): with copy-on-interception the recorded value shares %r with the value "
                              "returned to the service" % (o["tag"], how, o["share_recorded_result"])))
                if _sh(o.get("share_recorded_args")):
                    f.append(("copy-on-recorded-shares-live-argument", "%s (%s): with copy-on-interception the recorded value shares %r with an "
                              "object the caller passed in (out-parameter / request) and keeps using" %
                              (o["tag"], how, o["share_recorded_args"])))
                if not o["recorded_equals_copy_at_capture"]:
                    f.append(("copy-on-recording-follows-later-mutation", "%s (%s): with copy-on-interception the recorded value is not the copy "
                              "of what was captured: %s vs %s" % (o["tag"], how, o.get("recorded_snap"), o.get("at_capture"))))
    return f


ENABLE_TEXT = {
    "ctor_pos": "RecordingParameters(rate, False, False, flag) (positional)",
    "reg_kwargs": "recorder.recording_params(copy_data_on_intercepion=flag, ..) (keywords of the registration)",
    "assign_before_reg": "params.copy_data_on_intercepion = flag assigned on an existing parameters object before it is registered",
    "assign_after_reg": "params.copy_data_on_intercepion = flag assigned after the parameters object was registered for the class",
    "assign_shared": "params.copy_data_on_intercepion = flag assigned on one parameters object registered for two classes",
    "assign_in_op": "params.copy_data_on_intercepion = flag assigned by the operation before its first interception",
}


def _renamed_text(case):
    if not case.get("renamed"):
        return ""
    return (" (the replayed code declares its inputs under new aliases <alias>_v2 with fallback_aliases = [<alias>_v0, <recorded alias>] "
            "given as a %s)" % case["renamed"])


def _family_text(fam):
    return ("operation class Op in a hierarchy (GrandBase <- Base <- Op(Base, Mixin) <- Derived, Sibling(Base), Unrelated), %s "
            "operation defined in %s; recording_params registered on the same recorder, in this order: %s" %
            ("class-level" if fam.get("classlevel") else "instance", fam.get("op_in", "own"),
             ", ".join("Op (the case's own parameters)" if w == "own" else "%s %s" % (w, json.dumps(p, sort_keys=True))
                       for w, p in fam["register"])))


def _band(o):
    return "outcome per stack headroom [from, to, outcome]: %s" % (o["outcomes"],)


def direct_deep(case, obs):
    """A read / fetch / injection made with ANY stack headroom either fails or hands out a fresh copy."""
    f = []
    path = case["path"]
    where = path if path == "rec" else "%s-%s" % (path, case["ctype"])
    for o in obs.get("keys", []):
        if "skipped" in o:
            continue
        for name in ("get_data", "getitem"):
            if name not in o:
                continue
            r = o[name]
            b = r["bad"]
            if "share" in b:
                f.append(("deep-%s-read-shares-stored" % where, "key %r: %s called with %d frames of stack left handed out the stored "
                          "object itself (%s / %s; %d mutable nodes shared) instead of failing or copying; %s" %
                          (o["key"], name, b["share"]["h"], b["share"].get("in_a"), b["share"].get("in_b"), b["share"]["n"], _band(r))))
            if "altered" in b:
                a = b["altered"]
                f.append(("deep-%s-later-read-differs" % where, "key %r: after mutating what %s handed out with %d frames of stack left, "
                          "a later read differs: %s -> %s (stored %s -> %s)" %
                          (o["key"], name, a["h"], a["first_read"], a["later_read"], a["stored_before"], a["stored_after"])))
    if "fetch" in obs:
        b = obs["fetch"]["bad"]
        if "share" in b:
            f.append(("deep-%s-fetch-shares" % where, "get_recording called with %d frames of stack left returned a recording that shares "
                      "%r with an earlier fetch / the saved object / the cassette; %s" % (b["share"]["h"], b["share"], _band(obs["fetch"]))))
        if "altered" in b:
            f.append(("deep-%s-later-fetch-differs" % where, "after mutating what get_recording returned with %d frames of stack left a "
                      "fresh fetch differs: %s -> %s" % (b["altered"]["h"], b["altered"]["saved"], b["altered"]["later"])))
    if path == "play" and "bad" in obs:
        b = obs["bad"]
        if "share" in b:
            f.append(("deep-%s-injected-shares-recording" % where, "replayed code that asked for %r with %d frames of stack left was handed "
                      "an object of the playback recording itself (%s / %s); %s" %
                      (b["share"]["tag"], b["share"]["h"], b["share"].get("in_a"), b["share"].get("in_b"),
                       _band(obs["tags"][b["share"]["tag"]]))))
        if "second" in b:
            f.append(("deep-%s-second-injection-sees-mutation" % where, "replayed code mutated what it was handed for %r with %d frames of "
                      "stack left; the next request of the same key returns %s, recorded was %s" %
                      (b["second"]["tag"], b["second"]["h"], b["second"]["second"], b["second"]["recorded"])))
        if "recording" in b:
            f.append(("deep-%s-recording-altered-by-replay" % where, "after the replay that read with %d frames of stack left, %s differs "
                      "from the recording: %s -> %s" % (b["recording"]["h"], b["recording"]["which"], b["recording"]["before"],
                                                        b["recording"]["after"])))
    return f


def must_be_saved(case):
    """The recording of a copy case is certainly saved: default / full sampling rate, or sampling enforced by the operation."""
    rate = case.get("rate")
    return rate is None or rate >= 1 or bool(case.get("force"))


def shrink_candidates(case):
    out = []
    if case["kind"] in ("cas",) and len(case["steps"]) > 1:
        for i in range(len(case["steps"])):
            c = dict(case)
            c["steps"] = case["steps"][:i] + case["steps"][i + 1:]
            out.append(c)
    if case["kind"] == "play" and len(case["pre_steps"]) > 2:
        for i in range(len(case["pre_steps"])):
            c = dict(case)
            c["pre_steps"] = case["pre_steps"][:i] + case["pre_steps"][i + 1:]
            out.append(c)
    if case.get("script"):
        c = dict(case)
        c["script"] = []
        out.append(c)
    if case["kind"] in ("rec", "cas", "deep") and len(case.get("data", [])) > 1:
        for i in range(len(case["data"])):
            c = dict(case)
            c["data"] = case["data"][:i] + case["data"][i + 1:]
            out.append(c)
    return out


def search_harder(rng, bad_cases):
    """A codec disagreement: push the disagreeing graphs through the real recording / cassettes / recorder."""
    out = []
    for c in bad_cases[:10]:
        if c["kind"] != "codec":
            continue
        g = c["graph"]
        out.append(dict(kind="rec", data=[["k", g]], script=rand_script(rng)))
        out.append(dict(kind="copy", copy=True, vin=g, vout=g, script=rand_script(rng)))
        for ctype in CTYPES:
            out.append(dict(kind="cas", ctype=ctype, data=[["k", g]], meta=meta_graph(rng), filter={"tenant": "acme"},
                            steps=["lookup", "mutate_fetch", "fetch2"], script=rand_script(rng)))
    return out


# ---------------------------------------------------------------------------------------------
# evidence

def _graphs(case):
    k = case["kind"]
    if k == "codec":
        return [case["graph"]]
    if k in ("rec", "cas") or (k == "deep" and "data" in case):
        return [g for _, g in case["data"]]
    if k == "deep":
        return [case["vin"], case["vout"], case["vdata"]]
    if k == "play":
        return [case["vin"], case["vout"], case["vdata"]]
    return [case["vin"], case["vout"]] + [case[k] for k in ("vbuf", "vreq") if k in case]


def _has_sharing(g):
    cnt = {}
    for nd in g["heap"]:
        refs = nd["v"] if nd["k"] in ("list", "tuple", "set") else [c for _, c in nd["v"]]
        for r in refs:
            if hg.is_loc(r):
                cnt[r["l"]] = cnt.get(r["l"], 0) + 1
    return any(v > 1 for v in cnt.values())


def _nesting(g):
    """longest chain of containers below the root (acyclic graphs)"""
    memo = {}

    def go(i, seen):
        if i in memo:
            return memo[i]
        if i in seen:
            return 0
        nd = g["heap"][i]
        refs = nd["v"] if nd["k"] in ("list", "tuple", "set") else [c for _, c in nd["v"]]
        d = 1 + max([go(r["l"], seen | {i}) for r in refs if hg.is_loc(r)] or [0])
        memo[i] = d
        return d
    return go(g["root"]["l"], frozenset())


def features(case):
    f = {"kind:" + case["kind"]}
    if "ctype" in case:
        f.add("%s:%s" % (case["kind"], case["ctype"]))
    if "stream" in case:
        f.add(("codec:" if case["kind"] == "codec" else case["kind"] + "-stream:") + case["stream"])
    for g in _graphs(case):
        f.add("root:" + g["heap"][g["root"]["l"]]["k"])
        for nd in g["heap"]:
            f.add("node:" + nd["k"])
        if _has_sharing(g):
            f.add("shared-sub-object")
    for s in case.get("steps", []):
        f.add("step:" + s)
    for s in case.get("pre_steps", []):
        f.add("before-replay:" + s)
    if case["kind"] == "play":
        f.add("replayed-code-aliases:%s" % ("renamed, recorded alias as fallback (%s)" % case["renamed"] if case.get("renamed") else "as recorded"))
    if case["kind"] == "deep":
        f.add("deep:" + case["path"])
        f.add("read-at-every-stack-headroom")
        depth = max(_nesting(g) for g in _graphs(case))
        f.add("deep-value-nesting:%s" % ("1-3" if depth <= 3 else "4-15" if depth <= 15 else "16+"))
    if case["kind"] == "copy":
        f.add("copy-flag:%s" % case["copy"])
        f.add("data-handler:%s" % case.get("hform"))
        f.add("out-parameter-via:%s" % case.get("via"))
        f.add("static-input" if case.get("static") else "instance-input")
        rate = case.get("rate")
        f.add("sampling-rate:%s" % ("default" if rate is None else "0" if rate == 0 else "1" if rate >= 1 else "between"))
        f.add("sampling-enforced:%s" % case.get("force"))
        if case["copy"] and rate == 0 and case.get("force") in ("after_input", "after_mutation", "end"):
            f.add("copy-on:rate-0-enforced-after-capture")
        f.add("copy-flag-set-by:%s" % case.get("enable", "ctor"))
        fam = case.get("family")
        f.add("operation-class:%s" % ("in-hierarchy" if fam else "flat, the only configured class"))
        if fam:
            f.add("operation-defined-in:%s" % fam.get("op_in", "own"))
            f.add("operation:%s" % ("class-level" if fam.get("classlevel") else "instance"))
            own_at = [w for w, _ in fam["register"]].index("own") if any(w == "own" for w, _ in fam["register"]) else None
            for i, (w, p) in enumerate(fam["register"]):
                if w != "own":
                    f.add("also-configured:%s:%s" % (w, "before" if own_at is None or i < own_at else "after"))
                    f.add("also-configured-copy-flag:%s" % ("same" if bool(p.get("copy")) == bool(case["copy"]) else "differs"))
                    if p.get("skipped"):
                        f.add("also-configured:skipped-class")
                    if p.get("rate") is not None and p.get("rate") < 1:
                        f.add("also-configured:lower-sampling-rate")
    return f


def nontrivial(case):
    return any(any(nd["k"] in hg.MUTABLE_KINDS for nd in g["heap"]) for g in _graphs(case))


MANIFEST = dict(
    design_ref='6/C11',
    text="Coq theorems on a heap model where identity and in-place mutation are expressible (locations, list/tuple/set/dict/object nodes): decode allocates only new locations (the old heap is a prefix, everything reachable from the result is new); a get_data result is such a decode of the stored datum's encoding, and for EVERY heap that agrees with the old one on the old locations - in particular after any sequence of in-place mutations and allocations made through the handed-out value (mutation locality + closure theorem) - the stored datum and the whole recording encode exactly as before; cassettes hold text, two fetches of one id occupy disjoint location ranges and mutating one changes neither the other nor a later fetch; with copy-on-interception the recorded value is a decode of the result's encoding at capture and later mutation of the result leaves its encoding unchanged, with the flag off a concrete example shows the recording does change (documented aliasing); a copy re-encodes to the same JSON, so reads and copy-on recordings are faithful (three _partial theorems: proved for canonical encodings without py/id, i.e. no list/object met twice; false with py/id, witness example).  The model (jsonpickle 0.9.3 encode incl. py/id numbering, decode incl. id table and the second restore pass over object state) is tied to /repo on every run by comparing exact encode text, decoded graph shape and re-encode text for generated graphs with sharing and cycles.  Direct predicate on the real MemoryRecording, TapeRecorder.play, recorded_outputs, copy-on-interception (for every sampling rate / enforced-sampling point under which the recording is saved, for a flat operation class and for one inside a class hierarchy whose other classes are configured differently on the same recorder, the option enabled through the constructor, the registration keywords or by assigning the attribute of an existing parameters object), replays whose inputs are found under fallback aliases, and all three cassettes - at ordinary stack depth and, enumerated frame by frame, at every stack headroom at which the copy a read has to make cannot be completed (a read may raise there, never hand out the stored object) - : id()-walk disjointness of mutable nodes between every handed-out value and the store / other hand-outs, then scripted in-place mutation through every reachable mutable node and re-read / re-fetch / re-play comparison.",
    note='Trusted: Coq kernel + vm_compute; hand-written heap model of jsonpickle 0.9.3 on py3.12 for lists/tuples/sets/str-keyed dicts/plain objects (custom __getstate__/__reduce__ classes, non-str keys, exceptions are outside the model and covered by the direct predicate only); json.dumps/json.loads taken as inverse on pickler output; quoted-printable oracle.  Round trip of a copy is proved for id-free encodings only (partial): with shared lists/objects jsonpickle itself mis-resolves py/id after an object whose state holds a list (model reproduces it; a fidelity matter of C07, not independence).  Output arguments are never copied even with copy-on (flag covers intercepted return values): observation, not claimed.',
    technique='Coq proof (fuel induction over a heap model with explicit locations; locality/frame lemmas) + exact-text and graph-shape correspondence by vm_compute + id()-based aliasing walk and mutate/re-read/re-fetch/re-play differential run on the real classes',
)
