"""Probe stream "alias" of C02 and C03 (implementation only, deterministic, both tiers): replayed code works IN PLACE on the
mutable values a replay hands to it and then asks again / sends them on.  The recorder model's program DSL has immutable values
only, so this region of both properties' quantifiers ("all replayed programs", "all values") was never exercised.
Driver: harness/impl/alias_probes.py.  `install(globals(), "C02"|"C03")` at the end of a property module adds the stream to
its generator and wraps its hooks (history cases keep going to the module's own functions)."""
from lib import pyvals as pv
from props.c01 import MUT_SHAPES, canon_rec

_I, _S, _L, _D = pv.i, pv.s, pv.lst, pv.dct
_O = lambda cls, kv: {"t": "obj", "cls": "lib.pyvals." + cls, "v": [list(x) for x in kv]}      # noqa: E731
_pair = lambda k, v: _L([_S(k), v])                                                              # noqa: E731
CASSETTES = ["memory", "file", "s3"]
OP_KEY = "output: _tape_recorder_operation #1.output"


# ---- C02: the same call requested again after the replayed code changed the first answer in place ----------------------------

def c02_cases():
    """every container shape an input can return (props.c01.MUT_SHAPES) x data handler {none, pass-through, wrapping - both
    restore steps keep a reference to the recorded form} : request, change in place (replay only), request again; the same for
    a recorded exception (its attributes) and for an output's result; replayed twice (recording enabled / disabled)."""
    out = []
    for k, (name, value, muts) in enumerate(MUT_SHAPES):
        for j, handler in enumerate(("none", "plain", "wrap")):
            steps = [["in", "a", "load", _I(1)]]
            steps += [["only", [0, 1], ["mut", "a", path, op, arg]] for path, op, arg in muts]
            steps += [["in", "b", "load", _I(1)], ["in", "c", "load", _I(1)], ["ret", ["b", "c"]]]
            out.append(dict(kind="alias", pid="C02", shape=name, what="input", handler=handler, cassette=CASSETTES[(k + j) % 3],
                            inputs={"load": {"value": value, "handler": handler}}, outputs={}, steps=steps, plays=2))
    for k, (name, value, muts) in enumerate(MUT_SHAPES[5:9]):
        # a recorded exception carrying data: the replayed code's handler changes it in place, then the call fails again
        steps = [["in", "a", "load", _I(1)], ["only", [0, 1], ["mut", "a", [], "setattr", _pair("handled", _L([_I(1)]))]]]
        steps += [["only", [0, 1], ["mut", "a", [["attr", "detail"]] + path, op, arg]] for path, op, arg in muts]
        steps += [["in", "b", "load", _I(1)], ["ret", []]]
        out.append(dict(kind="alias", pid="C02", shape=name, what="exception", handler="none", cassette=CASSETTES[k % 3],
                        inputs={"load": {"value": value, "handler": "none", "raises": True}}, outputs={}, steps=steps, plays=2))
    for k, (name, value, muts) in enumerate(MUT_SHAPES[5:11]):
        # an output's recorded result: changed in place by the replayed code; the recording must stay what it was
        steps = [["new", "d", _I(k)], ["out", "r", "store", ["d"]]]
        steps += [["only", [0, 1], ["mut", "r", path, op, arg]] for path, op, arg in muts]
        steps += [["in", "b", "load", _I(1)], ["ret", ["b"]]]
        out.append(dict(kind="alias", pid="C02", shape=name, what="output-result", handler="none", cassette=CASSETTES[k % 3],
                        inputs={"load": {"value": value, "handler": "none"}},
                        outputs={"store": {"ret": "fresh", "value": value, "handler": "none"}}, steps=steps, plays=2))
    return out


def _what(case):
    return "%s (%s, handler %s, %s cassette)" % (case["shape"], case["what"], case.get("handler"), case["cassette"])


def _setup_failures(case, obs):
    if obs["record"]["outcome"]["o"] != "val" or not obs["saved"]:
        return [("alias-probe-not-recorded", "%s: the record run ended with %s, saved=%s" % (_what(case), obs["record"]["outcome"], obs["saved"]))]
    if not obs["fetch_ok"]:
        return [("alias-probe-fetch-differs", "%s: the cassette does not hand back what was saved" % _what(case))]
    return None


def direct_c02(case, obs):
    """every interception of the replay is answered with the value recorded for that call - also the second and third request
    of a key whose first answer the replayed code changed in place - no body runs, play() only fetches, and the recording the
    replay worked on still holds what was recorded."""
    bad = _setup_failures(case, obs)
    if bad is not None:
        return bad
    fails = []
    rec = obs["record"]
    for i, ob in enumerate(obs["plays"]):
        where = "%s, replay %d (recording %s)" % (_what(case), i, "enabled" if ob["recording_enabled"] else "disabled")
        if ob["outcome"] != {"o": "val", "v": {"t": "none"}}:
            fails.append(("alias-replay-failed", "%s: play() ended with %s" % (where, ob["outcome"])))
            continue
        kinds = [c["c"] for c in ob["cass"]]
        if kinds != ["get"]:
            fails.append(("cassette-touched-by-play", "%s: play() reached the cassette with %s" % (where, kinds)))
        if ob["store_changed"]:
            fails.append(("stored-recording-changed", "%s: the serialized cassette content differs after play()" % where))
        if ob["bodies_run"]:
            fails.append(("body-executed-during-replay", "%s: %s" % (where, ob["bodies_run"])))
        for n, (got, want) in enumerate(zip(ob["handed"], rec["handed"])):
            if got != want:
                fails.append(("answer-is-not-the-recorded-value", "%s: interception #%d (%s %r, step %d) was answered with %s; recorded "
                              "for this call: %s (the replayed code changed an earlier answer of the same call in place)" %
                              (where, n, got[1], got[2], got[0], got[3][:300], want[3][:300])))
                break
        if len(ob["handed"]) != len(rec["handed"]):
            fails.append(("answer-is-not-the-recorded-value", "%s: %d interceptions answered, %d recorded" %
                          (where, len(ob["handed"]), len(rec["handed"]))))
        if canon_rec(ob["recording_after"]) != canon_rec(obs["recorded"]):
            a, b = dict(canon_rec(ob["recording_after"])), dict(canon_rec(obs["recorded"]))
            diff = sorted(k for k in set(a) | set(b) if a.get(k) != b.get(k))
            fails.append(("replay-changed-the-recording", "%s: after the replay the recording it was played from differs at %s: "
                          "recorded %s, now %s" % (where, diff[:3], str(b.get(diff[0]))[:300], str(a.get(diff[0]))[:300])))
    return fails


# ---- C03: an output's result shares objects with output arguments; the replayed code works on the result in place -----------

DOCS = [
    ("document", _O("Pt", [("title", _S("report")), ("tags", _L([_S("draft")]))]), [["attr", "tags"]], "append", _S("published")),
    ("order", _O("Qt", [("id", _I(7)), ("lines", _L([_D([("sku", _S("a")), ("n", _I(1))])]))]), [["attr", "lines"], 0], "setitem",
     _pair("n", _I(5))),
    ("state-object", _O("Pt", [("state", _S("new")), ("n", _I(1))]), [], "setattr", _pair("state", _S("processed"))),
    ("nested-objects", _O("Pt", [("head", _O("Qt", [("rows", _L([_I(1), _I(2)]))])), ("name", _S("n"))]),
     [["attr", "head"], ["attr", "rows"]], "pop", None),
    ("list-of-objects", _L([_O("Pt", [("x", _I(1))]), _O("Pt", [("x", _I(2))])]), [0], "setattr", _pair("x", _I(100))),
    ("dict-of-list", _D([("items", _L([_I(1), _I(2)])), ("state", _S("new"))]), ["items"], "append", _I(3)),
]


def c03_cases():
    """`saved = store(entity)`; [edit A: change saved in place]; `index(saved)`; [edit B: change saved in place after everything was
    sent]: store returns its argument / a wrapper around it / a fresh value, without and with an output data handler; replay 0
    runs the unchanged program, replay 1 edit A, replay 2 edit B; plus the entity sent to two outputs before the result of the
    first is changed."""
    out = []
    k = 0
    for name, value, path, op, arg in DOCS:
        for ret in ("arg0", "wrap", "fresh"):
            for handler in ("none", "wrap"):
                rp = path if ret != "wrap" else ["saved"] + path
                steps = [["new", "d", value], ["out", "saved", "store", ["d"]],
                         ["only", [1], ["mut", "saved", rp, op, arg]],
                         ["out", "ack", "index", ["saved"]],
                         ["only", [2], ["mut", "saved", rp, op, arg]],
                         ["ret", []]]
                out.append(dict(kind="alias", pid="C03", shape=name, what="store returns " + ret, handler=handler,
                                cassette=CASSETTES[k % 3], inputs={},
                                outputs={"store": {"ret": ret, "value": value, "handler": handler},
                                         "index": {"ret": "none", "handler": handler}}, steps=steps, plays=3))
                k += 1
    for name, value, path, op, arg in DOCS[:4]:
        # the entity goes to `audit` first, then `store` hands it back, the replayed code changes the result, `index` gets both
        steps = [["new", "d", value], ["out", "x", "audit", ["d"]], ["out", "saved", "store", ["d"]],
                 ["only", [1], ["mut", "saved", path, op, arg]], ["out", "ack", "index", ["saved", "d"]],
                 ["only", [2], ["mut", "saved", path, op, arg]], ["ret", []]]
        out.append(dict(kind="alias", pid="C03", shape=name, what="audit + store returns arg0", handler="none",
                        cassette=CASSETTES[k % 3], inputs={},
                        outputs={"store": {"ret": "arg0", "handler": "none"}, "audit": {"ret": "none", "handler": "none"},
                                 "index": {"ret": "none", "handler": "none"}}, steps=steps, plays=3))
        k += 1
    return out


def _sent_map(run):
    m = {k: d for k, d, _ in run["sent"]}
    m[OP_KEY] = {"d": "out", "args": [run["op_ret"]], "kwargs": []}
    return dict(canon_rec(m.items()))


def direct_c03(case, obs):
    """recorded outputs = exactly what the RECORDED code sent, playback outputs = exactly what the replayed code sent (an entry
    whose argument objects the replayed code changed in place after the call is not compared: capture is by reference), and the
    two differ at exactly the entries where the two programs' sends differ - whatever the replayed code does to the values the
    replay handed to it."""
    bad = _setup_failures(case, obs)
    if bad is not None:
        return bad
    fails = []
    exp_rec = _sent_map(obs["record"])
    for i, ob in enumerate(obs["plays"]):
        where = "%s, replay %d (%s)" % (_what(case), i, ["unchanged program", "result changed in place before it is sent on",
                                                        "result changed in place after everything was sent"][min(i, 2)])
        if ob["outcome"] != {"o": "val", "v": {"t": "none"}}:
            fails.append(("alias-replay-failed", "%s: play() ended with %s" % (where, ob["outcome"])))
            continue
        unstable = {k for k, _, u in ob["sent"] if u}
        exp_play = _sent_map(ob)
        got_rec, got_play = dict(canon_rec(ob["recouts"])), dict(canon_rec(ob["pbouts"]))
        if len(ob["recouts"]) != len(got_rec) or len(ob["pbouts"]) != len(got_play):
            fails.append(("duplicate-entries", "%s: an output key occurs twice" % where))
        if got_rec != exp_rec:
            diff = sorted(k for k in set(got_rec) | set(exp_rec) if got_rec.get(k) != exp_rec.get(k))
            fails.append(("alias-recorded-outputs-wrong", "%s: recorded outputs differ from what the recorded program sent at %s: sent %s, "
                          "recorded outputs say %s" % (where, diff[:4], str(exp_rec.get(diff[0]))[:300], str(got_rec.get(diff[0]))[:300])))
        stable = lambda m: {k: v for k, v in m.items() if k not in unstable}      # noqa: E731
        if set(got_play) != set(exp_play) or stable(got_play) != stable(exp_play):
            diff = sorted(k for k in set(got_play) | set(exp_play) if k not in unstable and got_play.get(k) != exp_play.get(k))
            fails.append(("alias-playback-outputs-wrong", "%s: playback outputs differ from what the replayed program sent at %s" %
                          (where, diff[:4])))
        want_diff = sorted(k for k in set(exp_rec) | set(exp_play) if k not in unstable and exp_rec.get(k) != exp_play.get(k))
        got_diff = sorted(k for k in set(got_rec) | set(got_play) if k not in unstable and got_rec.get(k) != got_play.get(k))
        if want_diff != got_diff:
            fails.append(("alias-diff-not-localised", "%s: recorded vs playback outputs differ at %s, what the two programs sent differs "
                          "at %s" % (where, got_diff[:5], want_diff[:5])))
    return fails


RULE_NOTE = {
    "C02": ("; plus a probe stream that always runs (implementation only): hand-written operations whose REPLAYED code changes in "
            "place what an interception handed to it - every container shape x data handler {none, pass-through, wrapping: restore "
            "keeps a reference to the recorded form}, a recorded exception, an output's result - and requests the same call again, "
            "replayed twice (recording enabled / disabled) on the three cassettes"),
    "C03": ("; plus a probe stream that always runs (implementation only): `saved = store(entity)`, `index(saved)` programs whose "
            "output RESULT shares objects with output arguments (store returns its argument / a wrapper around it / a fresh value, "
            "without and with output data handlers, also after the entity went to another output) and whose replayed edit works in "
            "place on the result before it is sent on / after everything was sent, on the three cassettes"),
}
MANIFEST_NOTE = {
    "C02": (" Mutable answers (outside the model, direct predicate only): when replayed code changes in place what an interception "
            "handed to it and requests the same call again, every answer still equals the value recorded for that call, no body runs, "
            "play() only fetches and the recording the replay worked on holds what was recorded."),
    "C03": (" Mutable values (outside the model, direct predicate only): recorded outputs stay exactly what the recorded program sent, "
            "and differ from the playback outputs at exactly the edited entries, also when an output's recorded result shares objects "
            "with recorded output arguments and the replayed code works on that result in place."),
}


# ---- plumbing ---------------------------------------------------------------------------------------------------------------

def features(case):
    return {"probe:replayed-code-mutates-handed-values", "probe-shape:" + case["shape"], "probe-what:" + case["what"],
            "probe-handler:%s" % case.get("handler"), "cassette:" + case["cassette"]}


def shrink_candidates(case):
    st = case["steps"]
    return [dict(case, steps=st[:i] + st[i + 1:]) for i in range(len(st)) if st[i][0] == "only"] + \
        ([dict(case, plays=case["plays"] - 1)] if case.get("plays", 1) > 1 else [])


def install(g, pid):
    """Wrap the hooks of property module `g` (its globals()): cases of kind "alias" go to this module, all others to the
    module's own functions."""
    gen_cases, direct_fn = {"C02": (c02_cases, direct_c02), "C03": (c03_cases, direct_c03)}[pid]
    own = {n: g.get(n) for n in ("generate", "direct", "to_gallina", "explain", "features", "nontrivial", "shrink_candidates")}
    is_alias = lambda case: case.get("kind") == "alias"      # noqa: E731

    def generate(rng, tier):
        return own["generate"](rng, tier) + gen_cases()

    def direct(case, obs):
        if not is_alias(case):
            return own["direct"](case, obs)
        if "driver_exception" in obs:
            return [("driver", obs["driver_exception"] + obs.get("trace", "")[-400:])]
        return direct_fn(case, obs)
    g["generate"], g["direct"] = generate, direct
    g["RULE"] = g["RULE"] + RULE_NOTE[pid]
    g["MANIFEST"] = dict(g["MANIFEST"], text=g["MANIFEST"]["text"] + MANIFEST_NOTE[pid])
    g["TRUSTED"] = list(g.get("TRUSTED", [])) + ["alias probe stream: harness-side journal of what the hand-written operation was "
                                                 "handed and what it sent (snapshots taken at the call)"]
    g["to_gallina"] = lambda case, obs: None if is_alias(case) else own["to_gallina"](case, obs)
    g["explain"] = lambda case, obs: "tt" if is_alias(case) else own["explain"](case, obs)
    g["features"] = lambda case: features(case) if is_alias(case) else own["features"](case)
    g["nontrivial"] = lambda case: True if is_alias(case) else own["nontrivial"](case)
    g["shrink_candidates"] = lambda case: shrink_candidates(case) if is_alias(case) else own["shrink_candidates"](case)
