"""C08 - every recording gets exactly one, correctly attributed verdict."""
from lib import eqgen as G
from lib.gallina import gbool

ID = "C08"
LOG_EXACT = False                # (timing-dependent observables: only the property's predicate is evaluated under DEBUG)
LOG_SAMPLE = 120
LOG_LEVEL_INVARIANT = True
RUN_MODULE = "RunC08"
DRIVER = "equalizer_sim.py"
SHARD = 400
RULE = ("one case = one comparison run of the real Equalizer over a script (sequence of recording ids, each with one of "
        "behaviour texts: 9 verdict-level, 9 process-level, 2 answer-level (the parent cannot load the answer / the worker answers (False, message)), 3 in the F08 probe streams, and 115 verdict shapes (what the comparator returns: a ComparatorResult or an instance of a subclass of it with any of the 5 statuses or a value that is no status, message none / text / falsy non-text / structured / number, with or without a diff; or a bare value that is no status)) in dedicated (simulated multiprocessing) or in-process "
        "mode, recycle rate, timeout, keep-results on/off, per-recording KEY SET of the comparison data (the data extractor yields of / a / b / nothing, each value naming the recording; the comparator fails a recording whose keyword data is not exactly its own), consumed fully / closed after n / consumer raising after n / "
        "id source raising after n; each case also plays every recording alone and the whole script in the other mode; "
        "a comparison is observed whole: label, status, message kind, diff (whose recording it names), class of the "
        "verdict object, attached replay, expected/actual, exception flags; "
        "both tiers also run two REAL-process scripts (about 4 s): replayed operations that compute in a helper multiprocessing.Process "
        "/ thread of their own (same verdicts in the dedicated worker as in-process), and a long history (48 worker generations at "
        "recycle rate 1) under a soft RLIMIT_NOFILE 40 above the descriptors open at the start (every recording gets its own verdict); "
        "non-trivial = at least two recordings and at least one behaviour other than 'equal'; distinct = distinct case")
EXHAUSTIVE = {"quick": False, "thorough": True}
ASSUMPTIONS = ["scheduling of parent and worker is the one implemented by harness/impl/fake_mp.py (worker runs whenever "
               "the parent blocks; a late answer lands at the moment of the kill); other interleavings of real "
               "multiprocessing are not covered by the theorems",
               "os.kill(SIGKILL) succeeds",
               "results cross the process boundary unchanged or not at all (pickling is not modelled: a result that "
               "does not pickle in the worker is the behaviour 'drops', one that does not unpickle in the parent is "
               "'unloadable')",
               "the comparator's subclass of ComparatorResult is declared at module level (it pickles); a locally "
               "declared one is the behaviour 'drops'; the real-process script of the thorough tier sends diffs, "
               "structured messages and subclass instances through a real pipe",
               "an unrenderable verdict (message that is not text and truthy, status that is no EqualityStatus) is "
               "expected to cost a framework failure of its own recording at most: the direct predicate accepts the "
               "comparator's status or EqualizerFailure for it (the model says EqualizerFailure, as the code does)",
               "closing / dropping a suspended generator runs its finally block (Python semantics) - abandonment "
               "after n yields is modelled as the run over the first n recordings"]
TRUSTED = ["fake multiprocessing / clock / kill (harness/impl/fake_mp.py) under the real Equalizer",
           "real-process scripts (thorough tier; two of them in both tiers) are checked by the direct predicate only; an anomaly counts "
           "when it reproduces in three runs of the script"]

MAIN = G.VERDICT_BEH + G.PROCESS_BEH + G.ANSWER_BEH
W_MAIN = [30, 8, 6, 6, 6, 3, 2, 1, 1] + [5, 5, 6, 3, 2, 3, 3, 2, 2] + [5, 3]


def generate(rng, tier):
    cases = []
    n_rand = 260 if tier == "quick" else 2500
    for _ in range(n_rand):
        ids, behs = G.rand_script(rng, MAIN, W_MAIN, 12)
        cases.append(G.mk(ids, behs, dedicated=rng.random() < 0.8, rate=rng.choice([1, 1, 2, 2, 3, 5, 0, 7]),
                          timeout=rng.choice([0, 1, 1, 2, 2, 3]), keep=rng.random() < 0.5,
                          consume=G.rand_consume(rng, len(ids))))
    # every behaviour at every position of a short run, all small rates
    alpha3 = ["equal", "different", "player_raises", "extractor_raises", "comparator_raises", "bare:Fixed",
              "exit0", "exit1", "hang", "hang_deaf", "slow:2", "slow:4", "unloadable", "put_raises"]
    alpha4 = ["equal", "extractor_raises", "exit0", "hang", "slow:3", "player_raises"]
    if tier == "quick":
        for ids, behs in G.exhaustive(alpha3, 2):
            for rate in (1, 2):
                cases.append(G.mk(ids, behs, rate=rate, timeout=2, keep=bool(len(ids) % 2)))
    else:
        for ids, behs in G.exhaustive(alpha3, 3):
            for rate in (1, 2, 3):
                cases.append(G.mk(ids, behs, rate=rate, timeout=2, keep=(rate == 2)))
        for ids, behs in G.exhaustive(alpha4, 4):
            if len(ids) == 4:
                for rate in (1, 2, 3):
                    cases.append(G.mk(ids, behs, rate=rate, timeout=1, keep=(rate == 1)))
    # what the comparator returns is the user's: every shape of verdict (status or a value that is none; message none /
    # text / structured; diff; subclass instance; bare foreign value).  Deterministic probe: each representative shape
    # between two ordinary recordings, both modes x keep-results, at a recycle boundary ...
    probes = ["cr:Different:text:1:plain", "cr:Failed:text:1:sub", "cr:Equal:none:1:plain", "cr:Fixed:text:0:sub",
              "cr:Different:struct:0:plain", "cr:Different:struct:1:sub", "cr:Failed:num:0:plain",
              "cr:Equal:falsy:1:plain", "cr:EqualizerFailure:text:1:plain", "cr:EqualizerFailure:struct:0:plain",
              "cr:none:none:0:plain", "cr:true:text:1:plain", "cr:name:none:0:plain",
              "foreign:none", "foreign:true", "foreign:name"]
    for k, b in enumerate(probes):
        for dedicated in (True, False):
            for keep in (False, True):
                cases.append(G.mk([1, 2, 3], ["equal", b, "different"], dedicated=dedicated, rate=1 + (k + keep) % 2,
                                  timeout=2, keep=keep, probe="verdict-shapes"))
    # ... and shapes mixed with everything else in random scripts
    shapes_w = [0.6] * len(G.SHAPE_BEH)
    for _ in range(70 if tier == "quick" else 900):
        ids, behs = G.rand_script(rng, MAIN + G.SHAPE_BEH, W_MAIN + shapes_w, 10)
        cases.append(G.mk(ids, behs, dedicated=rng.random() < 0.7, rate=rng.choice([1, 2, 2, 3, 5, 0]),
                          timeout=rng.choice([1, 2, 2, 3]), keep=rng.random() < 0.5,
                          consume=G.rand_consume(rng, len(ids)), probe="verdict-shapes"))
    # the comparison data is that recording's: the KEYS the data extractor yields vary between the recordings of a
    # run ('o': of, 'a', 'b', none at all; every value names the recording) and the comparator's verdict depends on
    # getting exactly its own recording's data.  Deterministic: every assignment of key sets to three ordinary
    # recordings in which they vary, both modes, rates 1-3 (worker lifetimes); random: mixed into ordinary scripts
    specs = ["o", "oa", "ob", "", "ab"]
    k = 0
    for a in specs:
        for b in specs:
            for c in specs:
                if a == b == c:
                    continue
                k += 1
                if tier == "quick" and k % 3 and not (a and not c):
                    continue
                behs = ["equal", "equal", "different"] if k % 2 else ["different", "equal", "equal"]
                for dedicated in (True, False):
                    cases.append(G.mk([1, 2, 3], behs, dedicated=dedicated, rate=1 + k % 3, timeout=2, keep=bool(k % 2),
                                      data=data_of([1, 2, 3], [a, b, c]), probe="comparison-data"))
    for _ in range(40 if tier == "quick" else 600):
        ids, behs = G.rand_script(rng, MAIN, W_MAIN, 10)
        cases.append(G.mk(ids, behs, dedicated=rng.random() < 0.6, rate=rng.choice([1, 2, 2, 3, 5, 0]),
                          timeout=rng.choice([1, 2, 3]), keep=rng.random() < 0.5, consume=G.rand_consume(rng, len(ids)),
                          data=data_of(ids, [rng.choice(specs + ["o", "o", "b", "a"]) for _ in ids]), probe="comparison-data"))
    # probe streams for the known finding F08 (untagged queues): late answers and stale tasks
    n_probe = 30 if tier == "quick" else 400
    for k in range(n_probe):
        ids, behs = G.rand_script(rng, MAIN + G.F08_BEH, W_MAIN + [25, 25, 25], 8, dup=0.05)
        if not any(b in G.F08_BEH for b in behs):
            ids.append(max(ids + [0]) + 1)
            behs.append(G.F08_BEH[k % 3])
        cases.append(G.mk(ids, behs, rate=rng.choice([1, 2, 3, 5]), timeout=rng.choice([1, 2]), keep=rng.random() < 0.5,
                          consume=G.rand_consume(rng, len(ids)), probe="F08"))
    cases.append(G.mk([1, 2, 3, 4], ["equal", "late", "equal", "different"], rate=5, probe="F08"))    # the refuted theorems' witnesses
    cases.append(G.mk([1, 2, 3, 4], ["equal", "dies_before", "equal", "different"], rate=5, probe="F08"))
    cases.append(G.mk([1, 2, 3], ["late", "hang", "equal"], rate=1, probe="F08"))
    cases.append(G.mk([1, 2, 3, 4], ["equal", "drops", "equal", "different"], rate=5, probe="F08"))
    from lib import eqreal
    cases += eqreal.real_cases("C08", tier)         # (quick: two scripts, about 4 s; thorough: all)
    return cases


def data_of(ids, specs):
    """{recording: keys of its comparison data} (default 'o' left out; a repeated id keeps its first key set)"""
    d = {}
    for i, sp in zip(ids, specs):
        d.setdefault(str(i), sp)
    return dict((i, sp) for i, sp in d.items() if sp != "o")


def to_gallina(case, obs):
    if case.get("kind") == "real":
        return None
    if "driver_exception" in obs or "watchdog" in obs:
        return "Case true %s [] Full [] FuelOut" % G.g_cfg(case)
    cmps = G.g_cmps(obs["cmps"])
    out = G.OUTCOMES.get(obs["outcome"])
    if cmps is None or out is None:
        cmps, out = "[]", "FuelOut"        # not expressible: force a mismatch
    return "Case %s %s %s %s %s %s" % (gbool(case["dedicated"]), G.g_cfg(case), G.g_script(case), G.g_stop(case), cmps, out)


def explain(case, obs):
    return "model_obs (%s)" % to_gallina(case, obs)


def direct(case, obs):
    if "driver_exception" in obs:
        return [("driver", obs["driver_exception"])]
    if case.get("kind") == "real":
        from lib import eqreal
        return eqreal.direct_c08(case, obs)
    if "watchdog" in obs:
        return [("run-blocks-forever", obs["watchdog"])]
    fails = []
    ids = case["ids"]
    ded = case["dedicated"]
    T = case["timeout"]
    known = G.f08_sig(case) if ded else None

    def sig(s):
        return known or s

    cmps = obs["cmps"]
    want = ids[:G.expected_count(case)]
    labels = [c[0] for c in cmps]
    out = obs["outcome"]
    proc_fault = [G.beh_of(case, i) in ("exit0", "exit1", "hang", "hang_deaf") for i in ids]
    if out == "deadlock":
        fails.append((sig("run-blocks-forever"), "the run never finishes: parent blocks forever after %d of %d verdicts"
                      % (len(cmps), len(want))))
        want = want[:len(cmps)]
    elif out in ("abort-exit", "blocks"):
        if ded or not any(proc_fault[:len(cmps) + 1]):
            fails.append(("run-aborted", "run ended with %s after %d verdicts" % (out, len(cmps))))
        want = want[:len(cmps)]      # in-process: a replay that exits / hangs the interpreter takes the run with it
    elif out.startswith("escaped"):
        k = len(cmps)
        fails.append(("run-aborted", "an exception left run_comparison (%s: %s) while r%s (%s) was compared: it and the "
                      "%d recording(s) after it got no comparison"
                      % (out[8:], obs.get("why"), want[k] if k < len(want) else "?",
                         G.beh_of(case, want[k]) if k < len(want) else "?", max(0, len(want) - k - 1))))
        want = want[:len(cmps)]
    if labels != want:
        if len(labels) == len(want) and sorted(map(str, labels)) != sorted(map(str, want)):
            fails.append(("wrong-label", "labels %s for ids %s" % (labels, want)))
        else:
            fails.append(("count-or-order", "comparisons labelled %s for ids %s" % (labels, want)))
    for k, c in enumerate(cmps):
        if k >= len(want):
            break
        i = want[k]
        b = G.beh_of(case, i)
        if c[3] is not None and c[3] != c[0]:
            fails.append((sig("foreign-replay-attached"),
                          "comparison #%d labelled r%s carries the replay of r%s" % (k, c[0], c[3])))
        alone = obs["alone"].get(str(i))
        if alone and alone[1] == "completed" and alone[0] and alone[0][0] != c:
            fails.append((sig("verdict-differs-from-alone"),
                          "comparison #%d of r%s (%s) is %s but played alone it is %s" % (k, i, b, c, alone[0][0])))
        exp = G.expected_status(b, ded, T)
        if not G.status_ok(exp, c[1]):
            fails.append((sig("wrong-status"), "comparison #%d of r%s (%s): status %s, expected %s" % (k, i, b, c[1], exp)))
        if c[0] == i:
            fails += [(sig(sg), "comparison #%d: %s" % (k, m)) for sg, m in G.payload_fails(b, c)]
    # in-process and dedicated-process execution give the same verdicts
    neutral = all(G.mode_neutral(G.beh_of(case, i), T) for i in ids)
    # (the WHOLE comparison: label, status, message kind, diff, class of the verdict, attached replay, expected/actual)
    if neutral and case.get("consume", ["full"])[0] == "full" and obs["other_mode"][0] != cmps:
        other = obs["other_mode"][0]
        where = [k for k in range(min(len(cmps), len(other))) if cmps[k] != other[k]][:1]
        fails.append(("modes-disagree", "%s and %s runs differ%s: %s vs %s"
                      % ("dedicated" if ded else "in-process", "in-process" if ded else "dedicated",
                         " at comparison #%d" % where[0] if where else " in length", cmps, other)))
    return fails


def features(case):
    return G.features(case)


def nontrivial(case):
    return len(case["ids"]) >= 2 and bool(case["beh"])


def shrink_candidates(case):
    if case.get("kind") == "real":
        return       # real-process scripts are few, short and slow (a stuck one costs three watchdog periods per run)
    ids = case["ids"]
    for k in range(len(ids)):
        rest = ids[:k] + ids[k + 1:]
        c = dict(case, ids=rest, beh={i: b for i, b in case["beh"].items() if int(i) in rest})
        if case.get("data"):
            c["data"] = {i: sp for i, sp in case["data"].items() if int(i) in rest}
        if c.get("consume", ["full"])[0] != "full":
            c["consume"] = [c["consume"][0], min(c["consume"][1], len(rest))]
        yield c
    for i, b in sorted(case["beh"].items()):
        yield dict(case, beh={j: x for j, x in case["beh"].items() if j != i})
    if case.get("consume", ["full"])[0] != "full":
        yield dict(case, consume=["full"])
    for i in sorted(case.get("data") or {}):
        yield dict(case, data={j: sp for j, sp in case["data"].items() if j != i})


def search_harder(rng, bad_cases):
    out = []
    for c in bad_cases[:10]:
        for rate in (1, 2, 3):
            for keep in (False, True):
                out.append(dict(c, rate=rate, keep=keep, dedicated=True))
    return out + generate(rng, "quick")[:200]


MANIFEST = dict(
    design_ref='6/C08',
    text="Coq theorems over all scripts (sequences of recording ids with a per-recording behaviour: equal, different, player / extractor / comparator raises, bare status, worker exits, hangs, answers late, slow, answer lost in transit, worker dies before taking the task, answer that the parent cannot load or that the worker sent as (False, message)), all recycle rates, timeouts and keep-results settings, about a hand-written model of run_comparison, the dispatch/wait/timeout/recycle logic and the worker loop with explicit task queue, result queue, worker table and terminate flag: one comparison per id in input order with the right label (even with late answers); without late answers, stale tasks and lost answers the whole output is the map of the single-recording verdict (failures local, EqualizerFailure for every fault kind); for every shape of comparator result (any status or a value that is none, any message, diff, subclass instance) the comparison carries the comparator's own status, diff and class when the framework can render the verdict in its log line and is a framework failure of that recording only when it cannot; the diff attached to a verdict is that recording's or none; dedicated and in-process modes agree on the whole comparison (diff and class of the verdict included); the late-answer, stale-task and lost-answer (read lock held by a killed idle worker) clauses are refuted with witnesses (known finding F08, three signatures) and the full statement is proved for the candidate repair (fresh queues per worker). Model tied to /repo on every run by running the REAL Equalizer single-threaded over fake multiprocessing/clock/kill on generated scripts and comparing every yielded comparison with the model by vm_compute; direct predicate: labels/order/count, attached replay belongs to the labelled id, verdict equals that recording played alone, failures become EqualizerFailure for that recording only, the verdict's diff and class are the comparator's for that recording, the comparator is called with exactly the comparison data extracted from that recording (key sets varying between the recordings of a run), an exception leaving run_comparison is a failure, both modes agree on the whole comparison; real-process scripts: in both tiers operations that themselves start a helper process / thread (verdicts as in-process) and a 48-generation run under a lowered descriptor limit (every recording its own verdict), the thorough tier adds faults, shapes and data across a real pipe.",
    note='Trusted: Coq kernel + vm_compute; hand-written model; the scheduling implemented by the fake multiprocessing layer (one resolution of each race; real interleavings, pickling across the pipe and a worker killed while holding a queue lock are runtime residue, sampled by the real-process scripts); os.kill succeeds. Late answers / stale tasks / lost answers are known finding F08 (probe streams, KNOWN-FINDING lines).',
    technique='Coq proof (invariant over the parent loop, induction over scripts and over the wait loop) + model/implementation correspondence by vm_compute over a deterministic multiprocessing simulator + real-process sampling',
)
