"""C14 - metadata filter matching is total and means what is documented."""
import fnmatch
import itertools

from lib import pyvals as pv

ID = "C14"
LOG_LEVEL_INVARIANT = True      # (harness/vp.py: a sample of the cases again with logging at DEBUG; same observables)
RUN_MODULE = "RunC14"
DRIVER = "matcher_driver.py"
SHARD = 1200
RULE = ("exhaustive small universe: filters = atoms + lists of <=2 atoms + operator objects (7 operator texts x atoms) "
        "against recorded atoms or an absent key, plus random deeper filters/values; stream `special floats` (implementation "
        "side only, deterministic): NaN / +-Infinity, bare and inside lists, as recorded value and as filter value (operator "
        "objects with all 7 operator texts, plain filters, lists of alternatives) against each other, ordinary numbers, big "
        "ints, lists, strings, None and an absent key - the answer must be Python's own comparison; stream `close numbers` (implementation side only, deterministic): pairs of "
        "nearly equal numbers (0.1+0.2 vs 0.3, neighbouring doubles, timestamps a second apart, an int beyond 2**53 next to "
        "the float it rounds to) and ints beyond the range of a double (2**1024, +-10**400) against floats / NaN / infinities, "
        "either side, every operator, plain / alternative / inside lists: equality is exact and nothing overflows; EVERY case "
        "is evaluated once more with warnings turned into errors (warnings.simplefilter('error') around the call): same "
        "answer, never raises; non-trivial = filter is not a "
        "plain non-string atom; distinct = distinct (filter, recorded)")
EXHAUSTIVE = {"quick": True, "thorough": True}
ASSUMPTIONS = ["fnmatch on two strings is an oracle (Coq: section variable glob; runs: literals,?,* in Coq, "
               "character classes on the implementation side against Python's own fnmatch)",
               "model: finite floats only (exact rationals); NaN and the infinities (bare and inside lists, either side, every "
               "operator) run on the implementation side only, against Python's own comparison"]
TRUSTED = ["harness-side re-statement of the documented meaning (spec_match) used as direct predicate"]

ATOMS = [pv.none(), pv.b(True), pv.b(False), pv.i(0), pv.i(1), pv.i(2), pv.fl(3, 2), pv.fl(1, 1),
         pv.s(""), pv.s("a"), pv.s("ab"), pv.s("a*"), pv.s("?b"),
         pv.lst([]), pv.lst([pv.i(1)]), pv.lst([pv.i(1), pv.s("a")]), pv.dct([("x", pv.i(1))]), pv.cls(1)]
OPS = ["=", "<", "<=", ">", ">=", "!=", ""]


def opobj(op, v, extra=False):
    items = [("operator", pv.s(op)), ("value", v)]
    if extra:
        items.append(("note", pv.s("z")))
    return pv.dct(items)


def rand_val(rng, depth):
    k = rng.randrange(12 if depth > 0 else 8)
    if k == 0:
        return pv.none()
    if k == 1:
        return pv.b(rng.random() < 0.5)
    if k in (2, 3):
        return pv.i(rng.choice([-1, 0, 1, 2, 3, 10, 2**40]))
    if k == 4:
        return pv.fl(rng.choice([-3, 1, 3, 5, 7]), rng.choice([1, 2, 4]))
    if k in (5, 6):
        return pv.s(rng.choice(["", "a", "ab", "abc", "b", "a*", "*", "?", "a?c", "*b*", "Op", "été", "x y"]))
    if k == 7:
        return pv.cls(rng.choice([1, 2]))
    if k in (8, 9):
        return pv.lst([rand_val(rng, depth - 1) for _ in range(rng.randrange(0, 4))])
    keys = rng.sample(["x", "y", "operator", "value", "k"], rng.randrange(0, 4))
    return pv.dct([(kk, rand_val(rng, depth - 1)) for kk in keys])


def generate(rng, tier):
    cases = []
    filters = list(ATOMS)
    filters += [pv.lst([a]) for a in ATOMS]
    filters += [pv.lst([a, b_]) for a in ATOMS for b_ in ATOMS]
    filters += [opobj(op, a) for op in OPS for a in ATOMS]
    filters += [opobj("<", pv.i(1), extra=True), pv.dct([("operator", pv.s("<"))]), pv.dct([("value", pv.i(1))]),
                pv.dct([("operator", pv.i(1)), ("value", pv.i(1))]),
                pv.lst([opobj(">", pv.i(0)), pv.s("a*")]), pv.lst([pv.lst([pv.i(1)])])]
    recs = [None] + ATOMS
    for f in filters:
        for r in recs:
            cases.append(dict(filter=f, recorded=r))
    # character-class patterns: implementation side only (Coq's concrete glob has no classes)
    for p, vals in [("val[12]", ["val1", "val2", "val3", "val[12]"]), ("[!a]b", ["ab", "bb", "[!a]b"]),
                    ("a[b-d]", ["ab", "ae", "a[b-d]"]), ("x[", ["x[", "x"]), ("[]]", ["]", "[]]"])]:
        for v in vals:
            cases.append(dict(filter=pv.s(p), recorded=pv.s(v), nocoq=True))
            cases.append(dict(filter=pv.lst([pv.i(3), pv.s(p)]), recorded=pv.s(v), nocoq=True))
    # values without a total order: NaN (unequal to everything, itself included; neither lower nor greater than anything) and
    # the infinities, as recorded value and as filter value, bare and inside lists (a list containing a NaN compares through
    # it), under every operator, as plain filter and as alternative.  Implementation side only: the model's floats are
    # exact rationals; the predicate is Python's own comparison (spec_match).  NaN is a reachable metadata value: json and
    # jsonpickle write it as NaN and read it back.
    cases += special_float_cases()
    cases += close_number_cases()
    n = 1500 if tier == "quick" else 20000
    for _ in range(n):
        f = rand_val(rng, 3)
        if rng.random() < 0.3:
            f = opobj(rng.choice(OPS), rand_val(rng, 2), extra=rng.random() < 0.2)
        if rng.random() < 0.2:
            f = pv.lst([f, rand_val(rng, 2)])
        r = None if rng.random() < 0.1 else rand_val(rng, 3)
        cases.append(dict(filter=f, recorded=r))
    for c in cases:
        if json_native(c["filter"]) and json_native(c["recorded"]):
            c["json_native"] = True
    return cases


NAN, INF, NINF = ({"t": "float", "r": r} for r in ("nan", "inf", "-inf"))
SPECIAL_FLOATS = [NAN, INF, NINF]


def special_float_cases():
    ordinary = [pv.i(0), pv.i(5), pv.fl(3, 2), pv.b(True), pv.i(2**70), pv.i(-2**70)]
    side = SPECIAL_FLOATS + [pv.lst([NAN]), pv.lst([pv.i(1), NAN]), pv.lst([pv.i(1), INF]), pv.lst([NAN, pv.i(1)])]
    others = ordinary + [pv.lst([pv.i(1)]), pv.lst([pv.i(1), pv.i(2)]), pv.lst([pv.i(2)]), pv.lst([])]
    out = []
    pairs = [(a, b_) for a in side for b_ in side + others + [pv.s("a"), pv.none()]]
    pairs += [(b_, a) for a in side for b_ in others + [pv.s("nan"), pv.none()]]
    for fv, rv in pairs:
        for op in OPS:
            out.append(dict(filter=opobj(op, fv), recorded=rv, nocoq=True))
        out.append(dict(filter=fv, recorded=rv, nocoq=True))                       # plain value / list of alternatives
        out.append(dict(filter=pv.lst([pv.s("x"), opobj("<=", fv), opobj(">=", fv)]), recorded=rv, nocoq=True))
    for fv in side:
        for op in OPS:
            out.append(dict(filter=opobj(op, fv), recorded=None, nocoq=True))      # absent key
    return out


def fr(text):
    """a finite float given by its repr text (implementation side only)"""
    return {"t": "float", "r": text}


def close_number_cases():
    """numbers that are NEARLY equal (arithmetic noise, neighbouring doubles, epoch timestamps a second apart, an int beyond
    2**53 next to the float it rounds to: equality is exact, `=` and `<` / `>` exclude each other) and ints beyond the range of
    a double (valid JSON; Python compares int with float exactly, nothing overflows) against floats / NaN / infinities, on
    either side, under every operator, as plain filter and as an alternative.  Implementation side only; the predicate is
    Python's own comparison."""
    near = [(fr("0.30000000000000004"), fr("0.3")), (fr("1700000000.0"), fr("1700000001.25")),
            (fr("1.0"), fr("1.0000000001")), (fr("1.0"), fr("1.0000000000000002")), (fr("1e+300"), fr("1.0000000000000002e+300")),
            (fr("-2.5"), fr("-2.5000000000001")), (pv.i(10**16 + 1), fr("1e+16")), (pv.i(1), fr("1.0000000000000002")),
            (pv.i(1700000000), fr("1700000000.5")), (fr("0.0"), fr("5e-324")), (fr("1.5"), fr("1.5")), (pv.i(3), fr("3.0"))]
    huge = [pv.i(2**1024), pv.i(10**400), pv.i(-10**400), pv.i(2**1024 - 1)]
    small = [fr("1.5"), fr("1.7976931348623157e+308"), fr("-1.7976931348623157e+308"), fr("0.0"), INF, NINF, NAN, pv.i(7),
             pv.b(True), pv.lst([fr("1.5")])]
    pairs = near + [(b_, a) for a, b_ in near] + [(a, b_) for a in huge for b_ in small] + [(b_, a) for a in huge for b_ in small]
    out = []
    for fv, rv in pairs:
        for op in OPS:
            out.append(dict(filter=opobj(op, fv), recorded=rv, nocoq=True))
        out.append(dict(filter=fv, recorded=rv, nocoq=True))
        out.append(dict(filter=pv.lst([pv.s("x"), fv]), recorded=rv, nocoq=True))
        out.append(dict(filter=pv.lst([fv]), recorded=pv.lst([rv]), nocoq=True))          # inside lists: == of lists
    return out


def has_special_float(j):
    if j is None:
        return False
    if j["t"] == "float":
        return j.get("r") in ("nan", "inf", "-inf")
    if j["t"] == "list":
        return any(has_special_float(x) for x in j["v"])
    if j["t"] == "dict":
        return any(has_special_float(v) for _, v in j["v"])
    return False


def has_huge_int(j):
    if j is None:
        return False
    if j["t"] == "int":
        return abs(j["v"]) >= 2**1023
    if j["t"] == "list":
        return any(has_huge_int(x) for x in j["v"])
    if j["t"] == "dict":
        return any(has_huge_int(v) for _, v in j["v"])
    return False


def has_repr_float(j):
    if j is None:
        return False
    if j["t"] == "float":
        return "r" in j
    if j["t"] == "list":
        return any(has_repr_float(x) for x in j["v"])
    if j["t"] == "dict":
        return any(has_repr_float(v) for _, v in j["v"])
    return False


def has_class_pattern(j):
    if j is None:
        return False
    if j["t"] == "str":
        return "[" in j["v"]
    if j["t"] in ("list",):
        return any(has_class_pattern(x) for x in j["v"])
    if j["t"] == "dict":
        return any(has_class_pattern(v) for _, v in j["v"])
    return False


def json_native(j):
    """values that survive json.dumps/json.loads unchanged (no class references, str-keyed dicts only)"""
    if j is None:
        return True
    if j["t"] == "cls":
        return False
    if j["t"] == "list":
        return all(json_native(x) for x in j["v"])
    if j["t"] == "dict":
        return all(json_native(v) for _, v in j["v"])
    return True


def to_gallina(case, obs):
    if case.get("nocoq") or has_class_pattern(case["filter"]):
        return None
    if "driver_exception" in obs:
        return "Case MNone None 3 3 9"
    rec = "None" if case["recorded"] is None else "(Some %s)" % pv.to_mval(case["recorded"])
    return "Case %s %s %d %d %d" % (pv.to_mval(case["filter"]), rec, obs["value"], obs["meta"], obs.get("s3", 9))


def explain(case, obs):
    return "(model_value (%s), model_meta (%s))" % (to_gallina(case, obs), to_gallina(case, obs))


def spec_match(f, r):
    """The documented meaning, stated independently of the implementation (r is None = missing)."""
    if isinstance(f, list):
        return any(spec_match(x, r) for x in f)
    if isinstance(f, dict) and 'operator' in f and 'value' in f:
        op, v = f['operator'], f['value']
        try:
            if op == '=':
                return bool(r == v)
            if op == '<':
                return bool(r < v)
            if op == '<=':
                return bool(r <= v)
            if op == '>':
                return bool(r > v)
            if op == '>=':
                return bool(r >= v)
        except TypeError:
            return False          # unordered operands never match
        return False              # unknown operator never matches
    if r is None:
        return f is None          # a missing value matches only a None alternative
    if isinstance(f, str):
        return isinstance(r, str) and fnmatch.fnmatch(r, f)
    return bool(r == f)


def direct(case, obs):
    if "driver_exception" in obs:
        return [("driver", obs["driver_exception"])]
    fails = []
    want = 1 if spec_match(pv.to_py(case["filter"]), None if case["recorded"] is None else pv.to_py(case["recorded"])) else 0
    if obs["value"] >= 2 or obs["meta"] >= 2:
        fails.append(("raises", "matching raised %s for filter=%s recorded=%s" % (obs["err"], case["filter"], case["recorded"])))
    else:
        if obs["value"] != want or obs["meta"] != want:
            fails.append(("wrong-answer", "answered value=%s meta=%s, documented meaning says %s; filter=%s recorded=%s" %
                          (obs["value"], obs["meta"], want, case["filter"], case["recorded"])))
        if obs["err"]:
            fails.append(("non-bool", obs["err"]))
    if obs["again"] != obs["value"]:
        fails.append(("nondeterministic", "two evaluations differ"))
    if obs.get("strict") is not None and obs["strict"] != obs["meta"]:
        # the interpreter's warnings configuration is not an input of matching: with warnings turned into errors
        # (python -W error / PYTHONWARNINGS=error / pytest filterwarnings=error) matching still never raises
        if obs["strict"] >= 2:
            fails.append(("raises-under-warnings-as-errors", "with warnings as errors (warnings.simplefilter('error')) matching "
                          "raised %s for filter=%s recorded=%s; it answered %s under the default warnings filter" %
                          (obs.get("strict_err"), case["filter"], case["recorded"], obs["meta"])))
        else:
            fails.append(("answer-depends-on-warnings-filter", "answered %s with warnings as errors, %s with the default "
                          "filter; filter=%s recorded=%s" % (obs["strict"], obs["meta"], case["filter"], case["recorded"])))
    if obs.get("s3", 9) != 9 and obs["s3"] != want:
        fails.append(("s3-content-filter-differs", "the S3 content filter answered %s for filter=%s stored metadata value=%s, the "
                      "documented meaning says %s" % (obs["s3"], case["filter"], case["recorded"], want)))
    return fails


def features(case):
    f = case["filter"]
    fs = {"filter:" + f["t"]}
    if f["t"] == "dict" and {"operator", "value"} <= {k for k, _ in f["v"]}:
        fs = {"filter:operator-object"}
    fs.add("recorded:" + ("absent" if case["recorded"] is None else case["recorded"]["t"]))
    if has_class_pattern(f):
        fs.add("pattern-with-character-class")
    for side, j in (("filter", f), ("recorded", case["recorded"])):
        if has_special_float(j):
            fs.add(side + ":holds-nan-or-infinity")
        if has_huge_int(j):
            fs.add(side + ":holds-int-beyond-double-range")
    if case.get("nocoq") and not has_special_float(f) and not has_special_float(case["recorded"]) and \
            any(has_repr_float(j) for j in (f, case["recorded"])):
        fs.add("nearly-equal-or-equal-finite-numbers")
    return fs


def nontrivial(case):
    return case["filter"]["t"] in ("list", "dict", "str")


MANIFEST = dict(
    design_ref='6/C14',
    text='Coq theorems for every filter and every recorded value (match_value = Ans (match_spec), hence never raises; lifted to the per-key conjunction; legacy TypeError witnesses refuted) over a hand-written model of _match_metadata_value / _operator_filter / match_against_recorded_metadata, for every fnmatch oracle; model tied to /repo on every run by an exhaustive small universe (~9k filter x value pairs) + random deeper pairs evaluated by the real matcher and by the model, + ~1.5k pairs with NaN / infinities on either side (implementation side only: the answer must equal the comparison Python itself makes); + ~1k pairs of nearly equal numbers and ints beyond the range of a double (exact equality, no overflow); every case also evaluated with warnings turned into errors (same answer, never raises); direct predicate (never raises, equals the documented meaning, deterministic) on the implementation.',
    note='Trusted: Coq kernel + vm_compute; hand-written model of Python ==/</<= on the metadata value domain (exact rationals for floats); fnmatch is an oracle (section variable); correspondence harness.',
    technique='Coq proof (structural induction over filters) + exhaustive small-universe correspondence by vm_compute',
)
