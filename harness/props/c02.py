"""C02 - replay answers every interception from the recording or an explicit policy."""
import itertools

from lib import recdsl as rd
from lib import pyvals as pv
from props.rec_common import *  # noqa: F401,F403

ID = "C02"
LOG_LEVEL_INVARIANT = True      # (harness/vp.py: a sample of the cases again with logging at DEBUG; same observables)
RUN_MODULE = "RunC02"
RULE = ("constructed pairs (recorded program P, replayed program P'): P is a fault-free straight-line program with known "
        "literal results; P' asks for present and absent inputs/outputs; the FULL cross product of the missing-key options for "
        "one probe call - fallbacks {none, list without hit, list with hit, function with hit, function raising} x "
        "run-original x substitute {none, 5, 0, '', [], {}, False, callable} x data handler {none, wrap} x present/absent, "
        "and for outputs fail-flag x default x present/absent/handler failing on what the replayed code sends; absent calls that "
        "differ from a recorded call of the same input only in the TYPE of an argument (1 / True / 1.0, tuple / list, bytes / str, "
        "two classes with equal attributes; positional and keyword; both directions; absent twin before the recorded call) - each replayed "
        "with recording enabled and disabled and one to three times; an opted-in original (run-original AND a substitute {5, 0, '', [], "
        "callable, none}) whose body makes a further intercepted call that is absent and has no policy (nested input / second call "
        "of an output / input after a present one): the outer call ends in that missing-key error; plus random program pairs; non-trivial = every case; "
        "distinct = distinct (P, P', options); plus (implementation only) replays started from INSIDE an operation that is being "
        "recorded on the same recorder (recording mode and playback mode at once): constructed and random (P, P') x endpoint "
        "input before / output after x three cassettes")
EXHAUSTIVE = {"quick": True, "thorough": True}
ASSUMPTIONS = ["a recorded exception whose type is RecordingKeyError is indistinguishable from a missing key (outside the "
               "program domain: user code does not raise framework exceptions)"]
TRUSTED = ["expectations of the constructed pairs are known by construction (harness-side, no model)",
           "nested replays (play() inside a recorded operation) are outside the Coq model: direct predicate only"]
THEOREMS = ["C02_replay_writes_nothing", "C02_replay_is_readonly", "C02_no_body_runs", "C02_replay_policy",
            "C02_recorded_answer_is_own_key", "C02_output_policy", "C02_replay_repeatable"]

PRM = dict(rate=[1, 1], ignore=False, skipped=False, copy=False)


def icfg(alias, **kw):
    d = dict(alias=alias, resolver={"kind": "none"}, cap=None, static=True, property=False, handler="none",
             prep_discards=False, run_missing=False, vmiss={"kind": "none"}, fallbacks={"kind": "none"})
    d.update(kw)
    return d


def ocfg(alias, **kw):
    d = dict(alias=alias, static=True, handler="none", fail=True, default=pv.none())
    d.update(kw)
    return d


def seq(stmts, term):
    c = term
    for s in reversed(stmts):
        n = dict(s)
        n["next"] = c
        c = n
    return c


def opdef(body):
    return dict(cls="OpA", classlevel=False, extractor={"kind": "none"}, body=body)


def in_site(alias, arg, result, handler="none", raises=None, **cfgkw):
    body = {"k": "raise", "ty": raises} if raises else {"k": "ret", "e": {"lit": result}}
    return dict(k="in", cfg=icfg(alias, handler=handler, **cfgkw), body=body, args=[{"lit": arg}], kwargs=[])


def out_site(alias, arg, result, **cfgkw):
    return dict(k="out", cfg=ocfg(alias, **cfgkw), body={"k": "ret", "e": {"lit": result}}, args=[{"lit": arg}], kwargs=[])


SUBS = [("none", None), ("lit", pv.i(5)), ("lit", pv.i(0)), ("lit", pv.s("")), ("lit", pv.lst([])), ("lit", pv.dct([])),
        ("lit", pv.b(False)), ("call", None)]
FBS = ["none", "list-miss", "list-hit", "fun-hit", "raises"]


def probe_cases():
    """One probe input call in P' with every option combination; P recorded 'a0'(1)->10, 'a1'(1)->11 (wrapped handler
    variant under 'h0'), 'ex'(1) raising KeyError."""
    for handler in ("none", "wrap"):
        P = opdef(seq([in_site("a0", pv.i(1), pv.i(10), handler=handler), in_site("a1", pv.i(1), pv.i(11), handler=handler),
                       dict(k="try", c=seq([in_site("ex", pv.i(1), None, raises="KeyError", handler=handler)],
                                           {"k": "ret", "e": {"lit": pv.i(0)}}),
                            h={"k": "ret", "e": {"lit": pv.i(1)}})][:2] +
                      [], {"k": "ret", "e": {"lit": pv.s("done")}}))
        # P with the raising input inside a try at the end
        P["body"] = seq([in_site("a0", pv.i(1), pv.i(10), handler=handler), in_site("a1", pv.i(1), pv.i(11), handler=handler)],
                        dict(k="try", c=seq([in_site("ex", pv.i(1), None, raises="KeyError", handler=handler)],
                                            {"k": "ret", "e": {"lit": pv.i(0)}}),
                             h={"k": "ret", "e": {"lit": pv.s("done")}}))
        for present, fb, run_missing, (vk, vv) in itertools.product((True, False), FBS, (False, True), SUBS):
            alias = "a0" if present else "zz"
            fbd = {"none": {"kind": "none"}, "list-miss": {"kind": "list", "l": ["q1", "q2"]},
                   "list-hit": {"kind": "list", "l": ["q1", "a1"]}, "fun-hit": {"kind": "fun", "l": ["a1"]},
                   "raises": {"kind": "raises"}}[fb]
            vm = {"kind": vk} if vv is None else {"kind": "lit", "v": vv}
            probe = in_site(alias, pv.i(1), pv.i(99), handler=handler, run_missing=run_missing, vmiss=vm, fallbacks=fbd)
            if fb == "raises":
                expect = ("exn", "KeyCreation", False)
            elif present:
                expect = ("val", pv.i(10), False)
            elif fb in ("list-hit", "fun-hit"):
                expect = ("val", pv.i(11), False)
            elif run_missing:
                expect = ("val", pv.i(99), True)
            elif vk == "lit":
                expect = ("val", vv, False)
            elif vk == "call":
                expect = ("val", pv.tup([pv.i(1)]), False)
            else:
                expect = ("exn", "KeyMissing", False)
            Pp = opdef(dict(k="try", c=seq([probe], {"k": "ret", "e": {"var": 0}}), h={"k": "ret", "e": {"lit": pv.s("caught")}}))
            yield P, Pp, dict(kind="in", alias=alias, expect=expect)
        # a recorded exception is re-raised, under the main key and through a fallback
        for alias, fbd in (("ex", {"kind": "none"}), ("zz", {"kind": "list", "l": ["ex"]})):
            probe = in_site(alias, pv.i(1), pv.i(99), handler=handler, fallbacks=fbd)
            Pp = opdef(dict(k="try", c=seq([probe], {"k": "ret", "e": {"var": 0}}), h={"k": "ret", "e": {"lit": pv.s("caught")}}))
            yield P, Pp, dict(kind="in", alias=alias, expect=("exn", "user:KeyError", False))
    # outputs: P calls 'o0' twice (results 20, 21) and 'oh' (wrap handler) once
    P = opdef(seq([out_site("o0", pv.i(1), pv.i(20)), out_site("o0", pv.i(2), pv.i(21)), out_site("oh", pv.i(3), pv.i(22), handler="wrap")],
                  {"k": "ret", "e": {"lit": pv.s("done")}}))
    for ncalls, fail, default, handler in itertools.product((1, 2, 3), (True, False), (pv.none(), pv.i(0), pv.s("dflt")),
                                                            ("none", "wrap", "raises")):
        alias = "oh" if handler != "none" else "o0"
        if alias == "oh" and ncalls == 3:
            continue
        calls = [out_site(alias, pv.i(7 + i), pv.i(99), fail=fail, default=default, handler=handler) for i in range(ncalls)]
        recorded = {"o0": [pv.i(20), pv.i(21)], "oh": [pv.i(22)]}[alias]
        if ncalls <= len(recorded):
            expect = ("val", recorded[ncalls - 1], False)
        elif fail:
            expect = ("exn", "KeyMissing", False)
        else:
            expect = ("val", default, False)
        Pp = opdef(dict(k="try", c=seq(calls, {"k": "ret", "e": {"var": ncalls - 1}}), h={"k": "ret", "e": {"lit": pv.s("caught")}}))
        yield P, Pp, dict(kind="out", alias=alias, expect=expect, ncalls=ncalls)


W = dict(rd.DEFAULT_W, fault=0.0, unser=0.0, discard=0.0, interrupt=0.02, raise_=0.15, enable=0.0, prep_discards=0.0,
         missing_opts=0.5, fallbacks=0.35, handler=0.3)


def extra_cases():
    """(a) primary key wins over a fallback key that was recorded EARLIER; the first listed present fallback wins;
    (b) a replay that escapes with RecordingKeyError after some output calls must not disturb the next replay."""
    cases = []
    for handler in ("none", "wrap"):
        P = opdef(seq([in_site("a1", pv.i(1), pv.i(11), handler=handler), in_site("a2", pv.i(1), pv.i(12), handler=handler),
                       in_site("a0", pv.i(1), pv.i(10), handler=handler)], {"k": "ret", "e": {"lit": pv.s("done")}}))
        for alias, fbl, want in (("a0", ["a1"], 10), ("a0", ["a2", "a1"], 10), ("zz", ["a2", "a1"], 12), ("zz", ["a1", "a2"], 11),
                                 ("zz", ["q", "a2"], 12)):
            for fk in ("list", "fun"):
                probe = in_site(alias, pv.i(1), pv.i(99), handler=handler, fallbacks={"kind": fk, "l": fbl})
                Pp = opdef(dict(k="try", c=seq([probe], {"k": "ret", "e": {"var": 0}}), h={"k": "ret", "e": {"lit": pv.s("caught")}}))
                cases.append((P, [Pp], dict(kind="in", alias=alias, expect=("val", pv.i(want), False))))
    P = opdef(seq([out_site("o0", pv.i(1), pv.i(20)), out_site("o0", pv.i(2), pv.i(21))], {"k": "ret", "e": {"lit": pv.s("done")}}))
    aborting = opdef(seq([out_site("o0", pv.i(1), pv.i(99)), out_site("o0", pv.i(2), pv.i(99)), out_site("o0", pv.i(3), pv.i(99))],
                         {"k": "ret", "e": {"lit": pv.s("done")}}))
    second = opdef(dict(k="try", c=seq([out_site("o0", pv.i(7), pv.i(99)), out_site("o0", pv.i(8), pv.i(99))], {"k": "ret", "e": {"var": 1}}),
                        h={"k": "ret", "e": {"lit": pv.s("caught")}}))
    cases.append((P, [aborting, second], dict(kind="out", alias="o0", expect=("val", pv.i(21), False), only_run=2)))
    # (c) an opted-in original that runs because its key is missing: the interceptions IT makes are answered from the recording
    for handler in ("none", "wrap"):
        P = opdef(seq([in_site("a0", pv.i(1), pv.i(10), handler=handler), out_site("o0", pv.i(5), pv.i(20))],
                      {"k": "ret", "e": {"lit": pv.s("done")}}))
        inner = seq([in_site("a0", pv.i(1), pv.i(99), handler=handler), out_site("o0", pv.i(5), pv.i(98))],
                    {"k": "ret", "e": {"var": 1}})           # the original returns what its nested input answered (var 0 = its argument)
        probe = dict(k="in", cfg=icfg("zz", handler=handler, run_missing=True), body=inner, args=[{"lit": pv.i(1)}], kwargs=[])
        Pp = opdef(dict(k="try", c=seq([probe], {"k": "ret", "e": {"var": 0}}), h={"k": "ret", "e": {"lit": pv.s("caught")}}))
        cases.append((P, [Pp, Pp], dict(kind="in", alias="zz", expect=("val", pv.i(10), True))))
    # (c2, round 7) run-original wins over the substitute ALSO when the original ends in a missing-key error of its own: the
    # opted-in original (run_missing AND a substitute value) makes a further intercepted call that is absent from the recording
    # and has no policy (nested input / output with the default fail flag / input reached after a recorded one) - the outcome of
    # the outer call is the outcome of its original, i.e. that missing-key error, never the substitute
    k = 0
    for vm in ({"kind": "lit", "v": pv.i(5)}, {"kind": "lit", "v": pv.i(0)}, {"kind": "lit", "v": pv.s("")}, {"kind": "lit", "v": pv.lst([])},
               {"kind": "call"}, {"kind": "none"}):
        for shape in ("in", "out", "in-after-present"):
            handler = ["none", "wrap"][k % 2]
            k += 1
            P = opdef(seq([in_site("a0", pv.i(1), pv.i(10), handler=handler), out_site("o0", pv.i(5), pv.i(20))],
                          {"k": "ret", "e": {"lit": pv.s("done")}}))
            if shape == "in":
                inner = seq([in_site("qq", pv.i(1), pv.i(99), handler=handler)], {"k": "ret", "e": {"var": 1}})
            elif shape == "out":
                inner = seq([out_site("o0", pv.i(5), pv.i(98)), out_site("o0", pv.i(6), pv.i(97))], {"k": "ret", "e": {"var": 2}})
            else:
                inner = seq([in_site("a0", pv.i(1), pv.i(99), handler=handler), in_site("a0", pv.i(2), pv.i(96), handler=handler)],
                            {"k": "ret", "e": {"var": 2}})
            probe = dict(k="in", cfg=icfg("zz", handler=handler, run_missing=True, vmiss=vm), body=inner, args=[{"lit": pv.i(1)}], kwargs=[])
            Pp = opdef(dict(k="try", c=seq([probe], {"k": "ret", "e": {"var": 0}}), h={"k": "ret", "e": {"lit": pv.s("caught")}}))
            cases.append((P, [Pp, Pp], dict(kind="in", alias="zz", expect=("exn", "KeyMissing", True), c2=shape)))
    # (e) the replayed program reaches intercepted functions from a worker thread (started and joined by the operation):
    # answered from the recording there too, no body runs, outputs are captured
    for handler in ("none", "wrap"):
        P = opdef(seq([in_site("a0", pv.i(1), pv.i(10), handler=handler), out_site("o0", pv.i(5), pv.i(20))],
                      {"k": "ret", "e": {"lit": pv.s("done")}}))
        worker = seq([in_site("a0", pv.i(1), pv.i(99), handler=handler), out_site("o0", pv.i(5), pv.i(98))],
                     {"k": "ret", "e": {"lit": pv.none()}})
        body = {"k": "spawn", "c": worker,
                "next": dict(k="try", c=seq([in_site("a0", pv.i(1), pv.i(97), handler=handler)], {"k": "ret", "e": {"var": 0}}),
                             h={"k": "ret", "e": {"lit": pv.s("caught")}})}
        cases.append((P, [opdef(body), opdef(rd.clean(body))], dict(kind="in", alias="a0", expect=("val", pv.i(10), False))))
    # (d) one decorated function (alias with a resolved parameter, fallback aliases given as a list) called for several
    # parameter values: a call whose key is missing is NOT answered with what an earlier call of the same function got
    for fbl, vm, want in (([], {"kind": "none"}, ("exn", "KeyMissing", False)), (["q1"], {"kind": "lit", "v": pv.i(0)}, ("val", pv.i(0), False)),
                          (["q1", "q2"], {"kind": "none"}, ("exn", "KeyMissing", False))):
        # (the resolved parameter is argument 0, which is NOT captured: the key texts of the two calls differ in the alias only)
        cfgkw = dict(resolver={"kind": "arg", "i": 0}, cap=[[1, None]], fallbacks={"kind": "list", "l": fbl}, vmiss=vm)

        def site2(store, result):
            st = in_site("cfg {p}", pv.s(store), result, **cfgkw)
            st["args"] = [{"lit": pv.s(store)}, {"lit": pv.i(1)}]
            return st
        P = opdef(seq([site2("north", pv.i(7))], {"k": "ret", "e": {"lit": pv.s("done")}}))
        calls = [site2("north", pv.i(99)), site2("south", pv.i(99))]
        Pp = opdef(dict(k="try", c=seq(calls, {"k": "ret", "e": {"var": 1}}), h={"k": "ret", "e": {"lit": pv.s("caught")}}))
        cases.append((P, [Pp, Pp], dict(kind="in", alias="cfg {p}", expect=want)))
    # (f) a call that differs from a recorded call of the same input ONLY in the type of an argument (1 / True / 1.0, tuple /
    # list, bytes / str, objects of two classes with equal attributes - the values compare equal or look alike) is a different
    # call: absent from the recording, so the policy decides - never the value recorded for the look-alike; and the recorded
    # call itself is still answered when it is requested after its absent twin
    from props.c01 import TWINS
    k = 0
    for tw in TWINS:
        for a, b in itertools.permutations(tw, 2):
            by_kw = bool(k % 2)
            handler = ["none", "wrap"][(k // 2) % 2]
            k += 1

            def site(v, result, **cfgkw):
                st = in_site("cfg", v, result, handler=handler, **cfgkw)
                if by_kw:
                    st["args"], st["kwargs"] = [], [["flag", {"lit": v}]]
                return st
            P = opdef(seq([site(a, pv.i(10)), in_site("cfg", pv.s("other"), pv.i(12), handler=handler)],
                          {"k": "ret", "e": {"lit": pv.s("done")}}))
            for vm, want in (({"kind": "none"}, ("exn", "KeyMissing", False)), ({"kind": "lit", "v": pv.i(0)}, ("val", pv.i(0), False))):
                Pp = opdef(dict(k="try", c=seq([site(b, pv.i(99), vmiss=vm)], {"k": "ret", "e": {"var": 0}}),
                                h={"k": "ret", "e": {"lit": pv.s("caught")}}))
                cases.append((P, [Pp, Pp], dict(kind="in", alias="cfg", expect=want)))
            # the absent twin first (answered by its substitute), then the recorded call: the probe looks at the LAST call
            Pp = opdef(dict(k="try", c=seq([site(b, pv.i(99), vmiss={"kind": "lit", "v": pv.i(0)}), site(a, pv.i(98))],
                                           {"k": "ret", "e": {"var": 1}}), h={"k": "ret", "e": {"lit": pv.s("caught")}}))
            cases.append((P, [Pp], dict(kind="in", alias="cfg", expect=("val", pv.i(10), False))))
    return cases


# ---- a replay started from INSIDE an operation that is being recorded on the same recorder (implementation only) -----------
W_NESTED = dict(W, recdata=0.0, force=0.0, playdata=0.0, spawn=0.0)      # (record_data is the caller's own write, not an interception)


def nested_cases(rng, tier):
    """recording mode AND playback mode at once: a decorated "replay this recording" endpoint (itself recorded, with an input
    before and an output after the replay, aliases of its own) calls play() on a recording of P with the program P' - P itself,
    P asking for an added output without a recorded result (default), random pairs."""
    out = []
    progs = []
    for handler in ("none", "wrap"):
        P = opdef(seq([in_site("a0", pv.i(1), pv.i(10), handler=handler), out_site("o0", pv.i(5), pv.i(20)),
                       out_site("oh", pv.i(3), pv.i(22), handler="wrap"), in_site("a1", pv.i(2), pv.i(11), handler=handler),
                       out_site("o0", pv.i(6), pv.i(21))], {"k": "ret", "e": {"var": 4}}))
        progs.append((P, rd.clean(P), True))
        added = opdef(seq([in_site("a0", pv.i(1), pv.i(99), handler=handler), out_site("o0", pv.i(5), pv.i(98)),
                           out_site("new", pv.i(1), pv.i(97), fail=False, default=pv.s("dflt"))], {"k": "ret", "e": {"var": 2}}))
        progs.append((P, added, False))
        Pe = opdef(seq([out_site("o0", pv.i(1), pv.i(20))],
                       dict(k="try", c=seq([in_site("ex", pv.i(1), None, raises="KeyError", handler=handler)], {"k": "ret", "e": {"lit": pv.i(0)}}),
                            h={"k": "raise", "ty": "ValueError"})))
        progs.append((Pe, rd.clean(Pe), True))
    k = 0
    for P, Pp, same in progs:
        for pre, post in ((True, True), (False, True), (True, False)):
            out.append(dict(kind="nested", draws=[], cassette=["memory", "file", "s3"][k % 3], pre=pre, post=post, same_program=same,
                            runs=[dict(kind="record", enabled=True, prm=PRM, op=rd.clean(P), save_fails=False)], replayed=rd.clean(Pp)))
            k += 1
    def fault_free(op):
        # a data handler that FAILS on what the replayed code sends makes the recorder call discard_recording() - a no-op in
        # an ordinary replay, but here it drops the endpoint's active recording (observed on the unchanged code: cassette calls
        # create, get, abort).  Tolerated faults are C04's subject; the handlers of these cases succeed.
        for n in rd.walk(op["body"]):
            if n["k"] == "out" and n["cfg"]["handler"] == "raises":
                n["cfg"]["handler"] = "wrap"
            if n["k"] == "in" and n["cfg"]["handler"] in ("prep_raises", "restore_raises"):
                n["cfg"]["handler"] = "wrap"
        return op
    for _ in range(10 if tier == "quick" else 150):
        P = fault_free(rd.rand_opdef(rng, W_NESTED, budget=8, cls="OpA"))
        same = rng.random() < 0.6
        Pp = rd.clean(P) if same else fault_free(rd.rand_opdef(rng, W_NESTED, budget=8, cls="OpA"))
        out.append(dict(kind="nested", draws=[], cassette="memory", pre=rng.random() < 0.7, post=rng.random() < 0.7, same_program=False,
                        runs=[dict(kind="record", enabled=True, prm=PRM, op=P, save_fails=False)], replayed=Pp, unshare=True))
    return out


OWN_KEY_PREFIXES = ("input: endpoint.context ", "output: endpoint.report #", "output: _tape_recorder_operation #")


def direct_nested(case, obs):
    """the replay - although an operation is being recorded on the same recorder - answers every interception from the
    recording it plays, runs no wrapped body (unless opted in), reaches the cassette only to fetch, and writes NOTHING into
    the recording that is active; the surrounding operation is recorded with its own interceptions only."""
    from props.c01 import top_calls
    rec_ob, play, outer = obs["record"], obs["play"], obs["outer"]
    if not [c for c in rec_ob["cass"] if c["c"] == "save"] or any(c.get("fetch_ok") is False for c in rec_ob["cass"]):
        return []
    fails = []
    where = "replay nested in a recorded operation (%s cassette%s%s)" % (
        case["cassette"], ", endpoint input before" if case.get("pre") else "", ", endpoint output after" if case.get("post") else "")
    if outer["modes_before"] != [True, False]:
        return [("nested-endpoint-not-recording", "%s: modes before play() are %s" % (where, outer["modes_before"]))]
    kinds = [c["c"] for c in play["cass"]]
    if kinds != ["get"]:
        fails.append(("cassette-touched-by-play", "%s: play() reached the cassette with %s" % (where, kinds)))
    opted = {n["cfg"]["alias"] for n in rd.walk(case["replayed"]["body"]) if n["k"] == "in" and n["cfg"]["run_missing"]}
    ran = [e["alias"] for e in play["trace"] if e["e"] == "body" and e["alias"] not in opted]
    if ran:
        fails.append(("body-executed-during-replay", "%s: wrapped bodies ran while replaying: %s" % (where, ran)))
    if case.get("same_program") and play["outcome"] == {"o": "val", "v": {"t": "none"}}:
        a, b_ = top_calls(rec_ob["trace"]), top_calls(play["trace"])
        if a != b_:
            j = next((i for i, (x, y) in enumerate(zip(a, b_)) if x != y), min(len(a), len(b_)))
            fails.append(("answer-is-not-the-recorded-value", "%s: intercepted call #%d: recorded %s, replayed %s" %
                          (where, j, a[j] if j < len(a) else None, b_[j] if j < len(b_) else None)))
    if outer["outcome"]["o"] == "val":
        if outer["saved"] is None:
            fails.append(("nested-endpoint-recording-lost", "%s: the surrounding operation completed but was not saved (cassette calls %s)" %
                          (where, outer["cass"])))
        else:
            foreign = sorted(k for k, _ in outer["saved"] if not k.startswith(OWN_KEY_PREFIXES))
            if foreign:
                fails.append(("replay-wrote-into-active-recording", "%s: the recording of the surrounding operation holds entries written "
                              "by the replay: %s" % (where, foreign[:4])))
    return fails


def generate(rng, tier):
    cases = []
    for P, plays, probe in extra_cases():
        runs = [dict(kind="record", enabled=True, prm=PRM, op=rd.clean(P), save_fails=False)]
        for Pp in plays:
            runs.append(dict(kind="play", target=0, pf={"kind": "op", "op": rd.clean(Pp)}, enabled=False))
        cases.append(dict(draws=[], runs=runs, cassette="memory", probe=probe, store_check=True, no_repeat_check=True))
    for k, (P, Pp, probe) in enumerate(probe_cases()):
        reps = 1 + (k % 3)
        runs = [dict(kind="record", enabled=True, prm=PRM, op=rd.clean(P), save_fails=False)]
        for r in range(reps):
            runs.append(dict(kind="play", target=0, pf={"kind": "op", "op": rd.clean(Pp)}, enabled=(k + r) % 2 == 0))
        cases.append(dict(draws=[], runs=runs, cassette="memory", probe=probe, store_check=True))
    n = 60 if tier == "quick" else 1500
    for _ in range(n):
        P = rd.rand_opdef(rng, W, budget=8, cls="OpA")
        Pp = rd.rand_opdef(rng, W, budget=8, cls="OpA") if rng.random() < 0.6 else rd.clean(P)
        runs = [dict(kind="record", enabled=True, prm=PRM, op=P, save_fails=False)]
        for r in range(rng.randrange(1, 4)):
            runs.append(dict(kind="play", target=0, pf={"kind": "op", "op": rd.clean(Pp)}, enabled=rng.random() < 0.5))
        cases.append(dict(draws=[], runs=runs, cassette="memory", store_check=True, unshare=True))
    cases += nested_cases(rng, tier)
    return cases


def direct(case, obs):
    if "driver_exception" in obs:
        return [("driver", obs["driver_exception"] + obs.get("trace", "")[-400:])]
    if case.get("kind") == "nested":
        return direct_nested(case, obs)
    if f07c_affected(obs):
        return []          # region of known finding F07c (reported by C01): nothing is concluded from such a case
    fails = []
    plays = [(i, ob) for i, (run, ob) in enumerate(zip(case["runs"], obs["runs"])) if run["kind"] == "play"]
    for i, ob in plays:
        kinds = [c["c"] for c in ob["cass"]]
        if kinds != ["get"]:
            fails.append(("cassette-touched-by-play", "run %d: play() reached the cassette with %s" % (i, kinds)))
        if ob.get("store_changed"):
            fails.append(("stored-recording-changed", "run %d: the serialized cassette content differs after play()" % i))
        op = case["runs"][i]["pf"].get("op")
        if op is not None:
            opted = {n["cfg"]["alias"] for n in rd.walk(op["body"]) if n["k"] == "in" and n["cfg"]["run_missing"]}
            ran = [e["alias"] for e in ob["trace"] if e["e"] == "body"]
            # a body may run only inside (or as) an opted-in original
            depth_ok = True
            stack = []
            for e in ob["trace"]:
                if e["e"] == "begin":
                    stack.append(e["alias"])
                elif e["e"] == "call":
                    stack.pop()
                elif e["e"] == "body" and e["alias"] not in opted:
                    # also INSIDE an opted-in original that runs: whatever it calls is intercepted and answered from the
                    # recording or its own policy (tape_recorder.py: `return func(*args, **kwargs)` keeps interception on)
                    depth_ok = False
            if ran and not depth_ok:
                fails.append(("body-executed-during-replay", "run %d: wrapped bodies ran while replaying: %s" % (i, ran)))
    # repeated replays agree
    for (i, a), (j, b_) in ([] if case.get("no_repeat_check") else zip(plays, plays[1:])):
        for f in ("outcome", "trace", "pbouts", "recouts"):
            if a[f] != b_[f]:
                fails.append(("replays-differ", "replays %d and %d of the same recording differ in %s" % (i, j, f)))
                break
    probe = case.get("probe")
    if probe:
        kind, want, body_runs = probe["expect"]
        for i, ob in plays:
            if probe.get("only_run") is not None and i != probe["only_run"]:
                continue
            calls = [e for e in ob["trace"] if e["e"] == "call" and e["alias"] == probe["alias"]]
            if not calls:
                fails.append(("probe-not-called", "run %d" % i))
                continue
            got = calls[-1]["o"]
            ok = (got["o"] == "val" and kind == "val" and pv.canon_json(got["v"]) == pv.canon_json(want)) or \
                 (got["o"] == "exn" and kind == "exn" and got["e"] == want)
            if not ok:
                fails.append(("policy-violated", "run %d: the probe call of %r got %s, the documented policy gives %s %s" %
                              (i, probe["alias"], got, kind, want)))
            ran = any(e["e"] == "body" and e["alias"] == probe["alias"] for e in ob["trace"])
            if ran != body_runs:
                fails.append(("body-policy-violated", "run %d: body of %r %s during replay" %
                              (i, probe["alias"], "ran" if ran else "did not run")))
    return fails


# ---- nested cases are implementation only: the hooks of rec_common apply to history cases --------------------------------------
_h_to_gallina, _h_explain, _h_features, _h_nontrivial, _h_shrink = to_gallina, explain, features, nontrivial, shrink_candidates  # noqa: F405


def _is_nested(case):
    return case.get("kind") == "nested"


def to_gallina(case, obs):  # noqa: F811
    return None if _is_nested(case) else _h_to_gallina(case, obs)


def explain(case, obs):  # noqa: F811
    return "tt" if _is_nested(case) else _h_explain(case, obs)


def features(case):  # noqa: F811
    if not _is_nested(case):
        fs = _h_features(case)
        if (case.get("probe") or {}).get("alias") == "cfg":
            fs.add("probe:absent-call-differs-from-a-recorded-one-in-argument-type-only")
        if (case.get("probe") or {}).get("c2"):
            fs.add("probe:opted-in-original-ends-in-a-nested-missing-key-error(%s)" % case["probe"]["c2"])
        return fs
    return {"replay-nested-in-a-recorded-operation", "cassette:" + case["cassette"], "nested:endpoint-input-before=%s" % bool(case.get("pre")),
            "nested:endpoint-output-after=%s" % bool(case.get("post")),
            "nested:" + ("same-program" if case.get("same_program") else "other-program")} | rd.features_of_code(case["replayed"]["body"])


def nontrivial(case):  # noqa: F811
    return True if _is_nested(case) else _h_nontrivial(case)


def shrink_candidates(case):  # noqa: F811
    return [] if _is_nested(case) else _h_shrink(case)


MANIFEST = dict(
    design_ref="6/C02",
    text="Coq theorems over all programs, recordings and configurations: replay writes into no recording and aborts nothing, "
         "play() reaches the cassette only through get_recording and leaves cassette contents and draw stream unchanged (with "
         "recording enabled or disabled), no wrapped body runs unless an input opts in, every input call's answer equals the "
         "declarative policy input_policy (key error; first present key among main and fallback aliases; run-original; "
         "substitute incl. falsy values and callables; RecordingKeyError) with a recorded answer always coming from one of the "
         "call's own keys, outputs follow recorded result / fail flag / default, and replays are repeatable. Tie + direct "
         "predicate: constructed (P, P') pairs with expectations known by construction over the full cross product of the "
         "missing-key options (~700 configurations incl. falsy substitutes, fallbacks with and without hit, failing fallback "
         "function, recorded exceptions, output handler failing on what replayed code sends), replayed 1-3 times with recording "
         "enabled and disabled, spy cassette, serialized store compared before/after; plus random program pairs. Round 6: absent "
         "calls that are type twins of a recorded call (model + direct); a replay nested in a recorded operation answers from the "
         "played recording, runs no body, only fetches, and leaves the ACTIVE recording without any entry of its own (direct only). "
         "Round 7: run-original wins over the substitute also when the original itself ends in a missing-key error of a nested "
         "interception (18 constructed pairs; model + direct).",
    note="Trusted: Coq kernel + vm_compute, hand-written model, correspondence harness, by-construction expectations. A recorded "
         "exception of type RecordingKeyError is outside the domain (indistinguishable from a missing key).",
    technique="Coq proof (structural induction + case analysis of the decorator in playback mode = declarative policy) + "
              "exhaustive option-grid correspondence by vm_compute")


__import__("props.alias_probes", fromlist=["install"]).install(globals(), "C02")     # probe stream "alias" (implementation only)
