"""C16 - S3 time-window lookup is exact."""
from lib.gallina import gZ, gN, glist, gopt

ID = "C16"
RUN_MODULE = "RunC16"
DRIVER = "window_driver.py"
H = 3600 * 10**6
RULE = ("one case = one lookup (start, end or None=now, now, optional metadata filter {'g': v}, ordered or shuffled "
        "listing) over a bucket holding one recording per grid instant (created = saved = last-modified at that instant, "
        "fake clock; metadata 'g' in {0,1,2} drawn per recording); every window of the grid is looked up without a "
        "filter and (every second one) with a filter, so that recordings matching the filter sit in the edge day "
        "folders on both sides of the window ends; stream `wide`: one recording per day over six and a half months "
        "(2019-12-28 .. 2020-07-05: a year boundary, months of 29 / 30 / 31 days, +-1 us around the midnights that begin a "
        "month), windows of 31-121 day folders whose start falls on every day of five months, explicit end and end = now, and "
        "the same a year later around a February of 28 days (`base_days`: the instants of a case are offsets from the "
        "driver's BASE + that many days; the model is invariant under whole-day shifts); "
        "stream `subsecond`: recordings saved tenths of a second apart around two mid-day clock seconds and a midnight, every "
        "window whose bounds (with microsecond parts, or whole seconds) fall between them - a recording saved within the clock "
        "second of a bound, on either side of it; stream `limit` (implementation side only): a handful of recordings on a few "
        "days of a two month range (empty day folders, recordings outside the window in the edge folders, recordings that do "
        "not satisfy the filter), windows of 1-60 day folders looked up with limit 1-40 - fewer and more than the day folders "
        "and than the matching recordings -, as a random sample and in order: min(limit, matching) ids, all matching and inside; "
        "stream `busy folder`: one day holding eleven recordings, every window inside it that holds one or two of them (the rest "
        "of the folder lies outside, before and after) and windows reaching into the neighbouring folders, WITHOUT a filter, in "
        "order, limit 1, 2, 3, 20, none; every fifth case of all the streams above is run a second time through another listing "
        "entry point (S3TapeCassette.iter_recordings_metadata, find_matching_recording_ids with the default skip_incomplete "
        "and with skip_incomplete=False): same window, same answer; "
        "every sixth case is run a second time in a process whose time zone is not UTC (TZ = America/New_York, Asia/Kolkata, "
        "Pacific/Auckland, America/Los_Angeles + tzset; the fake clock stays UTC): the bounds are naive UTC datetimes; "
        "every third case is run a second time with logging enabled (root logger at DEBUG / INFO with a formatting handler): "
        "the process configuration is not an input of the lookup; non-trivial = window non-empty and not covering everything; "
        "distinct = distinct (times, tags, start, end, now, filter, random)")
EXHAUSTIVE = {"quick": False, "thorough": True}
ASSUMPTIONS = ["process clock in UTC (datetime.today() == utcnow(), both replaced by the fake clock - also in the cases run under "
               "another TZ, which therefore only exercise the conversion of the window bounds, not the choice of the day folder "
               "of a new recording)",
               "strftime('%Y%m%d') injective and monotone on days (exercised across a leap day, seven month boundaries and a "
               "year boundary)",
               "S3 last_modified of an object = instant of its put (fake bucket)"]
TRUSTED = ["fake bucket behind the real S3BasicFacade; fake clock substituted for s3_tape_cassette.datetime"]


NTAGS = 3


def _case(times, tags, start, end, now, flt=None, rnd=False, keep=None, base_days=0, limit=None):
    if keep is not None:
        pairs = [(t, g) for t, g in zip(times, tags) if keep(t)]
        times, tags = [t for t, _ in pairs], [g for _, g in pairs]
    c = dict(times=times, tags=tags, start=start, end=end, now=now, filter=flt, random=rnd)
    if base_days:
        c["base_days"] = base_days     # all instants of the case are offsets from the driver's BASE + that many days
    if limit is not None:
        c["limit"] = limit             # at most that many ids are asked for (implementation side only, see to_gallina)
    return c


def generate(rng, tier):
    days = 4
    grid = [h * H for h in range(5, 24 * days)]      # one long-lived cassette: its first recording is NOT made at midnight
    extra = sorted(rng.randrange(0, days * 24 * H) for _ in range(24))
    # boundary instants: one microsecond around every midnight
    edges = [d * 24 * H + e for d in range(1, days) for e in (-1, 0, 1)]
    times = sorted(set(grid + extra + edges))
    tags = [rng.randrange(NTAGS) for _ in times]      # metadata value 'g' of each recording
    step = 3 if tier == "quick" else 1
    pts = [h * H for h in range(0, 24 * days + 1, step)]
    cases = []
    nowv = days * 24 * H + H
    for si, s in enumerate(pts):
        for ei, e in enumerate(pts):
            if e < s - 6 * H:
                continue
            cases.append(_case(times, tags, s, e, nowv))
            if (si + ei) % 2 == 0:
                # the same window with a metadata filter (the facade then chains two predicates), ordered / shuffled
                cases.append(_case(times, tags, s, e, nowv, flt=(si + ei) // 2 % NTAGS, rnd=(si + ei) % 4 == 0))
        for k, nw in enumerate((s + 2 * H, s + 25 * H, s + 47 * H + 30 * 60 * 10**6)):   # end defaults to now
            # a lookup at `now` can only see recordings that were already saved
            cases.append(_case(times, tags, s, None, nw, keep=lambda t: t <= nw))
            cases.append(_case(times, tags, s, None, nw, flt=(si + k) % NTAGS, rnd=k == 1, keep=lambda t: t <= nw))
    n_rand = 150 if tier == "quick" else 1500
    for _ in range(n_rand):   # minute / microsecond level instants
        s = rng.randrange(0, days * 24 * 60) * 60 * 10**6 + rng.choice([0, 0, 1, 999999, rng.randrange(60 * 10**6)])
        e = s + rng.randrange(-2 * 60, 50 * 60) * 60 * 10**6 + rng.choice([0, 1, -1, rng.randrange(60 * 10**6)])
        flt = rng.choice([None, None, 0, 1, 2])
        rnd = rng.random() < 0.3
        if rng.random() < 0.25:
            cases.append(_case(times, tags, s, None, max(e, 0), flt=flt, rnd=rnd, keep=lambda t: t <= max(e, 0)))
        else:
            cases.append(_case(times, tags, s, e, nowv, flt=flt, rnd=rnd))
    # ---- wide windows: several months of day folders, the start on every day of the month ----------------------------
    # (own generator, after every draw of the streams above: those draw the same cases as before this stream existed)
    rng_w = __import__("random").Random(rng.getrandbits(64))
    cases += wide_cases(rng_w, tier)
    # ---- bounds and save instants that differ by fractions of a second (the bounds are exact instants) --------------
    cases += subsecond_cases()
    # ---- lookups with a limit (ordered / random sample) over windows with more day folders than the limit ------------
    cases += sparse_limit_cases(__import__("random").Random(rng_w.getrandbits(64)), tier)
    # ---- a busy day folder: windows that hold one or two of its recordings, looked up with a limit and no filter -------
    cases += busy_folder_cases()
    # ---- every public listing entry point answers the same window: every fifth case once more through
    # iter_recordings_metadata / the studio's find_matching_recording_ids (default skip_incomplete and without it)
    cases += [dict(c, via=VIAS[(i // 5) % len(VIAS)], random=c["random"] and VIAS[(i // 5) % len(VIAS)] != "metadata")
              for i, c in enumerate(cases) if i % 5 == 1]
    cases.sort(key=lambda c: (len(c["times"]), c["now"]))
    # ---- the process configuration is not an input of the lookup: every third case again with logging switched on ----
    # (root logger at DEBUG / INFO and a handler that formats every record, as when somebody investigates a lookup)
    again = [dict(c, log="INFO" if i % 12 == 10 else "DEBUG") for i, c in enumerate(cases) if i % 3 == 1]
    # ---- nor is the host's time zone: the bounds are naive UTC datetimes whatever TZ the process runs under; every sixth
    # case again under a zone west / east of UTC (the fake clock stays UTC: only conversions of the bounds can notice)
    again += [dict(c, tz=ZONES[(i // 6) % len(ZONES)]) for i, c in enumerate(cases) if i % 6 == 2]
    cases += again
    cases.sort(key=lambda c: (len(c["times"]), c["now"]))
    return cases


ZONES = ["America/New_York", "Asia/Kolkata", "Pacific/Auckland", "America/Los_Angeles"]
SEC = 10**6


def subsecond_cases():
    """recordings saved a few tenths of a second apart around two clock seconds at mid-day and around a midnight; every
    window whose bounds fall between them (microsecond parts on both bounds, whole seconds as well)"""
    d1 = 24 * H
    noon = d1 + 12 * H
    times = sorted([noon + 300000, noon + 600001, noon + 900000, noon + SEC, noon + 5 * SEC + 200000,
                    noon + 5 * SEC + 800000, noon + 5 * SEC + 950000, noon + 6 * SEC + 1,
                    2 * d1 - 400000, 2 * d1 + 300000, 2 * d1 + 700000, 3 * H, 3 * d1 + 5 * H])
    tags = [i % NTAGS for i in range(len(times))]
    bounds = [noon, noon + 450000, noon + 600000, noon + 600001, noon + 999999, noon + 5 * SEC + 500000,
              noon + 5 * SEC + 900000, noon + 6 * SEC, 2 * d1 - 200000, 2 * d1 + 500000, 2 * d1 + 999999]
    now = 4 * d1
    out = []
    for a, s0 in enumerate(bounds):
        for b, e0 in enumerate(bounds):
            if e0 < s0:
                continue
            out.append(_case(times, tags, s0, e0, now, flt=(a + b) % NTAGS if (a + b) % 3 == 0 else None, rnd=(a + b) % 4 == 1))
        out.append(_case(times, tags, s0, None, s0 + 2 * SEC + 250000, keep=lambda t: t <= s0 + 2 * SEC + 250000))
    return out


def sparse_limit_cases(rng, tier):
    """a few recordings on a few days of a two month range (most day folders are empty, the folders of the two edge days
    hold recordings outside the window, some recordings do not satisfy the filter); windows of 1-60 day folders looked up
    with a limit below, at and above the number of matching recordings - and below the number of day folders -, as a
    random sample and in order: min(limit, matching) ids have to come back, all inside the window"""
    out = []
    for variant in range(2 if tier == "quick" else 6):
        ndays = 60
        days = sorted(rng.sample(range(2, ndays - 2), 4 + variant % 3))
        times = []
        for d in days:
            times += [d * DAYUS + rng.randrange(DAYUS) for _ in range(rng.choice([1, 1, 2]))]
        s_day, e_day = days[0], days[-1]
        start = s_day * DAYUS + 10 * H
        end = e_day * DAYUS + 14 * H
        times += [start - 1, start - 5 * H, end + 1, end + 3 * H, DAYUS // 2, (ndays - 1) * DAYUS + H]    # outside, same folders
        times = sorted(set(times))
        tags = [rng.randrange(2) for _ in times]
        now = ndays * DAYUS + H
        windows = [(start, end), (start, None), (days[1] * DAYUS - 3 * DAYUS, days[-2] * DAYUS + DAYUS + 5 * H),
                   (days[1] * DAYUS, days[1] * DAYUS + 3 * DAYUS), (3 * H, now)]
        for w, (s0, e0) in enumerate(windows):
            for limit in (1, 2, 3, 5, 8, 40):
                for rnd in (True, False):
                    flt = (w + limit) % 2 if (w + limit + rnd) % 3 == 0 else None
                    out.append(_case(times, tags, s0, e0, now, flt=flt, rnd=rnd, limit=limit))
    return out


VIAS = ["metadata", "find", "find-all"]      # listing entry points next to iter_recording_ids (harness/impl/window_driver.py)


def busy_folder_cases():
    """one busy day (a recording every other hour, two more on the neighbouring days): every window inside that day that
    holds exactly one or two of its recordings - most of the folder lies OUTSIDE the window, before and after it, whatever
    the key order inside the folder is - looked up in order WITHOUT a metadata filter with limit 1, 2, 3, 20 (below, at,
    above the number of recordings in the window) and without a limit, through every listing entry point; and windows
    reaching into the neighbouring day folders: min(limit, inside) recordings, all inside"""
    d = DAYUS
    day = [d + (2 * k + 1) * H + 7 * 60 * 10**6 for k in range(11)]
    times = sorted([5 * H, 20 * H] + day + [2 * d + 4 * H, 2 * d + 22 * H])
    tags = [i % 2 for i in range(len(times))]
    now = 3 * d + H
    out = []
    n = 0
    for k in range(len(day)):
        for width in (1, 2):
            if k + width > len(day):
                continue
            s0, e0 = day[k] - 30 * 60 * 10**6, day[k + width - 1] + 30 * 60 * 10**6
            for limit in (1, 2, 3, 20, None):
                via = (["ids"] + VIAS)[n % 4]
                n += 1
                c = _case(times, tags, s0, e0, now, limit=limit)
                if via != "ids":
                    c["via"] = via
                out.append(c)
    for s0, e0 in ((20 * H - 1, day[0] + 1), (day[-1] - 1, 2 * d + 4 * H), (5 * H + 1, day[1]), (day[5], 2 * d + 22 * H - 1)):
        for limit in (1, 2, 3, 5, 20):
            for via in ["ids"] + VIAS:
                c = _case(times, tags, s0, e0, now, limit=limit)
                if via != "ids":
                    c["via"] = via
                out.append(c)
    return out


DAYUS = 24 * H
WIDE_LO, WIDE_HI = -61, 129      # days relative to the driver's BASE (2020-02-27): 2019-12-28 .. 2020-07-05
WIDE_WIDTHS = [30, 31, 32, 40, 59, 62, 93, 120]    # days between start and end: 31 .. 121 day folders


BASE_DATE = __import__("datetime").date(2020, 2, 27)     # the driver's BASE (offset 0)


def date_of(case, us):
    return BASE_DATE + __import__("datetime").timedelta(days=case.get("base_days", 0) + us // DAYUS)


def wide_times(base_days=0, lo=WIDE_LO, hi=WIDE_HI):
    """one recording per day over several months, at an hour that moves through the day, plus one microsecond around the
    midnights that begin a month"""
    ts = [d * DAYUS + ((7 * d) % 24) * H + ((13 * d) % 60) * 60 * 10**6 for d in range(lo, hi + 1)]
    for d in range(lo + 1, hi):
        if date_of(dict(base_days=base_days), d * DAYUS).day == 1:
            ts += [d * DAYUS - 1, d * DAYUS, d * DAYUS + 1]
    return sorted(set(ts))


def wide_cases(rng, tier):
    times = wide_times()
    tags = [rng.randrange(NTAGS) for _ in times]
    now_all = (WIDE_HI + 1) * DAYUS + H
    offs = [0, 6 * H + 30 * 60 * 10**6, DAYUS - 1, 12 * H]
    out = []
    for k, d in enumerate(range(WIDE_LO + 1, 97)):            # the start falls on every day of five different months
        s = d * DAYUS + offs[k % len(offs)]
        if tier == "quick":
            widths = [WIDE_WIDTHS[k % len(WIDE_WIDTHS)], WIDE_WIDTHS[(3 * k + 1) % len(WIDE_WIDTHS)]]
        else:
            widths = WIDE_WIDTHS
        for j, w in enumerate(widths):
            e = s + w * DAYUS + [0, -offs[k % len(offs)], 5 * H, -1][(k + j) % 4]
            flt = (k + j) % NTAGS if (k + j) % 3 == 0 else None
            out.append(_case(times, tags, s, min(e, now_all), now_all, flt=flt, rnd=(k + j) % 5 == 0))
        if tier != "quick" or k % 2 == 0:                    # end defaults to now: everything saved so far is behind it
            out.append(_case(times, tags, s, None, now_all, flt=k % NTAGS if k % 4 == 0 else None))
        if tier != "quick" or k % 8 == 3:                    # ... also at an earlier `now` (a shorter history)
            nw = s + 45 * DAYUS + 3 * H
            out.append(_case(times, tags, s, None, nw, keep=lambda t: t <= nw))
    # the same a year later (offsets from 2021-02-27): a February of 28 days; starts from 20 Jan to 5 Mar 2021
    lo, hi = -45, 110
    times2 = wide_times(366, lo, hi)
    tags2 = [rng.randrange(NTAGS) for _ in times2]
    now2 = (hi + 1) * DAYUS + H
    for k, d in enumerate(range(-38, 7)):
        s = d * DAYUS + offs[(k + 1) % len(offs)]
        widths = [31, 59] if tier == "quick" else WIDE_WIDTHS[1:]
        for j, w in enumerate(widths):
            out.append(_case(times2, tags2, s, s + w * DAYUS + [5 * H, 0, -1][(k + j) % 3], now2, base_days=366,
                             flt=(k + j) % NTAGS if (k + j) % 4 == 0 else None))
        if tier != "quick" or k % 3 == 0:
            out.append(_case(times2, tags2, s, None, now2, base_days=366))
    return out


def tags_of(case):
    return case.get("tags") or [0] * len(case["times"])     # (cases written before the filter dimension existed)


def prelude(cases):
    seen = {}
    out = []
    for c in cases:
        k = (tuple(c["times"]), tuple(tags_of(c)))
        if c.get("limit") is not None:
            continue
        if k not in seen:
            n = len(seen)
            seen[k] = "times_%d tags_%d" % (n, n)
            out.append("Definition times_%d : list Z := %s." % (n, glist([gZ(t) for t in k[0]])))
            out.append("Definition tags_%d : list Z := %s." % (n, glist([gZ(g) for g in k[1]])))
    prelude.names = seen
    return "\n".join(out)


def to_gallina(case, obs):
    if case.get("limit") is not None:
        return None                       # which ids a limited lookup returns is not determined: direct predicate only
    name = prelude.names[(tuple(case["times"]), tuple(tags_of(case)))]
    listed = obs.get("listed", [-1])
    if any(i < 0 for i in listed) or obs.get("n") != len(listed):
        listed = [4999]   # unknown ids / driver trouble: force a mismatch
    flt = case.get("filter")
    return "Case %s %s %s %s %s %s" % (name, gZ(case["start"]), gopt(None if case["end"] is None else gZ(case["end"])),
                                       gZ(case["now"]), gopt(None if flt is None else gZ(flt)),
                                       glist([gN(i) for i in listed]))


def explain(case, obs):
    return "model_obs (%s)" % to_gallina(case, obs)


class _Tagged(list):
    """failure list that appends a remark to every message"""
    def __init__(self, remark):
        list.__init__(self)
        self.remark = remark

    def append(self, f):
        list.append(self, (f[0], f[1] + self.remark))


def direct(case, obs):
    if "driver_exception" in obs:
        return [("lookup-raises", obs["driver_exception"])]
    e = case["now"] if case["end"] is None else case["end"]
    flt, tags = case.get("filter"), tags_of(case)
    inside = [i for i, t in enumerate(case["times"]) if case["start"] <= t <= e]
    want = [i for i in inside if flt is None or tags[i] == flt]
    got = obs["listed"]
    fails = []
    if case.get("log") or case.get("tz") or case.get("via"):
        fails = _Tagged((" [lookup made through %s]" % VIA_NAMES[case["via"]] if case.get("via") else "") +
                        (" [lookup made with logging enabled at %s]" % case["log"] if case.get("log") else "") +
                        (" [lookup made in a process whose time zone is TZ=%s; the bounds are naive UTC]" % case["tz"]
                         if case.get("tz") else ""))
    lim = case.get("limit")
    if lim is not None:
        # a limited lookup: min(limit, matching) ids, each of them a matching recording inside the window
        if len(got) > lim:
            fails.append(("more-than-limit", "limit %d, %d ids listed" % (lim, len(got))))
        if len(got) < min(lim, len(want)):
            fails.append(("missed-inside-window", "lookup with limit=%d (%s) over %d day folders listed %d ids although %d "
                          "matching recordings lie inside the window: missed times(us)=%s" %
                          (lim, "random sample" if case.get("random") else "ordered", e // DAYUS - case["start"] // DAYUS + 1,
                           len(got), len(want), [case["times"][i] for i in sorted(set(want) - set(got))[:5]])))
    if len(set(got)) != len(got):
        fails.append(("duplicate", "a recording was listed twice: %s" % got))
    if obs["unknown"] or any(i < 0 for i in got):
        fails.append(("foreign-id", "listed ids that were not saved in this category: %s" % obs["unknown"]))
    missed = sorted(set(want) - set(got))
    unmatched = sorted(i for i in set(got) & set(inside) if i not in want)
    extra = sorted(set(got) - set(inside) - {-1})
    if unmatched:
        fails.append(("listed-not-matching", "recordings inside the window listed although their metadata does not "
                      "satisfy the filter g=%s: times(us)=%s" % (flt, [case["times"][i] for i in unmatched[:5]])))
    if missed and lim is None:
        fails.append(("missed-inside-window", "recordings inside the window not listed, times(us)=%s" %
                      [case["times"][i] for i in missed[:5]]))
    if extra:
        fails.append(("listed-outside-window", "recordings outside the window listed%s, times(us)=%s" %
                      ("" if flt is None else " (lookup with metadata filter g=%s)" % flt,
                       [case["times"][i] for i in extra[:5]])))
    return fails


VIA_NAMES = {"metadata": "S3TapeCassette.iter_recordings_metadata", "find": "find_matching_recording_ids (default: "
             "skip_incomplete=True)", "find-all": "find_matching_recording_ids(skip_incomplete=False)"}


def features(case):
    e = case["now"] if case["end"] is None else case["end"]
    f = set()
    f.add("entry-point=" + (case.get("via") or "iter_recording_ids"))
    if case.get("limit") is not None and case.get("filter") is None and not case.get("random") and case.get("via") != "find":
        D = 24 * H
        if any((t // D == case["start"] // D and t < case["start"]) or (t // D == e // D and t > e) for t in case["times"]):
            f.add("limit-without-filter:edge-day-folder-holds-recordings-outside-the-window")
    f.add("end=now" if case["end"] is None else "end=explicit")
    f.add("filter=" + ("none" if case.get("filter") is None else "metadata"))
    f.add("listing=" + ("shuffled" if case.get("random") else "ordered"))
    if case.get("filter") is not None:
        D, tags = 24 * H, tags_of(case)
        for i, t in enumerate(case["times"]):
            if tags[i] == case["filter"] and not (case["start"] <= t <= e):
                if t // D == case["start"] // D and t < case["start"]:
                    f.add("matching-recording-in-first-day-folder-before-start")
                if t // D == e // D and t > e:
                    f.add("matching-recording-in-last-day-folder-after-end")
    f.add("span_days=%d" % ((e // (24 * H)) - (case["start"] // (24 * H))) if e >= case["start"] else "empty-window")
    if e >= case["start"] and (e % (24 * H)) < (case["start"] % (24 * H)):
        f.add("end-time-of-day-before-start-time-of-day")
    if case["start"] % H or e % H:
        f.add("off-hour-grid")
    if case.get("log"):
        f.add("logging=" + case["log"])
    if case.get("tz"):
        f.add("process-time-zone=" + case["tz"])
    if case["start"] % SEC or e % SEC:
        f.add("bound-with-microseconds")
        if any(t // SEC in (case["start"] // SEC, e // SEC) and t not in (case["start"], e) for t in case["times"]):
            f.add("recording-saved-within-the-clock-second-of-a-bound")
    if case.get("limit") is not None:
        nf = e // DAYUS - case["start"] // DAYUS + 1 if e >= case["start"] else 0
        f.add("limit:%s-than-day-folders,%s" % ("fewer" if case["limit"] < nf else "not-fewer",
                                                  "random-sample" if case.get("random") else "ordered"))
    if e >= case["start"]:
        nf = e // DAYUS - case["start"] // DAYUS + 1
        f.add("day-folders=" + ("1" if nf == 1 else "2-7" if nf <= 7 else "8-31" if nf <= 31 else "32-62" if nf <= 62 else "63+"))
        if nf > 31:
            f.add("wide-window-start-day-of-month=%d" % date_of(case, case["start"]).day)
            if any(date_of(case, d * DAYUS).month == 2 and date_of(case, d * DAYUS).day == 28 and
                   date_of(case, (d + 1) * DAYUS).month == 3 for d in range(case["start"] // DAYUS, e // DAYUS)):
                f.add("wide-window-over-a-28-day-february")
    return f


def nontrivial(case):
    e = case["now"] if case["end"] is None else case["end"]
    flt, tags = case.get("filter"), tags_of(case)
    n = sum(1 for i, t in enumerate(case["times"]) if case["start"] <= t <= e and (flt is None or tags[i] == flt))
    return 0 < n < len(case["times"])


def shrink_candidates(case):
    ts, gs = case["times"], tags_of(case)
    if len(ts) > 1:
        yield dict(case, times=ts[:len(ts) // 2], tags=gs[:len(ts) // 2])
        yield dict(case, times=ts[len(ts) // 2:], tags=gs[len(ts) // 2:])
        for i in range(min(len(ts), 12)):
            yield dict(case, times=ts[:i] + ts[i + 1:], tags=gs[:i] + gs[i + 1:])
    if case.get("log"):
        yield dict(case, tags=gs, log=None)
    if case.get("tz"):
        yield dict(case, tags=gs, tz=None)
    if case.get("via"):
        yield dict(case, tags=gs, via=None)
    if case.get("random"):
        yield dict(case, tags=gs, random=False)
    if case.get("filter") is not None:
        yield dict(case, tags=gs, filter=None)


MANIFEST = dict(
    design_ref='6/C16',
    text='Coq theorems over all integer instants (window exactness, also next to a metadata filter; day cover, nothing outside, distinct folders; legacy defect refuted with a witness) about a hand-written model of _get_id_prefixes + the facade predicate list (last-modified predicate, content predicate); model tied to /repo on every run by running the real S3TapeCassette (fake bucket, fake clock) and the model on the same window grid + random instants (4 days, hour / minute / microsecond level) and on wide windows (31-121 day folders over six and a half months, the start on every day of the month), each window without and (every second one) with a metadata filter, ordered or shuffled, on bounds and save instants fractions of a second apart, on limited lookups (random sample / ordered, limit below the number of day folders; limit without a filter over a busy day folder most of which lies outside the window; implementation side only), every fifth case again through iter_recordings_metadata / find_matching_recording_ids (every listing entry point answers the same window), every third case again with logging enabled at DEBUG / INFO, every sixth again under a non-UTC process time zone; direct predicate on the implementation searches for a failing window.',
    note="Trusted: Coq kernel + vm_compute; hand-written model; correspondence harness (fake bucket behind the real S3BasicFacade, fake clock); strftime day formatting and 'process clock is UTC' are assumptions.",
    technique='Coq proof (lia over Z) + model/implementation correspondence by vm_compute',
)
