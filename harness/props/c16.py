"""C16 - S3 time-window lookup is exact."""
from lib.gallina import gZ, gN, glist, gopt

ID = "C16"
RUN_MODULE = "RunC16"
DRIVER = "window_driver.py"
H = 3600 * 10**6
RULE = ("one case = one lookup (start, end or None=now, now, optional metadata filter {'g': v}, ordered or shuffled "
        "listing) over a bucket holding one recording per grid instant (created = saved = last-modified at that instant, "
        "fake clock; metadata 'g' in {0,1,2} drawn per recording); every window of the grid is looked up without a "
        "filter and (every second one) with a filter, so that recordings matching the filter sit in the edge day "
        "folders on both sides of the window ends; stream `wide`: one recording per day over six and a half months "
        "(2019-12-28 .. 2020-07-05: a year boundary, months of 29 / 30 / 31 days, +-1 us around the midnights that begin a "
        "month), windows of 31-121 day folders whose start falls on every day of five months, explicit end and end = now, and "
        "the same a year later around a February of 28 days (`base_days`: the instants of a case are offsets from the "
        "driver's BASE + that many days; the model is invariant under whole-day shifts); "
        "every third case is run a second time with logging enabled (root logger at DEBUG / INFO with a formatting handler): "
        "the process configuration is not an input of the lookup; non-trivial = window non-empty and not covering everything; "
        "distinct = distinct (times, tags, start, end, now, filter, random)")
EXHAUSTIVE = {"quick": False, "thorough": True}
ASSUMPTIONS = ["process clock in UTC (datetime.today() == utcnow(), both replaced by the fake clock)",
               "strftime('%Y%m%d') injective and monotone on days (exercised across a leap day, seven month boundaries and a "
               "year boundary)",
               "S3 last_modified of an object = instant of its put (fake bucket)"]
TRUSTED = ["fake bucket behind the real S3BasicFacade; fake clock substituted for s3_tape_cassette.datetime"]


NTAGS = 3


def _case(times, tags, start, end, now, flt=None, rnd=False, keep=None, base_days=0):
    if keep is not None:
        pairs = [(t, g) for t, g in zip(times, tags) if keep(t)]
        times, tags = [t for t, _ in pairs], [g for _, g in pairs]
    c = dict(times=times, tags=tags, start=start, end=end, now=now, filter=flt, random=rnd)
    if base_days:
        c["base_days"] = base_days     # all instants of the case are offsets from the driver's BASE + that many days
    return c


def generate(rng, tier):
    days = 4
    grid = [h * H for h in range(5, 24 * days)]      # one long-lived cassette: its first recording is NOT made at midnight
    extra = sorted(rng.randrange(0, days * 24 * H) for _ in range(24))
    # boundary instants: one microsecond around every midnight
    edges = [d * 24 * H + e for d in range(1, days) for e in (-1, 0, 1)]
    times = sorted(set(grid + extra + edges))
    tags = [rng.randrange(NTAGS) for _ in times]      # metadata value 'g' of each recording
    step = 3 if tier == "quick" else 1
    pts = [h * H for h in range(0, 24 * days + 1, step)]
    cases = []
    nowv = days * 24 * H + H
    for si, s in enumerate(pts):
        for ei, e in enumerate(pts):
            if e < s - 6 * H:
                continue
            cases.append(_case(times, tags, s, e, nowv))
            if (si + ei) % 2 == 0:
                # the same window with a metadata filter (the facade then chains two predicates), ordered / shuffled
                cases.append(_case(times, tags, s, e, nowv, flt=(si + ei) // 2 % NTAGS, rnd=(si + ei) % 4 == 0))
        for k, nw in enumerate((s + 2 * H, s + 25 * H, s + 47 * H + 30 * 60 * 10**6)):   # end defaults to now
            # a lookup at `now` can only see recordings that were already saved
            cases.append(_case(times, tags, s, None, nw, keep=lambda t: t <= nw))
            cases.append(_case(times, tags, s, None, nw, flt=(si + k) % NTAGS, rnd=k == 1, keep=lambda t: t <= nw))
    n_rand = 150 if tier == "quick" else 1500
    for _ in range(n_rand):   # minute / microsecond level instants
        s = rng.randrange(0, days * 24 * 60) * 60 * 10**6 + rng.choice([0, 0, 1, 999999, rng.randrange(60 * 10**6)])
        e = s + rng.randrange(-2 * 60, 50 * 60) * 60 * 10**6 + rng.choice([0, 1, -1, rng.randrange(60 * 10**6)])
        flt = rng.choice([None, None, 0, 1, 2])
        rnd = rng.random() < 0.3
        if rng.random() < 0.25:
            cases.append(_case(times, tags, s, None, max(e, 0), flt=flt, rnd=rnd, keep=lambda t: t <= max(e, 0)))
        else:
            cases.append(_case(times, tags, s, e, nowv, flt=flt, rnd=rnd))
    # ---- wide windows: several months of day folders, the start on every day of the month ----------------------------
    # (own generator, after every draw of the streams above: those draw the same cases as before this stream existed)
    rng_w = __import__("random").Random(rng.getrandbits(64))
    cases += wide_cases(rng_w, tier)
    cases.sort(key=lambda c: (len(c["times"]), c["now"]))
    # ---- the process configuration is not an input of the lookup: every third case again with logging switched on ----
    # (root logger at DEBUG / INFO and a handler that formats every record, as when somebody investigates a lookup)
    again = [dict(c, log="INFO" if i % 12 == 10 else "DEBUG") for i, c in enumerate(cases) if i % 3 == 1]
    cases += again
    cases.sort(key=lambda c: (len(c["times"]), c["now"]))
    return cases


DAYUS = 24 * H
WIDE_LO, WIDE_HI = -61, 129      # days relative to the driver's BASE (2020-02-27): 2019-12-28 .. 2020-07-05
WIDE_WIDTHS = [30, 31, 32, 40, 59, 62, 93, 120]    # days between start and end: 31 .. 121 day folders


BASE_DATE = __import__("datetime").date(2020, 2, 27)     # the driver's BASE (offset 0)


def date_of(case, us):
    return BASE_DATE + __import__("datetime").timedelta(days=case.get("base_days", 0) + us // DAYUS)


def wide_times(base_days=0, lo=WIDE_LO, hi=WIDE_HI):
    """one recording per day over several months, at an hour that moves through the day, plus one microsecond around the
    midnights that begin a month"""
    ts = [d * DAYUS + ((7 * d) % 24) * H + ((13 * d) % 60) * 60 * 10**6 for d in range(lo, hi + 1)]
    for d in range(lo + 1, hi):
        if date_of(dict(base_days=base_days), d * DAYUS).day == 1:
            ts += [d * DAYUS - 1, d * DAYUS, d * DAYUS + 1]
    return sorted(set(ts))


def wide_cases(rng, tier):
    times = wide_times()
    tags = [rng.randrange(NTAGS) for _ in times]
    now_all = (WIDE_HI + 1) * DAYUS + H
    offs = [0, 6 * H + 30 * 60 * 10**6, DAYUS - 1, 12 * H]
    out = []
    for k, d in enumerate(range(WIDE_LO + 1, 97)):            # the start falls on every day of five different months
        s = d * DAYUS + offs[k % len(offs)]
        if tier == "quick":
            widths = [WIDE_WIDTHS[k % len(WIDE_WIDTHS)], WIDE_WIDTHS[(3 * k + 1) % len(WIDE_WIDTHS)]]
        else:
            widths = WIDE_WIDTHS
        for j, w in enumerate(widths):
            e = s + w * DAYUS + [0, -offs[k % len(offs)], 5 * H, -1][(k + j) % 4]
            flt = (k + j) % NTAGS if (k + j) % 3 == 0 else None
            out.append(_case(times, tags, s, min(e, now_all), now_all, flt=flt, rnd=(k + j) % 5 == 0))
        if tier != "quick" or k % 2 == 0:                    # end defaults to now: everything saved so far is behind it
            out.append(_case(times, tags, s, None, now_all, flt=k % NTAGS if k % 4 == 0 else None))
        if tier != "quick" or k % 8 == 3:                    # ... also at an earlier `now` (a shorter history)
            nw = s + 45 * DAYUS + 3 * H
            out.append(_case(times, tags, s, None, nw, keep=lambda t: t <= nw))
    # the same a year later (offsets from 2021-02-27): a February of 28 days; starts from 20 Jan to 5 Mar 2021
    lo, hi = -45, 110
    times2 = wide_times(366, lo, hi)
    tags2 = [rng.randrange(NTAGS) for _ in times2]
    now2 = (hi + 1) * DAYUS + H
    for k, d in enumerate(range(-38, 7)):
        s = d * DAYUS + offs[(k + 1) % len(offs)]
        widths = [31, 59] if tier == "quick" else WIDE_WIDTHS[1:]
        for j, w in enumerate(widths):
            out.append(_case(times2, tags2, s, s + w * DAYUS + [5 * H, 0, -1][(k + j) % 3], now2, base_days=366,
                             flt=(k + j) % NTAGS if (k + j) % 4 == 0 else None))
        if tier != "quick" or k % 3 == 0:
            out.append(_case(times2, tags2, s, None, now2, base_days=366))
    return out


def tags_of(case):
    return case.get("tags") or [0] * len(case["times"])     # (cases written before the filter dimension existed)


def prelude(cases):
    seen = {}
    out = []
    for c in cases:
        k = (tuple(c["times"]), tuple(tags_of(c)))
        if k not in seen:
            n = len(seen)
            seen[k] = "times_%d tags_%d" % (n, n)
            out.append("Definition times_%d : list Z := %s." % (n, glist([gZ(t) for t in k[0]])))
            out.append("Definition tags_%d : list Z := %s." % (n, glist([gZ(g) for g in k[1]])))
    prelude.names = seen
    return "\n".join(out)


def to_gallina(case, obs):
    name = prelude.names[(tuple(case["times"]), tuple(tags_of(case)))]
    listed = obs.get("listed", [-1])
    if any(i < 0 for i in listed) or obs.get("n") != len(listed):
        listed = [4999]   # unknown ids / driver trouble: force a mismatch
    flt = case.get("filter")
    return "Case %s %s %s %s %s %s" % (name, gZ(case["start"]), gopt(None if case["end"] is None else gZ(case["end"])),
                                       gZ(case["now"]), gopt(None if flt is None else gZ(flt)),
                                       glist([gN(i) for i in listed]))


def explain(case, obs):
    return "model_obs (%s)" % to_gallina(case, obs)


class _Tagged(list):
    """failure list that appends a remark to every message"""
    def __init__(self, remark):
        list.__init__(self)
        self.remark = remark

    def append(self, f):
        list.append(self, (f[0], f[1] + self.remark))


def direct(case, obs):
    if "driver_exception" in obs:
        return [("lookup-raises", obs["driver_exception"])]
    e = case["now"] if case["end"] is None else case["end"]
    flt, tags = case.get("filter"), tags_of(case)
    inside = [i for i, t in enumerate(case["times"]) if case["start"] <= t <= e]
    want = [i for i in inside if flt is None or tags[i] == flt]
    got = obs["listed"]
    fails = []
    if case.get("log"):
        fails = _Tagged(" [lookup made with logging enabled at %s]" % case["log"])
    if len(set(got)) != len(got):
        fails.append(("duplicate", "a recording was listed twice: %s" % got))
    if obs["unknown"] or any(i < 0 for i in got):
        fails.append(("foreign-id", "listed ids that were not saved in this category: %s" % obs["unknown"]))
    missed = sorted(set(want) - set(got))
    unmatched = sorted(i for i in set(got) & set(inside) if i not in want)
    extra = sorted(set(got) - set(inside) - {-1})
    if unmatched:
        fails.append(("listed-not-matching", "recordings inside the window listed although their metadata does not "
                      "satisfy the filter g=%s: times(us)=%s" % (flt, [case["times"][i] for i in unmatched[:5]])))
    if missed:
        fails.append(("missed-inside-window", "recordings inside the window not listed, times(us)=%s" %
                      [case["times"][i] for i in missed[:5]]))
    if extra:
        fails.append(("listed-outside-window", "recordings outside the window listed%s, times(us)=%s" %
                      ("" if flt is None else " (lookup with metadata filter g=%s)" % flt,
                       [case["times"][i] for i in extra[:5]])))
    return fails


def features(case):
    e = case["now"] if case["end"] is None else case["end"]
    f = set()
    f.add("end=now" if case["end"] is None else "end=explicit")
    f.add("filter=" + ("none" if case.get("filter") is None else "metadata"))
    f.add("listing=" + ("shuffled" if case.get("random") else "ordered"))
    if case.get("filter") is not None:
        D, tags = 24 * H, tags_of(case)
        for i, t in enumerate(case["times"]):
            if tags[i] == case["filter"] and not (case["start"] <= t <= e):
                if t // D == case["start"] // D and t < case["start"]:
                    f.add("matching-recording-in-first-day-folder-before-start")
                if t // D == e // D and t > e:
                    f.add("matching-recording-in-last-day-folder-after-end")
    f.add("span_days=%d" % ((e // (24 * H)) - (case["start"] // (24 * H))) if e >= case["start"] else "empty-window")
    if e >= case["start"] and (e % (24 * H)) < (case["start"] % (24 * H)):
        f.add("end-time-of-day-before-start-time-of-day")
    if case["start"] % H or e % H:
        f.add("off-hour-grid")
    if case.get("log"):
        f.add("logging=" + case["log"])
    if e >= case["start"]:
        nf = e // DAYUS - case["start"] // DAYUS + 1
        f.add("day-folders=" + ("1" if nf == 1 else "2-7" if nf <= 7 else "8-31" if nf <= 31 else "32-62" if nf <= 62 else "63+"))
        if nf > 31:
            f.add("wide-window-start-day-of-month=%d" % date_of(case, case["start"]).day)
            if any(date_of(case, d * DAYUS).month == 2 and date_of(case, d * DAYUS).day == 28 and
                   date_of(case, (d + 1) * DAYUS).month == 3 for d in range(case["start"] // DAYUS, e // DAYUS)):
                f.add("wide-window-over-a-28-day-february")
    return f


def nontrivial(case):
    e = case["now"] if case["end"] is None else case["end"]
    flt, tags = case.get("filter"), tags_of(case)
    n = sum(1 for i, t in enumerate(case["times"]) if case["start"] <= t <= e and (flt is None or tags[i] == flt))
    return 0 < n < len(case["times"])


def shrink_candidates(case):
    ts, gs = case["times"], tags_of(case)
    if len(ts) > 1:
        yield dict(case, times=ts[:len(ts) // 2], tags=gs[:len(ts) // 2])
        yield dict(case, times=ts[len(ts) // 2:], tags=gs[len(ts) // 2:])
        for i in range(min(len(ts), 12)):
            yield dict(case, times=ts[:i] + ts[i + 1:], tags=gs[:i] + gs[i + 1:])
    if case.get("log"):
        yield dict(case, tags=gs, log=None)
    if case.get("random"):
        yield dict(case, tags=gs, random=False)
    if case.get("filter") is not None:
        yield dict(case, tags=gs, filter=None)


MANIFEST = dict(
    design_ref='6/C16',
    text='Coq theorems over all integer instants (window exactness, also next to a metadata filter; day cover, nothing outside, distinct folders; legacy defect refuted with a witness) about a hand-written model of _get_id_prefixes + the facade predicate list (last-modified predicate, content predicate); model tied to /repo on every run by running the real S3TapeCassette (fake bucket, fake clock) and the model on the same window grid + random instants (4 days, hour / minute / microsecond level) and on wide windows (31-121 day folders over six and a half months, the start on every day of the month), each window without and (every second one) with a metadata filter, ordered or shuffled, every third case again with logging enabled at DEBUG / INFO; direct predicate on the implementation searches for a failing window.',
    note="Trusted: Coq kernel + vm_compute; hand-written model; correspondence harness (fake bucket behind the real S3BasicFacade, fake clock); strftime day formatting and 'process clock is UTC' are assumptions.",
    technique='Coq proof (lia over Z) + model/implementation correspondence by vm_compute',
)
