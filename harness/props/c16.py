"""C16 - S3 time-window lookup is exact."""
from lib.gallina import gZ, gnat, glist, gopt

ID = "C16"
RUN_MODULE = "RunC16"
DRIVER = "window_driver.py"
H = 3600 * 10**6
RULE = ("one case = one lookup (start, end or None=now, now) over a bucket holding one recording per grid instant "
        "(created = saved = last-modified at that instant, fake clock); non-trivial = window non-empty and not "
        "covering everything; distinct = distinct (times, start, end, now)")
EXHAUSTIVE = {"quick": False, "thorough": True}
ASSUMPTIONS = ["process clock in UTC (datetime.today() == utcnow(), both replaced by the fake clock)",
               "strftime('%Y%m%d') injective and monotone on days (exercised across a leap day and a month boundary)",
               "S3 last_modified of an object = instant of its put (fake bucket)"]
TRUSTED = ["fake bucket behind the real S3BasicFacade; fake clock substituted for s3_tape_cassette.datetime"]


def generate(rng, tier):
    days = 4
    grid = [h * H for h in range(5, 24 * days)]      # one long-lived cassette: its first recording is NOT made at midnight
    extra = sorted(rng.randrange(0, days * 24 * H) for _ in range(24))
    # boundary instants: one microsecond around every midnight
    edges = [d * 24 * H + e for d in range(1, days) for e in (-1, 0, 1)]
    times = sorted(set(grid + extra + edges))
    step = 3 if tier == "quick" else 1
    pts = [h * H for h in range(0, 24 * days + 1, step)]
    cases = []
    nowv = days * 24 * H + H
    for s in pts:
        for e in pts:
            if e < s - 6 * H:
                continue
            cases.append(dict(times=times, start=s, end=e, now=nowv))
        for nw in (s + 2 * H, s + 25 * H, s + 47 * H + 30 * 60 * 10**6):   # end defaults to now
            # a lookup at `now` can only see recordings that were already saved
            cases.append(dict(times=[t for t in times if t <= nw], start=s, end=None, now=nw))
    n_rand = 150 if tier == "quick" else 1500
    for _ in range(n_rand):   # minute / microsecond level instants
        s = rng.randrange(0, days * 24 * 60) * 60 * 10**6 + rng.choice([0, 0, 1, 999999, rng.randrange(60 * 10**6)])
        e = s + rng.randrange(-2 * 60, 50 * 60) * 60 * 10**6 + rng.choice([0, 1, -1, rng.randrange(60 * 10**6)])
        if rng.random() < 0.25:
            cases.append(dict(times=[t for t in times if t <= max(e, 0)], start=s, end=None, now=max(e, 0)))
        else:
            cases.append(dict(times=times, start=s, end=e, now=nowv))
    cases.sort(key=lambda c: (len(c["times"]), c["now"]))
    return cases


def prelude(cases):
    seen = {}
    out = []
    for c in cases:
        k = tuple(c["times"])
        if k not in seen:
            seen[k] = "times_%d" % len(seen)
            out.append("Definition %s : list Z := %s." % (seen[k], glist([gZ(t) for t in k])))
    prelude.names = seen
    return "\n".join(out)


def to_gallina(case, obs):
    name = prelude.names[tuple(case["times"])]
    listed = obs.get("listed", [-1])
    if any(i < 0 for i in listed) or obs.get("n") != len(listed):
        listed = [4999]   # unknown ids / driver trouble: force a mismatch
    return "Case %s %s %s %s %s" % (name, gZ(case["start"]), gopt(None if case["end"] is None else gZ(case["end"])),
                                    gZ(case["now"]), glist([gnat(i) for i in listed]))


def explain(case, obs):
    return "model_obs (%s)" % to_gallina(case, obs)


def direct(case, obs):
    if "driver_exception" in obs:
        return [("lookup-raises", obs["driver_exception"])]
    e = case["now"] if case["end"] is None else case["end"]
    want = [i for i, t in enumerate(case["times"]) if case["start"] <= t <= e]
    got = obs["listed"]
    fails = []
    if len(set(got)) != len(got):
        fails.append(("duplicate", "a recording was listed twice: %s" % got))
    if obs["unknown"] or any(i < 0 for i in got):
        fails.append(("foreign-id", "listed ids that were not saved in this category: %s" % obs["unknown"]))
    missed = sorted(set(want) - set(got))
    extra = sorted(set(got) - set(want) - {-1})
    if missed:
        fails.append(("missed-inside-window", "recordings inside the window not listed, times(us)=%s" %
                      [case["times"][i] for i in missed[:5]]))
    if extra:
        fails.append(("listed-outside-window", "recordings outside the window listed, times(us)=%s" %
                      [case["times"][i] for i in extra[:5]]))
    return fails


def features(case):
    e = case["now"] if case["end"] is None else case["end"]
    f = set()
    f.add("end=now" if case["end"] is None else "end=explicit")
    f.add("span_days=%d" % ((e // (24 * H)) - (case["start"] // (24 * H))) if e >= case["start"] else "empty-window")
    if e >= case["start"] and (e % (24 * H)) < (case["start"] % (24 * H)):
        f.add("end-time-of-day-before-start-time-of-day")
    if case["start"] % H or e % H:
        f.add("off-hour-grid")
    return f


def nontrivial(case):
    e = case["now"] if case["end"] is None else case["end"]
    n = sum(1 for t in case["times"] if case["start"] <= t <= e)
    return 0 < n < len(case["times"])


def shrink_candidates(case):
    ts = case["times"]
    if len(ts) > 1:
        yield dict(case, times=ts[:len(ts) // 2])
        yield dict(case, times=ts[len(ts) // 2:])
        for i in range(min(len(ts), 12)):
            yield dict(case, times=ts[:i] + ts[i + 1:])


MANIFEST = dict(
    design_ref='6/C16',
    text='Coq theorems over all integer instants (window exactness, day cover, nothing outside, distinct folders; legacy defect refuted with a witness) about a hand-written model of _get_id_prefixes + the last-modified predicate; model tied to /repo on every run by running the real S3TapeCassette (fake bucket, fake clock) and the model on the same window grid + random instants; direct predicate on the implementation searches for a failing window.',
    note="Trusted: Coq kernel + vm_compute; hand-written model; correspondence harness (fake bucket behind the real S3BasicFacade, fake clock); strftime day formatting and 'process clock is UTC' are assumptions.",
    technique='Coq proof (lia over Z) + model/implementation correspondence by vm_compute',
)
