"""C17 - the sampling policy alone decides which recordings are kept."""
from fractions import Fraction

from lib import recdsl as rd
from lib import pyvals as pv
from lib.gallina import gQ, gbool
from props import rec_common as rc
from props import c17_s3
from props import rec2_cases as r2

ID = "C17"
LOG_LEVEL_INVARIANT = True      # (harness/vp.py: a sample of the cases again with logging at DEBUG; same observables)
RUN_MODULE = "RunC17"
DRIVER = "recorder_driver.py"
SHARD = 80
EXHAUSTIVE = {"quick": True, "thorough": True}
RULE = ("the full decision table skipped x rate {0, 1/4, 1/2, float(0.1), 1, 3/2} x forced from {operation, intercepted body, "
        "not} x ignore-forcing x discard {before the force request, after it, not} x outcome {return, raise, interrupt} x draw "
        "{0, rate-eps, rate, rate+eps, 1-eps} with a SCRIPTED random stream (draw == rate is hit exactly), rows grouped into "
        "histories of three runs on one recorder (a forced run must not leak into the next); the same inputs for rates {0, 1/2, 1} "
        "with recording switched off as the operation's first step (and on again as its last): a discard / force request "
        "issued after disable_recording() still counts, the started recording is finalised by the policy; the S3 cassette's size-based rule "
        "over ratio x draw with scripted random, and over histories of 2-3 S3 cassettes with a size-band calculator living in "
        "one process (created one after the other / interleaved / one saving in between; same or other bucket; a twin with "
        "other content in the same size bands), each drawing from the generator it constructed itself: every decision "
        "follows the rule on the tapped draw, the calculator is given the size the recording has in storage (reference cassette "
        "without calculator; also for payloads that compress to a few dozen bytes, limits between encoded and stored size), and "
        "cassettes with the same history decide the same; seeded real-Random histories run twice and as content/outcome-varied twins, "
        "for an ordinary seed and for every kind of value Random accepts (0, 0.0, '', b'', False, True, negative, 2**40, 2**64+1, "
        "text, bytes; two classes with different fractional rates), the decisions also compared with the documented rule applied "
        "to the stream of random.Random(seed) itself; the S3 cassettes are fed directly or THROUGH a real TapeRecorder whose "
        "operations return / raise / are interrupted, also with a calculated rate of 0 for every size: every save consults "
        "the calculator once; a recorded operation inside which other scopes of the recorder open and close (a replay of an "
        "earlier recording, another decorated operation called from the body - kind nested_scope, implementation only): the "
        "decision for the enclosing operation follows (forced, ignore, rate, draw) and every created recording is handed back "
        "to the cassette exactly once; "
        "non-trivial = a row where the draw decides or a force/discard interacts; distinct = distinct case")
ASSUMPTIONS = ["the Mersenne Twister is an oracle stream; uniformity is assumed, the kept fraction over a seeded history is "
               "reported as an observation only",
               "sampling rates and draws are dyadic rationals or the exact value of a float, compared exactly"]
TRUSTED = ["harness-side re-statement of the documented policy (keep_expected) used by the direct predicate",
           "random.Random(seed) of the interpreter as the reference stream a seed stands for"]
THEOREMS = ["C17_keep_policy", "C17_ignore_forcing", "C17_force_does_not_leak", "C17_reproducible", "C17_fraction",
            "C17_s3_sampling"]

TENTH = [3602879701896397, 36028797018963968]       # float(0.1) exactly
RATES = [[0, 1], [1, 4], [1, 2], TENTH, [1, 1], [3, 2]]
EPS = Fraction(1, 2**40)

OUT_CF = dict(alias="send", static=True, handler="none", fail=True, default=pv.none())


def in_cf(alias="get"):
    return dict(alias=alias, resolver={"kind": "none"}, cap=None, static=True, property=False, handler="none",
                prep_discards=False, run_missing=False, vmiss={"kind": "none"}, fallbacks={"kind": "none"})


def row_program(force_from, discard, outcome, variant=0, switch="none"):
    """switch: the service turns recording off while the operation is running (a kill switch, a configuration reload) -
    "off": disable_recording() as the operation's first step, before any discard / force request; "off-on": the same, and
    enable_recording() again as its last step.  The recording that was started stays active and is finalised by the policy."""
    term = {"return": {"k": "ret", "e": {"lit": pv.i(variant)}}, "raise": {"k": "raise", "ty": "ValueError"},
            "interrupt": {"k": "interrupt"}}[outcome]
    c = term
    if switch == "off-on":
        c = {"k": "enable", "b": True, "next": c}
    if variant:
        c = {"k": "out", "cfg": dict(OUT_CF), "body": {"k": "ret", "e": {"lit": pv.none()}},
             "args": [{"lit": pv.s("x" * variant)}], "kwargs": [], "next": c}
    if discard == "after":
        c = {"k": "discard", "next": c}
    if force_from == "op":
        c = {"k": "force", "next": c}
    elif force_from == "body":
        c = {"k": "in", "cfg": in_cf(), "body": {"k": "force", "next": {"k": "ret", "e": {"lit": pv.i(1)}}},
             "args": [], "kwargs": [], "next": c}
    if discard == "before":
        c = {"k": "discard", "next": c}
    if switch != "none":
        c = {"k": "enable", "b": False, "next": c}
    return c


def switched_rows():
    """the policy inputs again for operations during which recording is switched off (and on again): the decision is the
    policy's, whatever the global switch does once the recording has started"""
    for switch in ("off", "off-on"):
        for rate in ([0, 1], [1, 2], [1, 1]):
            for force_from in ("none", "op", "body"):
                for ignore in (False, True):
                    for discard in ("none", "before", "after"):
                        for outcome in ("return", "raise", "interrupt"):
                            r = Fraction(*rate)
                            for d in (min(r, Fraction(1) - EPS), min(r + EPS, Fraction(1) - EPS)):
                                yield dict(skipped=False, rate=rate, force_from=force_from, ignore=ignore, discard=discard,
                                           outcome=outcome, draw=[d.numerator, d.denominator], switch=switch)


def rows():
    for skipped in (False, True):
        for rate in RATES:
            for force_from in ("none", "op", "body"):
                for ignore in (False, True):
                    for discard in ("none", "before", "after"):
                        for outcome in ("return", "raise", "interrupt"):
                            r = Fraction(*rate)
                            for d in (Fraction(0), max(r - EPS, Fraction(0)), min(r, Fraction(1) - EPS), min(r + EPS, Fraction(1) - EPS),
                                      Fraction(1) - EPS):
                                yield dict(skipped=skipped, rate=rate, force_from=force_from, ignore=ignore, discard=discard,
                                           outcome=outcome, draw=[d.numerator, d.denominator])


def row_run(row, variant=0):
    return dict(kind="record", enabled=True, save_fails=False, row=row,
                prm=dict(rate=row["rate"], ignore=row["ignore"], skipped=row["skipped"], copy=False),
                op=dict(cls="Op" + ("S" if row["skipped"] else "K"), classlevel=False, extractor={"kind": "none"},
                        body=row_program(row["force_from"], row["discard"], row["outcome"], variant,
                                         row.get("switch", "none"))))


def keep_expected(row):
    """The documented policy, restated on the harness side.  Returns (decision, draws consumed)."""
    if row["skipped"]:
        return "none", 0
    # a force request issued before a discard is wiped by the discard; after a discard there is no recording to force
    if row["discard"] in ("before", "after"):
        return "abort", 0
    forced = row["force_from"] != "none" and not row["ignore"]
    if forced:
        return "save", 0
    rate = Fraction(*row["rate"])
    if rate >= 1:
        return "save", 0
    return ("save" if Fraction(*row["draw"]) <= rate else "abort"), 1


def generate(rng, tier):
    allrows = list(rows())
    if tier == "quick":
        # every combination of the policy inputs, the draw dimension sampled 2 of 5 per row (full table in thorough)
        keep = []
        for k in range(0, len(allrows), 5):
            grp = allrows[k:k + 5]
            keep += [grp[2]] + [grp[rng.choice([0, 1, 3, 4])]]
        allrows = keep
    sw = list(switched_rows())
    if tier == "quick":
        # both draws for the fractional rate, one for rates 0 and 1 (no draw decides there)
        sw = [r for k, r in enumerate(sw) if r["rate"] == [1, 2] or k % 2 == 0]
    allrows += sw
    rng.shuffle(allrows)
    cases = []
    for k in range(0, len(allrows), 3):
        grp = allrows[k:k + 3]
        draws = []
        for row in grp:
            if keep_expected(row)[1]:
                draws.append(row["draw"])
        cases.append(dict(kind="history", draws=draws + [[1, 2]] * 3, runs=[row_run(r) for r in grp], cassette="memory",
                          predeclare=(k // 3) % 2 == 0))
    # S3 storage-level rule
    for ratio in [None, [0, 1], [1, 4], [1, 2], TENTH, [1, 1], [3, 2]]:
        r = None if ratio is None else Fraction(*ratio)
        ds = [Fraction(0), Fraction(1, 2), Fraction(1) - EPS]
        if r is not None:
            ds += [max(r - EPS, Fraction(0)), min(r, Fraction(1) - EPS), min(r + EPS, Fraction(1) - EPS)]
        for d in ds:
            cases.append(dict(kind="s3", ratio=ratio, draw=[d.numerator, d.denominator]))
    # S3 storage-level rule over histories: several cassettes with a size-based calculator in one process, each with
    # the generator it constructed itself (same history => same decisions, whatever the other cassettes do)
    cases += c17_s3.generate(rng, tier)
    # a recorded operation inside which other scopes of the recorder open and close (nested replay / nested operation call)
    cases += r2.nested_scope_cases()
    # seeded real Random: same seed twice, and a twin history that differs only in content and outcome
    n = 60 if tier == "quick" else 2000
    for seed in ([7] if tier == "quick" else [7, 11, 13]):
        for rate in ([1, 4], TENTH, [1, 2]):
            base = dict(skipped=False, rate=rate, force_from="none", ignore=False, discard="none", draw=[0, 1])
            runs_a = [row_run(dict(base, outcome="return")) for _ in range(n)]
            runs_b = [row_run(dict(base, outcome=rng.choice(["return", "raise", "interrupt"])), variant=rng.randrange(1, 4))
                      for _ in range(n)]
            cases.append(dict(kind="seeded", seed=seed, rate=rate, runs_a=runs_a, runs_b=runs_b))
    # every value random.Random accepts is a seed: zero and the other falsy ones, negative, huge, text and bytes - each
    # with a history that mixes two classes of different fractional rates (the decisions of Random(seed) itself are the
    # reference: "reproducible from the seed")
    n = 40 if tier == "quick" else 200
    for k, (seed, seed_type) in enumerate(EDGE_SEEDS):
        ra, rb = [RATES[1], RATES[2], TENTH][k % 3], [RATES[2], TENTH, RATES[1]][k % 3]
        runs_a, runs_b = [], []
        for j in range(n):
            second = rng.random() < 0.4
            base = dict(skipped=False, rate=rb if second else ra, force_from="none", ignore=False, discard="none", draw=[0, 1])
            a = row_run(dict(base, outcome="return"))
            b = row_run(dict(base, outcome=rng.choice(["return", "raise", "interrupt"])), variant=rng.randrange(1, 4))
            if second:
                a["op"]["cls"] = b["op"]["cls"] = "OpK2"
            runs_a.append(a)
            runs_b.append(b)
        c = dict(kind="seeded", seed=seed, rate=ra, runs_a=runs_a, runs_b=runs_b)
        if seed_type:
            c["seed_type"] = seed_type
        cases.append(c)
    return cases


# (seed as carried by the JSON case, how to read it: see seed_value)
EDGE_SEEDS = [(0, None), (0, "float"), ("", None), ("", "bytes"), (0, "bool"), (1, "bool"), (-7, None), (-1, None),
              (2 ** 40, None), (2 ** 64 + 1, None), (110613, None), ("0", None), ("seed \u00e9", None), ("\x00\xff", "bytes"),
              (0.5, "float")]


def seed_value(case):
    """the seed value a 'seeded' case stands for (JSON cannot carry bytes); the driver's seed_of reads it the same way"""
    sd = case["seed"]
    t = case.get("seed_type")
    return sd.encode("latin-1") if t == "bytes" else float(sd) if t == "float" else bool(sd) if t == "bool" else sd


def seeded_expected(case, runs):
    """The decisions the seed determines: the documented rule applied to the stream of random.Random(seed) itself."""
    import random
    import warnings
    with warnings.catch_warnings():
        warnings.simplefilter("ignore")
        r = random.Random(seed_value(case))
    out = []
    for run in runs:
        row = dict(run["row"])
        if keep_expected(row)[1]:
            x = r.random()
            out.append("save" if x <= float(Fraction(*row["rate"])) else "abort")
        else:
            out.append({"save": "save", "abort": "abort", "none": "abort"}[keep_expected(row)[0]])
    return out


def decision(cass):
    kinds = [c["c"] for c in cass]
    if not kinds:
        return "none"
    if "save" in kinds or "savefailed" in kinds:
        return "save"
    return "abort"


def to_gallina(case, obs):
    if "driver_exception" in obs:
        return "S3 None 0 false"
    if case["kind"] == "history":
        return "H (%s)" % rd.g_case(case, obs)
    if case["kind"] == "s3":
        ratio = "None" if case["ratio"] is None else "(Some %s)" % gQ(Fraction(*case["ratio"]))
        return "S3 %s %s %s" % (ratio, gQ(Fraction(*case["draw"])), gbool(obs["kept"]))
    if case["kind"] == "s3hist":
        return c17_s3.to_gallina(case, obs)
    return None


def explain(case, obs):
    if case["kind"] == "history":
        return "explain_case (%s)" % rd.g_case(case, obs)
    return "0%nat"


def direct(case, obs):
    if "driver_exception" in obs:
        return [("driver", obs["driver_exception"] + obs.get("trace", "")[-400:])]
    fails = []
    if case["kind"] == "history":
        for i, (run, ob) in enumerate(zip(case["runs"], obs["runs"])):
            want, used = keep_expected(run["row"])
            got = decision(ob["cass"])
            if got != want:
                fails.append(("wrong-decision", "run %d: policy inputs %s: documented decision '%s', cassette saw '%s'" %
                              (i, run["row"], want, got)))
            elif ob["draws_used"] != used:
                fails.append(("wrong-number-of-draws", "run %d: policy inputs %s: %d draws consumed, expected %d" %
                              (i, run["row"], ob["draws_used"], used)))
            if ob["state"]["force"]:
                fails.append(("force-flag-sticky", "run %d left the force flag set" % i))
    elif case["kind"] == "s3":
        r = None if case["ratio"] is None else Fraction(*case["ratio"])
        want = True if r is None or r >= 1 else Fraction(*case["draw"]) <= r
        if obs["kept"] != want:
            fails.append(("s3-wrong-decision", "ratio %s draw %s: stored=%s, rule says %s" % (case["ratio"], case["draw"], obs["kept"], want)))
    elif case["kind"] == "s3hist":
        fails += c17_s3.direct(case, obs)
    elif r2.is_rec2(case):
        fails += r2.direct_sampling(case, obs)
    else:
        if obs["a1"] != obs["a2"]:
            fails.append(("not-reproducible", "same seed, same history: decisions differ"))
        if obs["a1"] != obs["b"]:
            fails.append(("depends-on-content", "histories that differ only in operation content and outcome were sampled differently"))
        if obs.get("a_threads") is not None and obs["a1"] != obs["a_threads"]:
            fails.append(("depends-on-thread", "same seed, same history, every operation on a thread of its own: the decisions "
                          "differ from the single-threaded run (%d kept vs %d)" % (obs["a_threads"].count("save"), obs["a1"].count("save"))))
        want = seeded_expected(case, case["runs_a"])
        for name in ("a1", "b"):
            if obs[name] != want:
                k = [i for i, (x, y) in enumerate(zip(obs[name], want)) if x != y]
                fails.append(("not-the-seeded-stream", "random_seed=%r: the decisions are not those of Random(seed) under the "
                              "documented rule (history %s, %d of %d differ, first at run %d)" %
                              (seed_value(case), name, len(k), len(want), k[0] if k else -1)))
                break
    return fails


def log_invariant_view(case, obs):
    """recorder histories and scripted S3 decisions are deterministic; the multi-cassette S3 histories carry sizes and draws
    of real generators that vary from run to run"""
    return obs if case.get("kind") in ("history", "s3", "nested_scope") else None


def features(case):
    if case["kind"] == "history":
        fs = {"history"}
        for r in case["runs"]:
            row = r["row"]
            fs.add("rate=%s/%s" % tuple(row["rate"]))
            fs.add("force:" + row["force_from"] + ("+ignored" if row["ignore"] else ""))
            fs.add("discard:" + row["discard"])
            fs.add("outcome:" + row["outcome"])
            if row["skipped"]:
                fs.add("skipped")
            if row["draw"] == row["rate"]:
                fs.add("draw==rate")
            if row.get("switch", "none") != "none":
                fs.add("recording-switched-" + row["switch"] + "-during-the-operation")
                if row["discard"] != "none":
                    fs.add("discard-after-recording-was-switched-off")
                if row["force_from"] != "none":
                    fs.add("force-after-recording-was-switched-off")
        return fs
    if case["kind"] == "s3hist":
        return c17_s3.features(case)
    if r2.is_rec2(case):
        return r2.features(case)
    if case["kind"] == "seeded":
        sd = seed_value(case)
        return {"seeded", "seed:%s:%s" % (type(sd).__name__, "falsy" if not sd else "negative" if isinstance(sd, (int, float)) and sd < 0
                                            else "truthy")}
    return {case["kind"]}


def nontrivial(case):
    if case["kind"] != "history":
        return True
    return any(keep_expected(r["row"])[1] or r["row"]["force_from"] != "none" or r["row"]["discard"] != "none" for r in case["runs"])


def shrink_candidates(case):
    if case.get("kind") == "history":
        for c in rc.shrink_candidates(case):
            yield c
    if case.get("kind") == "s3hist":
        for c in c17_s3.shrink_candidates(case):
            yield c

MANIFEST = dict(
    design_ref="6/C17",
    text="Coq theorems: for every program, fault placement, outcome and save behaviour the finalisation of a decorated-operation "
         "run equals the documented function keep_spec of (skipped, discarded, forced, rate, next draw) and consumes a draw "
         "exactly when the draw decides (the statement does not mention the program's content or outcome); a class that ignores "
         "forcing never gets the flag set; forcing never leaks into the next run; histories are functions of runs and draw "
         "stream; over N equally spaced draws exactly floor(rate*N)+1 are kept; the S3 storage-level rule is the same function. "
         "Tie: the full decision table (2x6x3x2x3x3 policy combinations x boundary draws, scripted random so that draw == rate "
         "is hit exactly) run on the real TapeRecorder in histories of three, cassette-call kinds and recorder fields compared "
         "with the model; the real S3TapeCassette._should_sample against the model rule, single decisions with a scripted draw "
         "and histories of several cassettes in one process with their own generators (tapped draws); the size the calculator is "
         "given is compared with the byte length of what a reference cassette without calculator stores for the same recording "
         "(incl. highly compressible payloads whose encoded and stored sizes lie in different bands). Direct predicate: harness-side "
         "re-statement of the policy incl. draws consumed; seeded histories twice and as content/outcome-varied twins, over ordinary "
         "and edge seeds (0 and the other falsy values, negative, huge, text, bytes), and against the rule applied to "
         "random.Random(seed) itself. The S3 cassettes are fed directly and through a real TapeRecorder around returning / "
         "raising / interrupted operations.",
    note="Trusted: Coq kernel + vm_compute, hand-written model, correspondence harness, harness-side policy re-statement. The "
         "random generator is an oracle stream (uniformity assumed; kept fraction over seeded histories reported, never a "
         "violation by itself).",
    technique="Coq proof (case analysis over the recording scope on top of the step invariant; arithmetic over Q/Z for the "
              "fraction) + exhaustive decision-table correspondence by vm_compute")
