"""Racing-threads cases shared by C04 (nothing leaks into the service) and C05 (finalised exactly once): the REAL
TapeRecorder methods that touch the active recording, preempted deterministically at every shared access
(harness/impl/race_driver.py), against the model Recorder/Threads.v run by Run/RunRace.v."""
METHS = {"discard": "MDiscard", "finalise": "MFinalise", "force": "MForce", "record_data": "MRecordData", "post": "MPost",
         "current_id": "MCurrentId"}
MAX_E = 10      # no method has more than 9 events (legacy finalise: 8)


def _ok(ms):
    return sum(1 for m in ms if m == "finalise") <= 1      # only the operation's own thread leaves the recording scope


def race_cases(rng, tier):
    """two threads: every method x every preemption point x every interfering method (exhaustive);
    three threads (nested preemption): exhaustive in the thorough tier, a random sample in the quick tier"""
    out = []
    for v in METHS:
        for i in METHS:
            if not _ok((v, i)):
                continue
            for e in range(0, MAX_E):
                out.append(dict(kind="race", victim=v, interferer=i, e=e, sampled_out=(e + len(v)) % 2 == 0))
    three = []
    for v in METHS:
        for i in METHS:
            for t in METHS:
                if not _ok((v, i, t)):
                    continue
                for e in range(0, 8):
                    for f in range(0, 8):
                        three.append(dict(kind="race", victim=v, interferer=i, third=t, e=e, f=f,
                                          sampled_out=(e + f + len(t)) % 2 == 0))
    if tier != "thorough":
        three = rng.sample(three, 600)
    # arbitrary (not only nested) schedules on real threads: one event per schedule entry
    sched = []
    names = list(METHS)
    for _ in range(400 if tier != "thorough" else 12000):
        ms = [rng.choice(names) for _ in range(rng.choice([2, 3, 3]))]
        if not _ok(ms):
            continue
        if rng.random() < 0.5 and "discard" not in ms:
            ms[rng.randrange(len(ms))] = "discard"
            if not _ok(ms):
                continue
        n = rng.randrange(0, 22)
        sched.append(dict(kind="race", methods=ms, sched=[rng.randrange(len(ms)) for _ in range(n)],
                          sampled_out=rng.random() < 0.5))
    return out + three + sched


def is_race(case):
    return case.get("kind") == "race"


def _b(x):
    return "true" if x else "false"


def to_gallina(case, obs):
    if "driver_exception" in obs:
        return "T Fixed MPost MPost None 0 0 (mk_race true true true true true true 9)"
    variant = "Fixed" if obs["has_lock"] else "Legacy"
    ms = methods_of(case)
    if variant == "Legacy" and not case["sampled_out"] and "finalise" in ms:
        return None      # legacy code saving an already aborted recording trips an assertion the model does not carry
    o = "(mk_race %s %s %s %s %s %s %d)" % (
        _b(obs["victim"] != "done"), _b(obs["interferer"] != "done"), _b(obs.get("third", "done") != "done"),
        _b(obs["ar"]), _b(obs["ap"]), _b(obs["fs"]), obs["handed"])
    if "sched" in case:
        return "S %s [%s] ([%s]%%nat) %s" % (variant, "; ".join(METHS[m] for m in ms), "; ".join("%d" % i for i in case["sched"]), o)
    return "T %s %s %s %s %d %d (mk_race %s %s %s %s %s %s %d)" % (
        variant, METHS[case["victim"]], METHS[case["interferer"]],
        "(Some %s)" % METHS[case["third"]] if case.get("third") else "None", case["e"], case.get("f", 0),
        _b(obs["victim"] != "done"), _b(obs["interferer"] != "done"), _b(obs.get("third", "done") != "done"),
        _b(obs["ar"]), _b(obs["ap"]), _b(obs["fs"]), obs["handed"])


def methods_of(case):
    if "sched" in case:
        return list(case["methods"])
    return [case["victim"], case["interferer"]] + ([case["third"]] if case.get("third") else [])


def explain(case, obs):
    t = to_gallina(case, obs)
    return ("model_sched " if "sched" in case else "model_race ") + " ".join(t.split(" (mk_race")[0].split()[1:])


def describe(case):
    if "sched" in case:
        return "threads %s under the schedule %s (one shared access per entry, then each runs to completion)" % (
            case["methods"], case["sched"])
    s = "%s preempted before its event #%d by a %s on another thread" % (case["victim"], case["e"], case["interferer"])
    if case.get("third"):
        s += ", itself preempted before its event #%d by a %s on a third thread" % (case["f"], case["third"])
    return s


def direct_leaks(case, obs):
    """C04: nothing of the machinery reaches the service; the recorder's fields stay consistent"""
    fails = []
    who = describe(case)
    for side in ("victim", "interferer", "third"):
        if obs.get(side, "done") != "done":
            fails.append(("race-leaks-exception", "%s: %s leaked %s into the service" % (who, side, obs[side])))
    if not obs["ar"] and obs["fs"]:
        fails.append(("race-force-outlives-recording", "%s: the force flag is still set after the recording is gone" % who))
    if obs["ar"] != obs["ap"]:
        fails.append(("race-half-reset", "%s: recording and parameters do not vanish together" % who))
    return fails


def direct_finalisation(case, obs):
    """C05: handed to the cassette at most once, and exactly once when it is no longer active and nothing failed"""
    fails = []
    who = describe(case)
    if obs["handed"] > 1:
        fails.append(("race-finalised-twice", "%s: the recording was handed to the cassette %d times" % (who, obs["handed"])))
    quiet = all(obs.get(s, "done") == "done" for s in ("victim", "interferer", "third"))
    if quiet and not obs["ar"] and obs["handed"] == 0:
        fails.append(("race-never-finalised", "%s: the recording is gone and was neither saved nor aborted" % who))
    return fails


def direct_idle(case, obs):
    """C09: once the recording is gone, the shared part of the recorder is idle (no parameters, no forced sampling)"""
    fails = []
    if not obs["ar"] and (obs["ap"] or obs["fs"]):
        fails.append(("race-not-idle", "%s: the recording is gone but %s" % (
            describe(case), "its parameters are still set" if obs["ap"] else "forced sampling is still on")))
    return fails


def features(case):
    if "sched" in case:
        return {"race", "race-arbitrary-schedule", "race-threads:%d" % len(case["methods"])} | \
            {"race-method:" + m for m in case["methods"]}
    fs = {"race", "race-victim:" + case["victim"], "race-interferer:" + case["interferer"]}
    if case.get("third"):
        fs |= {"race-three-threads", "race-third:" + case["third"]}
    return fs
