"""C04 - recording is transparent to the recorded service."""
from lib import recdsl as rd
from props.rec_common import *  # noqa: F401,F403
from props import race_common as rc

ID = "C04"
LOG_LEVEL_INVARIANT = True      # (harness/vp.py: a sample of the cases again with logging at DEBUG; same observables)
RUN_MODULE = "RunC04"
RULE = ("one case = a history of 1-2 recorded operations on one real TapeRecorder, or a recorded operation, 1-2 replays on the "
        "same recorder (completing, or ending in a missing key / a key that cannot be built / an unknown id / an error of the "
        "playback function / an exception or interrupt of the replayed operation - the caller survives all of them) and then "
        "1-2 LIVE operations with recording on or off (random, plus a deterministic grid over the ways a replay ends); programs from the recorder DSL with "
        "every tolerated fault kind placed at random steps, singly and in combination (key cannot be built: failing "
        "resolver / unserializable argument / capture index out of range / failing fallback function; failing input and "
        "output data handlers; a data handler that discards; unserializable values so that copy and save fail; failing or "
        "junk metadata extractors; storage failing on save; discard / forced sampling / enable / disable from the operation "
        "and from intercepted bodies; sampling rates); probes on the real decorators with a logging hook of the service (filter / "
        "handler / formatter on the recorder's logger at INFO or DEBUG) that reads a public property of the recorder for every "
        "record while the operation forces sampling / discards / merely intercepts: the decorated operation ends (watchdog; a "
        "hang is a violation) as the undecorated one; non-trivial = at least one interception; distinct = distinct history")
ASSUMPTIONS = ["threads: the recorder methods that touch the active recording are modelled as sequences of accesses to the "
               "three shared fields (Recorder/Threads.v), preemption possible between any two accesses, any number of "
               "threads, any schedule; a region under self._finalization_lock counts as one step (static gate on the "
               "source); preemption INSIDE a single attribute access or inside the cassette is not modelled; the "
               "program-level theorems (rec_exec) are about one thread",
               "object identity of returned values is checked by the harness only (values are immutable trees in the model)"]
TRUSTED = ["harness-side undecorated twin interpreter (lib/recdsl.twin_run) used by the direct predicate"]
THEOREMS = ["C04_recording_transparent", "C04_operation_transparent", "C04_disabled_passthrough",
            "C04_no_leak_under_any_interleaving", "C04_legacy_refuted"]

INTERRUPT_KINDS = ["custom", "keyboard", "sysexit", "genexit"]   # which BaseException an "interrupt" of the program is
W = dict(rd.DEFAULT_W, fault=0.3, unser=0.08, handler=0.4, discard=0.9, force=0.6, enable=0.5, prep_discards=0.12,
         interrupt=0.08, raise_=0.25, playdata=0.2)


SHARED_FIELDS = ("_active_recording", "_active_recording_parameters", "_force_sample")


def static_gate(repo):
    """The racing-threads model treats a region under self._finalization_lock as ONE atomic step and assumes that, once a
    recording is active, the three shared fields are written only inside such regions.  That reduction is not something
    the run-time comparison can see, so it is checked on the source (ast): every assignment to the three fields lies in
    __init__, in start_recording (activation, before the body runs), inside a `with self._finalization_lock` block, or in
    _reset_active_recording - which in turn is only called inside such a block.  Only applies to the repaired code (the
    lock exists); the legacy code is modelled access by access."""
    import ast
    import os
    src = open(os.path.join(repo, "playback", "tape_recorder.py")).read()
    tree = ast.parse(src)
    cls = [n for n in tree.body if isinstance(n, ast.ClassDef) and n.name == "TapeRecorder"]
    if not cls:
        return ["class TapeRecorder not found in playback/tape_recorder.py"]
    if "_finalization_lock" not in src:
        return []
    errs = []

    def is_lock_with(node):
        return isinstance(node, ast.With) and any(
            isinstance(it.context_expr, ast.Attribute) and it.context_expr.attr == "_finalization_lock"
            for it in node.items)

    def walk(node, fn, locked):
        for ch in ast.iter_child_nodes(node):
            lk = locked or is_lock_with(node)
            if isinstance(ch, (ast.Assign, ast.AugAssign, ast.AnnAssign)):
                targets = ch.targets if isinstance(ch, ast.Assign) else [ch.target]
                for t in targets:
                    for sub in ast.walk(t):
                        if isinstance(sub, ast.Attribute) and sub.attr in SHARED_FIELDS and isinstance(sub.ctx, ast.Store):
                            if fn not in ("__init__", "start_recording", "_reset_active_recording") and not lk:
                                errs.append("%s written outside the lock in %s (line %d)" % (sub.attr, fn, ch.lineno))
            if isinstance(ch, ast.Call) and isinstance(ch.func, ast.Attribute) and ch.func.attr == "_reset_active_recording":
                if not lk:
                    errs.append("_reset_active_recording called outside the lock in %s (line %d)" % (fn, ch.lineno))
            walk(ch, fn, lk)

    for fnode in cls[0].body:
        if isinstance(fnode, (ast.FunctionDef, ast.AsyncFunctionDef)):
            walk(fnode, fnode.name, False)
            if fnode.name == "start_recording":
                # activation only: the writes in start_recording must precede the yield
                ylines = [n.lineno for n in ast.walk(fnode) if isinstance(n, (ast.Yield, ast.YieldFrom))]
                for n in ast.walk(fnode):
                    if isinstance(n, ast.Attribute) and n.attr in SHARED_FIELDS and isinstance(n.ctx, ast.Store) and \
                            ylines and n.lineno > min(ylines):
                        errs.append("%s written after the body ran in start_recording outside the lock (line %d)" %
                                    (n.attr, n.lineno))
    return ["static gate (atomic-region reduction of Recorder/Threads.v): " + e for e in errs]


def to_gallina(case, obs):
    if case.get("kind") == "probe":
        return None
    if rc.is_race(case):
        return rc.to_gallina(case, obs)
    from props import rec_common
    t = rec_common.to_gallina(case, obs)
    return None if t is None else "H (%s)" % t


def explain(case, obs):
    if rc.is_race(case):
        return rc.explain(case, obs)
    from props import rec_common
    return "explain_case (%s)" % rec_common.to_gallina(case, obs)


LAZY = ["generator", "iterator", "filelike", "lock", "generator-unbounded"]
SHAPES = ["function-no-args", "function-kwargs-only", "method-self-by-keyword", "class-op-unhashable-first",
          "class-op-no-args", "method-plain", "input-no-args", "output-kwargs-only"]


def probe_cases():
    """values and call shapes outside the model's DSL (implementation side only, see harness/impl/c04_probes.py)"""
    out = []
    for v in LAZY:
        for enabled in (True, False):
            for site in ("in", "out"):
                out.append(dict(kind="probe", probe="lazy", value=v, enabled=enabled, site=site))
    for sh in SHAPES:
        out.append(dict(kind="probe", probe="shape", shape=sh))
    # a logging hook of the service reads the recorder's public properties for every record of the recorder's logger
    k = 0
    for hook in LOG_HOOKS:
        for reads in LOG_READS:
            for action in LOG_ACTIONS:
                k += 1
                out.append(dict(kind="probe", probe="loghook", hook=hook, reads=reads, action=action,
                                level=["INFO", "DEBUG"][k % 2], term=["return", "raise"][(k // 2) % 2]))
    return out


LOG_HOOKS = ["filter", "handler", "formatter"]
LOG_READS = ["current_recording_id", "in_recording_mode", "is_recording_sample_forced", "in_playback_mode"]
LOG_ACTIONS = ["force-op", "force-body", "force-ignored", "discard", "plain"]


def _in(alias, arg, result, nxt):
    return {"k": "in", "cfg": dict(alias=alias, resolver={"kind": "none"}, cap=None, static=True, property=False, handler="none",
                                   prep_discards=False, run_missing=False, vmiss={"kind": "none"}, fallbacks={"kind": "none"}),
            "body": {"k": "ret", "e": {"lit": result}}, "args": [{"lit": arg}], "kwargs": [], "next": nxt}


def _out(alias, nxt):
    return {"k": "out", "cfg": dict(alias=alias, static=True, handler="none", fail=True, default={"t": "none"}),
            "body": {"k": "ret", "e": {"lit": {"t": "none"}}}, "args": [{"var": 0}], "kwargs": [], "next": nxt}


PLAIN_PRM = dict(rate=[1, 1], ignore=False, skipped=False, copy=False)
REPLAY_ENDINGS = ["completes", "missing-key", "function-raises", "key-creation-fails", "no-such-recording", "operation-raises",
                  "interrupted"]


def after_replay_grid():
    """deterministic core of 'the recorder was used for a replay before': operation A is recorded, replayed with every way a
    replay can end (completes / a key is missing / the playback function raises / a key cannot be built / unknown id / the
    replayed operation raises / is interrupted), caught by the caller, then operation B - same aliases, other values - runs
    LIVE with recording on or off: B must behave exactly as the undecorated code."""
    i = lambda n: {"t": "int", "v": n}      # noqa: E731
    ret = {"k": "ret", "e": {"var": 0}}
    op = lambda body: dict(cls="OpA", classlevel=False, extractor={"kind": "none"}, body=body)     # noqa: E731
    a = op(_in("load", i(1), i(5), _out("send", ret)))
    pfs = {"completes": {"kind": "op", "op": rd.clean(a)},
           "missing-key": {"kind": "op", "op": op(_in("load", i(2), i(5), _out("send", ret)))},
           "function-raises": {"kind": "raises", "ty": "ValueError"},
           "key-creation-fails": {"kind": "op", "op": op(_in("load", {"t": "unser", "v": 0}, i(5), ret))},
           "no-such-recording": {"kind": "op", "op": rd.clean(a)},
           "operation-raises": {"kind": "op", "op": op(_in("load", i(1), i(5), {"k": "raise", "ty": "KeyError"}))},
           "interrupted": {"kind": "op", "op": op(_in("load", i(1), i(5), {"k": "interrupt"}))}}
    for ending in REPLAY_ENDINGS:
        for live in (True, False):
            for b_body in (_in("load", i(1), i(7), _out("send", ret)), _in("load", i(3), i(7), {"k": "raise", "ty": "KeyError"}),
                           _out("send", {"k": "ret", "e": {"lit": i(2)}})):
                if b_body["k"] == "out":
                    b_body = dict(b_body, args=[{"lit": i(9)}])
                runs = [dict(kind="record", enabled=True, prm=dict(PLAIN_PRM), op=rd.clean(a), save_fails=False),
                        dict(kind="play", target=7 if ending == "no-such-recording" else 0, pf=rd.clean(pfs[ending]),
                             enabled=live),
                        dict(kind="record", enabled=live, prm=dict(PLAIN_PRM), op=op(rd.clean(b_body)), save_fails=False)]
                yield dict(interrupt_kind="keyboard", draws=[], runs=runs, cassette="memory", stream="after-replay-grid",
                           replay_ending=ending)


def after_replay_history(rng):
    """random histories of the same region: recorded operations, replays of them on the same / another program / a raising
    playback function (the caller survives whatever play() raises), then live operations again"""
    wq = dict(W, fault=0.1, unser=0.03, discard=0.2, interrupt=0.05, raise_=0.15, enable=0.1)
    runs = [dict(kind="record", enabled=True, prm=dict(PLAIN_PRM), op=rd.rand_opdef(rng, wq, budget=rng.choice([4, 8])),
                 save_fails=False)]
    for _ in range(rng.choice([1, 1, 2])):
        r = rng.random()
        if r < 0.25:
            pf = {"kind": "op", "op": rd.clean(runs[0]["op"])}
        elif r < 0.8:
            pf = {"kind": "op", "op": rd.rand_opdef(rng, W, budget=8)}       # another program: keys missing / not buildable
        else:
            pf = {"kind": "raises", "ty": rng.choice(rd.EXC_TYPES)}
        runs.append(dict(kind="play", target=0 if rng.random() < 0.9 else 3, pf=pf, enabled=rng.random() < 0.6))
    for _ in range(rng.choice([1, 2])):
        runs.append(dict(kind="record", enabled=rng.random() < 0.85, prm=rd.rand_prm(rng),
                         op=rd.rand_opdef(rng, W, budget=rng.choice([6, 10])), save_fails=rng.random() < 0.1))
    return dict(interrupt_kind=rng.choice(INTERRUPT_KINDS), draws=rd.rand_draws(rng), runs=runs, cassette="memory",
                stream="after-replay")


def generate(rng, tier):
    cases = probe_cases() + rc.race_cases(rng, tier)
    fork = __import__("random").Random()
    fork.setstate(rng.getstate())       # (a copy of the stream: the histories below stay what they were)
    cases += list(after_replay_grid())
    for _ in range(60 if tier == "quick" else 800):
        cases.append(after_replay_history(fork))
    n = 260 if tier == "quick" else 4000
    for i in range(n):
        runs = []
        for _ in range(rng.choice([1, 1, 2])):
            runs.append(dict(kind="record", enabled=rng.random() < 0.9, prm=rd.rand_prm(rng),
                             op=rd.rand_opdef(rng, W, budget=rng.choice([6, 10, 16])), save_fails=rng.random() < 0.15,
                             in_handler=rng.random() < 0.15))
        cases.append(dict(interrupt_kind=rng.choice(INTERRUPT_KINDS), draws=rd.rand_draws(rng), runs=runs, cassette="memory"))
    return cases


def direct(case, obs):
    if "driver_exception" in obs:
        return [("driver", obs["driver_exception"] + obs.get("trace", "")[-400:])]
    if case.get("kind") == "probe":
        fails = []
        if case["probe"] == "lazy":
            who = "an intercepted %s returning a %s, recording %s" % (
                {"in": "input", "out": "output"}[case["site"]], case["value"], "enabled" if case["enabled"] else "disabled")
            if obs["outcome"] != ["val", True]:
                fails.append(("outcome-differs", "%s: the operation ended with %s instead of returning" % (who, obs["outcome"])))
            elif not obs["same_object"]:
                fails.append(("identity", "%s: the caller received a different object than the wrapped function returned" % who))
            elif not obs["untouched"] or obs["runaway"]:
                fails.append(("lazy-value-consumed", "%s: the returned object was advanced / consumed by the recorder" % who))
            if obs["bodies"] != 1:
                fails.append(("trace-differs", "%s: the wrapped body ran %d times" % (who, obs["bodies"])))
        elif case["probe"] == "loghook":
            who = ("a logging %s that reads tape_recorder.%s for every record (recorder's logger at %s), operation action '%s'" %
                   (case["hook"], case["reads"], case["level"], case["action"]))
            if obs["hung"]:
                fails.append(("operation-hangs", "%s: the decorated operation did not end within the watchdog time (the "
                              "undecorated one gives %s)" % (who, obs["twin"])))
            elif not obs["same_outcome"]:
                fails.append(("outcome-differs", "%s: undecorated %s, decorated %s" % (who, obs["twin"], obs["decorated"])))
            elif not obs["same_bodies"]:
                fails.append(("trace-differs", "%s: the wrapped bodies were not executed as by the undecorated call" % who))
        else:
            who = "recording disabled, call shape %s" % case["shape"]
            if not obs["same_outcome"]:
                fails.append(("outcome-differs", "%s: undecorated %s, decorated %s" % (who, obs["twin"], obs["decorated"])))
            elif not obs["same_bodies"]:
                fails.append(("trace-differs", "%s: the wrapped body was not executed as by the undecorated call" % who))
            if obs["cassette"]:
                fails.append(("cassette-touched-while-disabled", "%s: %s" % (who, obs["cassette"])))
        return fails
    if rc.is_race(case):
        return rc.direct_leaks(case, obs)
    fails = []
    for i, (run, ob) in enumerate(zip(case["runs"], obs["runs"])):
        if run["kind"] != "record":
            continue
        o, tr = rd.twin_run(run["op"]["body"])
        if rd.canon_outcome(ob["outcome"]) != o:
            fails.append(("outcome-differs", "run %d: the decorated operation gave %s, the undecorated twin %s" %
                          (i, ob["outcome"], o)))
        elif rd.canon_trace(ob["trace"]) != rd.canon_trace(tr):
            fails.append(("trace-differs", "run %d: wrapped bodies / intercepted calls differ from the undecorated twin "
                          "(%d vs %d trace events)" % (i, len(ob["trace"]), len(tr))))
        if ob["identity_violations"]:
            fails.append(("identity", "run %d: a caller received a different object than the wrapped body returned" % i))
        if (not run["enabled"] or run["prm"]["skipped"]) and ob["cass"]:
            fails.append(("cassette-touched-while-disabled", "run %d: %s" % (i, [c["c"] for c in ob["cass"]])))
    return fails


_hist_features, _hist_nontrivial = features, nontrivial     # (from rec_common)


def features(case):      # noqa: F811
    if case.get("kind") == "probe":
        if case["probe"] == "loghook":
            return {"probe:loghook", "loghook:" + case["hook"], "loghook-reads:" + case["reads"], "loghook-action:" + case["action"],
                    "loghook-level:" + case["level"]}
        return {"probe:" + case["probe"], "probe-" + case["probe"] + ":" + (case.get("value") or case.get("shape"))}
    if rc.is_race(case):
        return rc.features(case)
    fs = _hist_features(case)
    if case.get("stream"):
        fs.add("stream:" + case["stream"])
    if case.get("replay_ending"):
        fs.add("live-operation-after-a-replay-that:" + case["replay_ending"])
    kinds = [r["kind"] for r in case["runs"]]
    if "play" in kinds and "record" in kinds[kinds.index("play"):]:
        fs.add("live-operation-after-a-replay")
    return fs


def nontrivial(case):    # noqa: F811
    return True if case.get("kind") in ("race", "probe") else _hist_nontrivial(case)


def shrink_candidates(case):     # noqa: F811
    if case.get("kind") in ("race", "probe"):
        return
    from props import rec_common
    for c in rec_common.shrink_candidates(case):
        yield c


MANIFEST = dict(
    design_ref="6/C04",
    text="Coq theorems by structural induction over an inductive program syntax (inputs, outputs, nesting, try/except, "
         "discard, forced sampling, enable/disable, record_data/play_data) with fault placement encoded in the syntax "
         "(failing resolvers / handlers / fallbacks, handler-issued discards, unserializable values), for EVERY recorder "
         "state: the decorators while recording deliver the undecorated twin's outcome and execute every wrapped body "
         "exactly as the twin (rec_transparent), also through the operation decorator, recording scope, sampling, "
         "extractor and failing save (record_run_transparent); disabled/skipped => cassette untouched. The model "
         "(rec_exec/record_run, hand-written from tape_recorder.py) is tied to /repo on every run by executing random "
         "fault-laden programs on a real TapeRecorder built from the same DSL terms and comparing outcome + trace with "
         "vm_compute; the direct predicate compares the real run with a harness-side undecorated twin (outcome, exactly-once "
         "trace, object identity, cassette untouched when disabled), also for operations that run live after the recorder "
         "was used for replays that completed or failed in every way play() can fail. Racing threads: a second model (Recorder/Threads.v) of the "
         "recorder methods that touch the active recording as sequences of accesses to the shared fields, run by any number "
         "of threads under any schedule; Owicki-Gries invariants (finite checks by vm_compute lifted by forallb_forall, then "
         "induction over the schedule) prove that in the repaired code no method ever fails on a vanished recording and the "
         "fields stay consistent (C04_no_leak_under_any_interleaving), and exhibit the failing schedules of the code before "
         "/repo 359c201 (C04_legacy_refuted). Tied to /repo by preempting the REAL methods deterministically before every "
         "shared access (race_driver.py: 2 threads exhaustively, 3 threads nested; 350 + up to 11k cases) and comparing "
         "leaked exceptions, field values and hand-overs; a static ast gate checks that the fields are written only under "
         "the lock.",
    note="Partial: threads are modelled at the granularity of accesses to the recorder's three shared fields; preemption "
         "inside the cassette, inside a recording object or inside CPython itself is runtime behaviour the model does not "
         "exhibit, and the program-level theorems are about one thread. A region under self._finalization_lock is one "
         "model step (trusted reduction, source-gated). The harness-side twin and identity check are trusted. Trusted: Coq "
         "kernel + vm_compute, hand-written models, correspondence harness (recorder_driver.py builds real decorated "
         "classes; race_driver.py turns the shared fields into properties).",
    technique="Coq proof (structural induction over program syntax, all recorder states; Owicki-Gries invariant over all "
              "schedules for racing threads) + differential correspondence by vm_compute + undecorated-twin differential "
              "run + deterministic preemption of the real methods")
