"""C04 - recording is transparent to the recorded service."""
from lib import recdsl as rd
from props.rec_common import *  # noqa: F401,F403
from props import race_common as rc

ID = "C04"
LOG_LEVEL_INVARIANT = True      # (harness/vp.py: a sample of the cases again with logging at DEBUG; same observables)
RUN_MODULE = "RunC04"
RULE = ("one case = a history of 1-2 recorded operations on one real TapeRecorder; programs from the recorder DSL with "
        "every tolerated fault kind placed at random steps, singly and in combination (key cannot be built: failing "
        "resolver / unserializable argument / capture index out of range / failing fallback function; failing input and "
        "output data handlers; a data handler that discards; unserializable values so that copy and save fail; failing or "
        "junk metadata extractors; storage failing on save; discard / forced sampling / enable / disable from the operation "
        "and from intercepted bodies; sampling rates); non-trivial = at least one interception; distinct = distinct history")
ASSUMPTIONS = ["threads: the recorder methods that touch the active recording are modelled as sequences of accesses to the "
               "three shared fields (Recorder/Threads.v), preemption possible between any two accesses, any number of "
               "threads, any schedule; a region under self._finalization_lock counts as one step (static gate on the "
               "source); preemption INSIDE a single attribute access or inside the cassette is not modelled; the "
               "program-level theorems (rec_exec) are about one thread",
               "object identity of returned values is checked by the harness only (values are immutable trees in the model)"]
TRUSTED = ["harness-side undecorated twin interpreter (lib/recdsl.twin_run) used by the direct predicate"]
THEOREMS = ["C04_recording_transparent", "C04_operation_transparent", "C04_disabled_passthrough",
            "C04_no_leak_under_any_interleaving", "C04_legacy_refuted"]

INTERRUPT_KINDS = ["custom", "keyboard", "sysexit", "genexit"]   # which BaseException an "interrupt" of the program is
W = dict(rd.DEFAULT_W, fault=0.3, unser=0.08, handler=0.4, discard=0.9, force=0.6, enable=0.5, prep_discards=0.12,
         interrupt=0.08, raise_=0.25, playdata=0.2)


SHARED_FIELDS = ("_active_recording", "_active_recording_parameters", "_force_sample")


def static_gate(repo):
    """The racing-threads model treats a region under self._finalization_lock as ONE atomic step and assumes that, once a
    recording is active, the three shared fields are written only inside such regions.  That reduction is not something
    the run-time comparison can see, so it is checked on the source (ast): every assignment to the three fields lies in
    __init__, in start_recording (activation, before the body runs), inside a `with self._finalization_lock` block, or in
    _reset_active_recording - which in turn is only called inside such a block.  Only applies to the repaired code (the
    lock exists); the legacy code is modelled access by access."""
    import ast
    import os
    src = open(os.path.join(repo, "playback", "tape_recorder.py")).read()
    tree = ast.parse(src)
    cls = [n for n in tree.body if isinstance(n, ast.ClassDef) and n.name == "TapeRecorder"]
    if not cls:
        return ["class TapeRecorder not found in playback/tape_recorder.py"]
    if "_finalization_lock" not in src:
        return []
    errs = []

    def is_lock_with(node):
        return isinstance(node, ast.With) and any(
            isinstance(it.context_expr, ast.Attribute) and it.context_expr.attr == "_finalization_lock"
            for it in node.items)

    def walk(node, fn, locked):
        for ch in ast.iter_child_nodes(node):
            lk = locked or is_lock_with(node)
            if isinstance(ch, (ast.Assign, ast.AugAssign, ast.AnnAssign)):
                targets = ch.targets if isinstance(ch, ast.Assign) else [ch.target]
                for t in targets:
                    for sub in ast.walk(t):
                        if isinstance(sub, ast.Attribute) and sub.attr in SHARED_FIELDS and isinstance(sub.ctx, ast.Store):
                            if fn not in ("__init__", "start_recording", "_reset_active_recording") and not lk:
                                errs.append("%s written outside the lock in %s (line %d)" % (sub.attr, fn, ch.lineno))
            if isinstance(ch, ast.Call) and isinstance(ch.func, ast.Attribute) and ch.func.attr == "_reset_active_recording":
                if not lk:
                    errs.append("_reset_active_recording called outside the lock in %s (line %d)" % (fn, ch.lineno))
            walk(ch, fn, lk)

    for fnode in cls[0].body:
        if isinstance(fnode, (ast.FunctionDef, ast.AsyncFunctionDef)):
            walk(fnode, fnode.name, False)
            if fnode.name == "start_recording":
                # activation only: the writes in start_recording must precede the yield
                ylines = [n.lineno for n in ast.walk(fnode) if isinstance(n, (ast.Yield, ast.YieldFrom))]
                for n in ast.walk(fnode):
                    if isinstance(n, ast.Attribute) and n.attr in SHARED_FIELDS and isinstance(n.ctx, ast.Store) and \
                            ylines and n.lineno > min(ylines):
                        errs.append("%s written after the body ran in start_recording outside the lock (line %d)" %
                                    (n.attr, n.lineno))
    return ["static gate (atomic-region reduction of Recorder/Threads.v): " + e for e in errs]


def to_gallina(case, obs):
    if case.get("kind") == "probe":
        return None
    if rc.is_race(case):
        return rc.to_gallina(case, obs)
    from props import rec_common
    t = rec_common.to_gallina(case, obs)
    return None if t is None else "H (%s)" % t


def explain(case, obs):
    if rc.is_race(case):
        return rc.explain(case, obs)
    from props import rec_common
    return "explain_case (%s)" % rec_common.to_gallina(case, obs)


LAZY = ["generator", "iterator", "filelike", "lock", "generator-unbounded"]
SHAPES = ["function-no-args", "function-kwargs-only", "method-self-by-keyword", "class-op-unhashable-first",
          "class-op-no-args", "method-plain", "input-no-args", "output-kwargs-only"]


def probe_cases():
    """values and call shapes outside the model's DSL (implementation side only, see harness/impl/c04_probes.py)"""
    out = []
    for v in LAZY:
        for enabled in (True, False):
            for site in ("in", "out"):
                out.append(dict(kind="probe", probe="lazy", value=v, enabled=enabled, site=site))
    for sh in SHAPES:
        out.append(dict(kind="probe", probe="shape", shape=sh))
    return out


def generate(rng, tier):
    cases = probe_cases() + rc.race_cases(rng, tier)
    n = 260 if tier == "quick" else 4000
    for i in range(n):
        runs = []
        for _ in range(rng.choice([1, 1, 2])):
            runs.append(dict(kind="record", enabled=rng.random() < 0.9, prm=rd.rand_prm(rng),
                             op=rd.rand_opdef(rng, W, budget=rng.choice([6, 10, 16])), save_fails=rng.random() < 0.15,
                             in_handler=rng.random() < 0.15))
        cases.append(dict(interrupt_kind=rng.choice(INTERRUPT_KINDS), draws=rd.rand_draws(rng), runs=runs, cassette="memory"))
    return cases


def direct(case, obs):
    if "driver_exception" in obs:
        return [("driver", obs["driver_exception"] + obs.get("trace", "")[-400:])]
    if case.get("kind") == "probe":
        fails = []
        if case["probe"] == "lazy":
            who = "an intercepted %s returning a %s, recording %s" % (
                {"in": "input", "out": "output"}[case["site"]], case["value"], "enabled" if case["enabled"] else "disabled")
            if obs["outcome"] != ["val", True]:
                fails.append(("outcome-differs", "%s: the operation ended with %s instead of returning" % (who, obs["outcome"])))
            elif not obs["same_object"]:
                fails.append(("identity", "%s: the caller received a different object than the wrapped function returned" % who))
            elif not obs["untouched"] or obs["runaway"]:
                fails.append(("lazy-value-consumed", "%s: the returned object was advanced / consumed by the recorder" % who))
            if obs["bodies"] != 1:
                fails.append(("trace-differs", "%s: the wrapped body ran %d times" % (who, obs["bodies"])))
        else:
            who = "recording disabled, call shape %s" % case["shape"]
            if not obs["same_outcome"]:
                fails.append(("outcome-differs", "%s: undecorated %s, decorated %s" % (who, obs["twin"], obs["decorated"])))
            elif not obs["same_bodies"]:
                fails.append(("trace-differs", "%s: the wrapped body was not executed as by the undecorated call" % who))
            if obs["cassette"]:
                fails.append(("cassette-touched-while-disabled", "%s: %s" % (who, obs["cassette"])))
        return fails
    if rc.is_race(case):
        return rc.direct_leaks(case, obs)
    fails = []
    for i, (run, ob) in enumerate(zip(case["runs"], obs["runs"])):
        if run["kind"] != "record":
            continue
        o, tr = rd.twin_run(run["op"]["body"])
        if rd.canon_outcome(ob["outcome"]) != o:
            fails.append(("outcome-differs", "run %d: the decorated operation gave %s, the undecorated twin %s" %
                          (i, ob["outcome"], o)))
        elif rd.canon_trace(ob["trace"]) != rd.canon_trace(tr):
            fails.append(("trace-differs", "run %d: wrapped bodies / intercepted calls differ from the undecorated twin "
                          "(%d vs %d trace events)" % (i, len(ob["trace"]), len(tr))))
        if ob["identity_violations"]:
            fails.append(("identity", "run %d: a caller received a different object than the wrapped body returned" % i))
        if (not run["enabled"] or run["prm"]["skipped"]) and ob["cass"]:
            fails.append(("cassette-touched-while-disabled", "run %d: %s" % (i, [c["c"] for c in ob["cass"]])))
    return fails


_hist_features, _hist_nontrivial = features, nontrivial     # (from rec_common)


def features(case):      # noqa: F811
    if case.get("kind") == "probe":
        return {"probe:" + case["probe"], "probe-" + case["probe"] + ":" + (case.get("value") or case.get("shape"))}
    if rc.is_race(case):
        return rc.features(case)
    return _hist_features(case)


def nontrivial(case):    # noqa: F811
    return True if case.get("kind") in ("race", "probe") else _hist_nontrivial(case)


def shrink_candidates(case):     # noqa: F811
    if case.get("kind") in ("race", "probe"):
        return
    from props import rec_common
    for c in rec_common.shrink_candidates(case):
        yield c


MANIFEST = dict(
    design_ref="6/C04",
    text="Coq theorems by structural induction over an inductive program syntax (inputs, outputs, nesting, try/except, "
         "discard, forced sampling, enable/disable, record_data/play_data) with fault placement encoded in the syntax "
         "(failing resolvers / handlers / fallbacks, handler-issued discards, unserializable values), for EVERY recorder "
         "state: the decorators while recording deliver the undecorated twin's outcome and execute every wrapped body "
         "exactly as the twin (rec_transparent), also through the operation decorator, recording scope, sampling, "
         "extractor and failing save (record_run_transparent); disabled/skipped => cassette untouched. The model "
         "(rec_exec/record_run, hand-written from tape_recorder.py) is tied to /repo on every run by executing random "
         "fault-laden programs on a real TapeRecorder built from the same DSL terms and comparing outcome + trace with "
         "vm_compute; the direct predicate compares the real run with a harness-side undecorated twin (outcome, exactly-once "
         "trace, object identity, cassette untouched when disabled). Racing threads: a second model (Recorder/Threads.v) of the "
         "recorder methods that touch the active recording as sequences of accesses to the shared fields, run by any number "
         "of threads under any schedule; Owicki-Gries invariants (finite checks by vm_compute lifted by forallb_forall, then "
         "induction over the schedule) prove that in the repaired code no method ever fails on a vanished recording and the "
         "fields stay consistent (C04_no_leak_under_any_interleaving), and exhibit the failing schedules of the code before "
         "/repo 359c201 (C04_legacy_refuted). Tied to /repo by preempting the REAL methods deterministically before every "
         "shared access (race_driver.py: 2 threads exhaustively, 3 threads nested; 350 + up to 11k cases) and comparing "
         "leaked exceptions, field values and hand-overs; a static ast gate checks that the fields are written only under "
         "the lock.",
    note="Partial: threads are modelled at the granularity of accesses to the recorder's three shared fields; preemption "
         "inside the cassette, inside a recording object or inside CPython itself is runtime behaviour the model does not "
         "exhibit, and the program-level theorems are about one thread. A region under self._finalization_lock is one "
         "model step (trusted reduction, source-gated). The harness-side twin and identity check are trusted. Trusted: Coq "
         "kernel + vm_compute, hand-written models, correspondence harness (recorder_driver.py builds real decorated "
         "classes; race_driver.py turns the shared fields into properties).",
    technique="Coq proof (structural induction over program syntax, all recorder states; Owicki-Gries invariant over all "
              "schedules for racing threads) + differential correspondence by vm_compute + undecorated-twin differential "
              "run + deterministic preemption of the real methods")
