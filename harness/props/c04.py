"""C04 - recording is transparent to the recorded service."""
from lib import recdsl as rd
from props.rec_common import *  # noqa: F401,F403

ID = "C04"
RUN_MODULE = "RunC04"
RULE = ("one case = a history of 1-2 recorded operations on one real TapeRecorder; programs from the recorder DSL with "
        "every tolerated fault kind placed at random steps, singly and in combination (key cannot be built: failing "
        "resolver / unserializable argument / capture index out of range / failing fallback function; failing input and "
        "output data handlers; a data handler that discards; unserializable values so that copy and save fail; failing or "
        "junk metadata extractors; storage failing on save; discard / forced sampling / enable / disable from the operation "
        "and from intercepted bodies; sampling rates); non-trivial = at least one interception; distinct = distinct history")
ASSUMPTIONS = ["single-threaded operations: interleavings of worker threads inside an operation are not modelled "
               "(bytecode-level preemption is runtime behaviour no Gallina function exhibits)",
               "object identity of returned values is checked by the harness only (values are immutable trees in the model)"]
TRUSTED = ["harness-side undecorated twin interpreter (lib/recdsl.twin_run) used by the direct predicate"]
THEOREMS = ["C04_recording_transparent", "C04_operation_transparent", "C04_disabled_passthrough"]

W = dict(rd.DEFAULT_W, fault=0.3, unser=0.08, handler=0.4, discard=0.9, force=0.6, enable=0.5, prep_discards=0.12,
         interrupt=0.08, raise_=0.25, playdata=0.2)


def generate(rng, tier):
    cases = []
    n = 260 if tier == "quick" else 4000
    for i in range(n):
        runs = []
        for _ in range(rng.choice([1, 1, 2])):
            runs.append(dict(kind="record", enabled=rng.random() < 0.9, prm=rd.rand_prm(rng),
                             op=rd.rand_opdef(rng, W, budget=rng.choice([6, 10, 16])), save_fails=rng.random() < 0.15,
                             in_handler=rng.random() < 0.15))
        cases.append(dict(draws=rd.rand_draws(rng), runs=runs, cassette="memory"))
    return cases


def direct(case, obs):
    if "driver_exception" in obs:
        return [("driver", obs["driver_exception"] + obs.get("trace", "")[-400:])]
    fails = []
    for i, (run, ob) in enumerate(zip(case["runs"], obs["runs"])):
        if run["kind"] != "record":
            continue
        o, tr = rd.twin_run(run["op"]["body"])
        if rd.canon_outcome(ob["outcome"]) != o:
            fails.append(("outcome-differs", "run %d: the decorated operation gave %s, the undecorated twin %s" %
                          (i, ob["outcome"], o)))
        elif rd.canon_trace(ob["trace"]) != rd.canon_trace(tr):
            fails.append(("trace-differs", "run %d: wrapped bodies / intercepted calls differ from the undecorated twin "
                          "(%d vs %d trace events)" % (i, len(ob["trace"]), len(tr))))
        if ob["identity_violations"]:
            fails.append(("identity", "run %d: a caller received a different object than the wrapped body returned" % i))
        if (not run["enabled"] or run["prm"]["skipped"]) and ob["cass"]:
            fails.append(("cassette-touched-while-disabled", "run %d: %s" % (i, [c["c"] for c in ob["cass"]])))
    return fails


MANIFEST = dict(
    design_ref="6/C04",
    text="Coq theorems by structural induction over an inductive program syntax (inputs, outputs, nesting, try/except, "
         "discard, forced sampling, enable/disable, record_data/play_data) with fault placement encoded in the syntax "
         "(failing resolvers / handlers / fallbacks, handler-issued discards, unserializable values), for EVERY recorder "
         "state: the decorators while recording deliver the undecorated twin's outcome and execute every wrapped body "
         "exactly as the twin (rec_transparent), also through the operation decorator, recording scope, sampling, "
         "extractor and failing save (record_run_transparent); disabled/skipped => cassette untouched. The model "
         "(rec_exec/record_run, hand-written from tape_recorder.py) is tied to /repo on every run by executing random "
         "fault-laden programs on a real TapeRecorder built from the same DSL terms and comparing outcome + trace with "
         "vm_compute; the direct predicate compares the real run with a harness-side undecorated twin (outcome, exactly-once "
         "trace, object identity, cassette untouched when disabled).",
    note="Partial: thread interleavings inside an operation are not modelled (single-threaded programs only); the "
         "harness-side twin and identity check are trusted. Trusted: Coq kernel + vm_compute, hand-written model, "
         "correspondence harness (recorder_driver.py builds real decorated classes).",
    technique="Coq proof (structural induction over program syntax, all recorder states) + differential correspondence "
              "by vm_compute + undecorated-twin differential run")
