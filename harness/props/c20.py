"""C20 - file interception preserves file bytes and honours the size limit."""
import base64
import binascii
import bz2
import gzip
import io
import itertools
import json
import lzma
import pickle
import quopri
import re
import zipfile
import zlib
from fractions import Fraction

from lib import filespec
from lib.filespec import PLACEHOLDER, size_of, expand, same_bytes
from lib.gallina import gZ, gbool, gstr, gbytes, glist, gopt, gQ

ID = "C20"
LOG_LEVEL_INVARIANT = True      # (harness/vp.py: a sample of the cases again with logging at DEBUG; same observables)
RUN_MODULE = "RunC20"
DRIVER = "files_driver.py"
SHARD = 120
MB = 1 << 20
RULE = ("one case = one end-to-end trip (input + output file handler, record -> save on one of the three cassettes -> "
        "fetch -> replay at different paths, the replayed path possibly holding a file already, the case running in a "
        "scratch current directory with recorded / replayed / holder.to_file paths given as absolute paths, bare file "
        "names, './name', 'sub/name', 'sub/../name', or naming an absent directory; contents include files "
        "that are themselves complete encodings: zlib / gzip / raw deflate / bz2 / xz / zip blobs, base64 / base32 / "
        "hex / quoted-printable texts, json envelopes, pickles, byte-order marks), one sequence (several "
        "recordings replayed one after another / twice into the same path; recordings made one after another of ONE "
        "recorded path whose file is rewritten in between), one history (one operation handing one path to the input "
        "and output file handlers 2-5 times, the file rewritten between interceptions with other bytes of the same / "
        "another length, modification time left to the clock / set to a fixed stamp / put back, in place or through "
        "os.replace) or one unit evaluation (_serialize/_deserialize_file, "
        "_is_file_above_size_limit on a file of a given size, _get_file_path); non-trivial = a trip, or a limit "
        "evaluation within one byte of the limit, or a non-empty base64 content, or a path lookup with keywords; "
        "distinct = distinct case descriptions")
ASSUMPTIONS = ["file sizes below 2^53 bytes and a finite limit, so that Python's float comparison size/2^20 > limit is the "
               "exact rational comparison of the model (exercised up to 2^53-1 through a substituted os.path.getsize)",
               "the file does not change between os.path.getsize and read (the theorems do not need it: what was read is "
               "what is restored); it may change freely BETWEEN two interceptions, whatever its size and timestamps",
               "jsonpickle's coding of bytes inside the stored JSON is invertible (oracle qp/qp_dec of model A; exercised "
               "end to end on every run through the three real cassettes)",
               "the replayed path can be opened for writing (its directory exists - in whichever form the path is "
               "written: absolute, relative to the current directory, a bare file name)"]
TRUSTED = ["journalling wrapper around builtins.open / io.open (reads through other OS interfaces are not seen; files are "
           "identified by os.path.abspath of the name given to open)",
           "fake bucket behind the real S3BasicFacade; scratch files under /tmp/files-scratch-<pid>"]
THEOREMS = ["C20_file_roundtrip", "C20_limit_honoured", "C20_b64_roundtrip", "C20_b64_alphabet", "C20_history_input",
            "C20_history_output"]

# ---------------------------------------------------------------------------------------------- limits


def lim_explicit_bytes(nbytes):
    """an explicit float limit worth exactly nbytes bytes (nbytes / 2^20 MB is dyadic, hence exactly a float)"""
    fr = Fraction(nbytes, MB)
    return {"explicit": [fr.numerator, fr.denominator], "type": "float", "env": None}


def lim_float(x):
    fr = Fraction(float(x))
    return {"explicit": [fr.numerator, fr.denominator], "type": "float", "env": None}


def lim_int(m):
    return {"explicit": [m, 1], "type": "int", "env": None}


def lim_env(text):
    return {"explicit": None, "type": None, "env": text}


LIM_DEFAULT = {"explicit": None, "type": None, "env": None}


def documented_limit(lim):
    """The limit in MB the documentation promises (None: construction is expected to fail)."""
    if lim["explicit"] is not None:
        return Fraction(lim["explicit"][0], lim["explicit"][1])
    text = "500" if lim.get("env") is None else lim["env"]
    try:
        return Fraction(int(float(text)))
    except (ValueError, OverflowError):
        return None


def is_above_documented(size, lim):
    return Fraction(size) > documented_limit(lim) * MB


def g_env(lim):
    if lim.get("env") is None:
        return "EnvUnset"
    try:
        return "(EnvFloat %s)" % gQ(Fraction(float(lim["env"])))
    except (ValueError, OverflowError):
        return "EnvJunk"


def g_explicit(lim):
    return gopt(None if lim["explicit"] is None else gQ(Fraction(lim["explicit"][0], lim["explicit"][1])))


# ---------------------------------------------------------------------------------------------- contents
def hexspec(b):
    return {"hex": bytes(b).hex()}


def content_catalogue(rng, extra_random=0):
    ph = PLACEHOLDER
    cat = [
        ("empty", hexspec(b"")),
        ("all256", hexspec(bytes(range(256)))),
        ("newlines", hexspec(b"line1\nline2\r\nline3\rend\n\n\r\n")),
        ("crlf", hexspec(b"a\r\nb\r\n\r\n")),
        ("placeholder", hexspec(ph)),
        ("placeholder-1", hexspec(ph[:-1])),
        ("placeholder+nl", hexspec(ph + b"\n")),
        ("placeholder-case", hexspec(ph.replace(b"limit", b"Limit"))),
        ("placeholder-underscore", hexspec(ph.replace(b" ", b"_"))),
        ("placeholder-lastchar", hexspec(ph[:-1] + b"u")),
        ("placeholder-b64", hexspec(base64.b64encode(ph))),
        ("qp-stress", hexspec(b"=3D =\r\n trailing \t\n.\n" + b"x" * 90 + b" \n=")),
        ("ff00", hexspec(b"\xff" * 5 + b"\x00" * 5)),
        ("utf8", hexspec(u"héllo ✓ \U0001F600\n".encode("utf-8"))),
        ("one", hexspec(b"\x80")),
        ("two", hexspec(b"\x00\xff")),
        ("three", hexspec(b"\xfb\xef\xbe")),      # base64 '++++'
        ("slashes", hexspec(b"\xff\xff\xff\xff")),   # base64 '/////w=='
    ]
    for n in (4, 5, 57, 76, 77, 100, 255, 1000, 3001):
        cat.append(("random-%d" % n, {"sha": rng.randrange(1 << 30), "n": n}))
    for _ in range(extra_random):
        n = rng.choice([rng.randrange(0, 40), rng.randrange(40, 400), rng.randrange(400, 2500)])
        cat.append(("random-%d" % n, {"sha": rng.randrange(1 << 30), "n": n}))
    return cat


def encoded_catalogue(rng):
    """Contents that are themselves complete, valid encodings in a self-describing format - what a decoder that goes
    by the bytes alone (magic number, checksum, alphabet) would recognise: deflated / archived blobs, transfer
    encodings, serialised envelopes.  The handlers carry bytes; whatever the bytes spell, they come back as they were.
    All derived from three payloads: a csv text, random binary, a short line."""
    regions = [b"north", b"south", b"east", b"west"]
    text = b"id,region,value\n" + b"".join(b"%d,%s,%d\n" % (i, rng.choice(regions), rng.randrange(10 ** 6))
                                            for i in range(rng.randrange(40, 70)))
    binary = expand({"sha": rng.randrange(1 << 30), "n": rng.randrange(500, 900)})
    line = b"hello world\n"
    z = zlib.compress(text)

    def deflate(payload, level, wbits):
        co = zlib.compressobj(level, zlib.DEFLATED, wbits)
        return co.compress(payload) + co.flush()

    def zipped(payload):
        buf = io.BytesIO()
        with zipfile.ZipFile(buf, "w", zipfile.ZIP_DEFLATED) as zf:
            zf.writestr(zipfile.ZipInfo("a.csv"), payload)      # ZipInfo's default date: 1980-01-01
        return buf.getvalue()
    b64 = base64.b64encode
    cat = [("zlib%d:text" % lv, zlib.compress(text, lv)) for lv in (0, 1, 6, 9)]
    cat += [
        ("zlib:binary", zlib.compress(binary, 9)), ("zlib:line", zlib.compress(line)), ("zlib:empty", zlib.compress(b"")),
        ("zlib:placeholder", zlib.compress(PLACEHOLDER)), ("zlib:zlib", zlib.compress(z)),
        ("zlib:window512", deflate(text, 6, 9)), ("zlib+trailing", z + b"\n"), ("zlib-truncated", z[:-3]),
        ("zlib-badsum", z[:-1] + bytes([z[-1] ^ 1])), ("zlib-twice", z + z), ("deflate-raw", deflate(text, 6, -15)),
        ("gzip:text", gzip.compress(text, mtime=0)), ("gzip:empty", gzip.compress(b"", mtime=0)),
        ("gzip:zlib-made", deflate(binary, 6, 31)), ("bz2:text", bz2.compress(text)), ("xz:text", lzma.compress(text)),
        ("lzma-alone:text", lzma.compress(text, format=lzma.FORMAT_ALONE)), ("zip:text", zipped(text)),
        ("b64:text", b64(text)), ("b64:binary", b64(binary)), ("b64:b64", b64(b64(line))), ("b64:zlib", b64(z)),
        ("b64:lines", base64.encodebytes(binary)), ("b64:urlsafe", base64.urlsafe_b64encode(b"\xfb\xff\xfe" * 20)),
        ("b64:short", b"QUJD"), ("b64:nopad", b"QUJDRA"), ("b64:placeholder-nl", b64(PLACEHOLDER) + b"\n"),
        ("b32:line", base64.b32encode(line)), ("hex:binary", binascii.hexlify(binary[:200])),
        ("a85:binary", base64.a85encode(binary[:200])), ("qp:binary", quopri.encodestring(binary[:150])),
        ("percent:line", b"hello%20world%0A%00%ff"), ("data-url", b"data:application/octet-stream;base64," + b64(line)),
        ("json:text", json.dumps({"rows": [1, 2.5, None, "x"], "name": "csv"}).encode()),
        ("json:py-b64", json.dumps({"py/b64": b64(binary[:90]).decode()}).encode()),
        ("json:py-bytes", json.dumps({"py/bytes": "=00=FFab"}).encode()),
        ("json:envelope", json.dumps({"file_path": "/tmp/x", "file_content": b64(line).decode()}).encode()),
        ("json:envelope-placeholder", json.dumps({"file_path": "p", "file_content": PLACEHOLDER.decode()}).encode()),
        ("pickle2:text", pickle.dumps(text, protocol=2)), ("pickle4:dict", pickle.dumps({"a": [1, 2], "b": line}, protocol=4)),
        ("bom:utf8", u"caf\u00e9 \u2713\n".encode("utf-8-sig")), ("bom:utf16", u"caf\u00e9 \u2713\n".encode("utf-16")),
        ("bom:utf32", u"ok\n".encode("utf-32")), ("repr:bytes", repr(binary[:60]).encode()),
    ]
    return [(tag, hexspec(b)) for tag, b in cat]


IN_MODES = ["pos", "kw", "pos+kwnone", "pos+kwempty"]
EXTRA_POOL = ["extra", None, {"o": "list0"}, {"o": "list1"}, {"o": "float1"}, "", {"o": "dict0"}]


def make_side(rng, which, static, n_extras, rec_mode, play_mode, neg):
    extras = [rng.choice(EXTRA_POOL) for _ in range(n_extras)]
    base = n_extras + (1 if (which == "in" and not static) else 0)
    index = base
    if neg and rec_mode != "kw" and play_mode != "kw":
        index = -1          # the path is the last positional argument in both calls
    elif rec_mode == "kw" and play_mode == "kw" and rng.random() < 0.5:
        # the keyword wins whatever the configured position holds (self, another argument, nothing)
        index = rng.choice([0, -1, base + 2, rng.randrange(0, base + 1)])
    return {"static": static, "extras": extras, "rec": rec_mode, "play": play_mode, "index": index}


def dims_stream(rng):
    """every combination of the small dimensions, shuffled, repeated forever"""
    combos = list(itertools.product(["mem", "file", "s3"], [True, False], [True, False], IN_MODES, ["pos", "kw"],
                                    ["pos", "kw", "pos+kwnone"], ["pos", "kw"]))
    while True:
        rng.shuffle(combos)
        for c in combos:
            yield c


PRE_KINDS = ["none", "longer", "shorter", "none", "same-size", "empty", "much-longer", "identical", "none",
             "longer+stale-RI", "one-longer", "one-shorter"]
_pre_counter = [0]


def pre_state(rng, content):
    """the input files present when the replay starts (the replayed path may already hold a file)"""
    kind = PRE_KINDS[_pre_counter[0] % len(PRE_KINDS)]
    _pre_counter[0] += 1
    n = size_of(content)
    if n > filespec.INLINE_MAX:
        big = {"longer": n + 4097, "shorter": n // 2, "much-longer": 2 * n + 5, "one-longer": n + 1}.get(kind.split("+")[0])
        return (kind, {"PI": {"sha": rng.randrange(1 << 30), "n": big}}) if big is not None else ("none", None)
    sizes = {"none": None, "longer": n + rng.choice([2, 7, 100]), "shorter": n // 2, "same-size": n, "empty": 0,
             "much-longer": n + 3000, "identical": n, "longer+stale-RI": n + 13, "one-longer": n + 1,
             "one-shorter": max(0, n - 1)}
    m = sizes[kind]
    if m is None:
        return kind, None
    pre = {"PI": content if kind == "identical" else {"sha": rng.randrange(1 << 30), "n": m}}
    if kind.endswith("stale-RI"):
        pre["RI"] = {"sha": rng.randrange(1 << 30), "n": rng.choice([0, 5, n + 1])}
    return kind, pre


def trip_case(rng, dims, content, lim, out_content=None, tag="", cassette=None):
    cas, in_static, out_static, in_rec, in_play, out_rec, out_play = dims
    c = {"kind": "trip", "cassette": cassette or cas, "limit": lim, "content": content,
         "out_content": out_content if out_content is not None else content,
         "name": rng.choice(["path", "path", "file_path", "p"]),
         "dir": rng.choice(["plain", "plain", "unicode"]),
         "in": make_side(rng, "in", in_static, rng.choice([0, 0, 1, 2]), in_rec, in_play, rng.random() < 0.2),
         "out": make_side(rng, "out", out_static, rng.choice([0, 0, 1, 2]), out_rec, out_play, rng.random() < 0.2),
         "tag": tag}
    c["pre_kind"], c["pre"] = pre_state(rng, content)
    return c


def same_size_family(rng, n, k):
    """k pairwise different contents of the same length n >= 1: the first is random, the others differ from it in a
    single byte or in all of them"""
    base = bytearray(expand({"sha": rng.randrange(1 << 30), "n": n}))
    out = [bytes(base)]
    while len(out) < k:
        j = len(out)
        if n > 1 and rng.random() < 0.4:
            v = bytearray(expand({"sha": rng.randrange(1 << 30), "n": n}))
        else:
            v = bytearray(base)
            pos = rng.randrange(n)
            v[pos] = (v[pos] + j) % 256
        if bytes(v) not in out:
            out.append(bytes(v))
    return [hexspec(b) for b in out]


def hist_step(via, content, fresh, stamp):
    return {"via": via, "content": content, "fresh": fresh, "stamp": stamp}


def hist_case(rng, dims, steps, lim=None, how="inplace", pre=None, tag="", cassette=None):
    cas, in_static, out_static, in_rec, in_play, out_rec, out_play = dims
    return {"kind": "hist", "cassette": cassette or cas, "limit": lim or LIM_DEFAULT,
            "name": rng.choice(["path", "path", "file_path", "p"]), "dir": rng.choice(["plain", "plain", "unicode"]),
            "in": make_side(rng, "in", in_static, rng.choice([0, 0, 1]), in_rec, in_play, rng.random() < 0.2),
            "out": make_side(rng, "out", out_static, rng.choice([0, 0, 1]), out_rec, out_play, rng.random() < 0.2),
            "steps": steps, "how": how, "pre": pre, "tag": tag}


def generate(rng, tier):
    quick = tier != "thorough"
    _pre_counter[0] = 0
    cases = []
    dims = dims_stream(rng)
    cat = content_catalogue(rng, 0 if quick else 60)
    cassettes = ["mem", "file", "s3"]

    # 1. every catalogue content at limit-1 / limit / limit+1 bytes (explicit float limit worth size+d bytes)
    k = 0
    for tag, spec in cat:
        n = size_of(spec)
        for d in (1, 0, -1):                 # limit = n+1 (below by one), n (exactly at), n-1 (above by one)
            if n + d < 0:
                continue
            reps = cassettes if (not quick or n <= 300) else [cassettes[k % 3]]
            for cas in (reps if quick else reps * 2):
                k += 1
                cases.append(trip_case(rng, next(dims), spec, lim_explicit_bytes(n + d), tag="%s@limit%+d" % (tag, -d),
                                       cassette=cas))
    # 2. fixed small limits (bytes) x sizes limit-1, limit, limit+1 x stretched contents
    pats = [("cyc256", bytes(range(256)).hex()), ("cycph", (PLACEHOLDER + b"\n").hex()), ("cyccrlf", b"ab\r\n\n".hex())]
    for L in ((1, 3, 24, 1024, 4096) if quick else (1, 2, 3, 4, 23, 24, 25, 100, 1023, 1024, 1025, 4095, 4096)):
        for d in (-1, 0, 1):
            for pn, pat in (pats[:2] if quick else pats):
                cases.append(trip_case(rng, next(dims), {"cycle": pat, "n": L + d}, lim_explicit_bytes(L),
                                       tag="%s:%d%+d" % (pn, L, d)))
            cases.append(trip_case(rng, next(dims), {"sha": rng.randrange(1 << 30), "n": L + d}, lim_explicit_bytes(L),
                                   tag="rnd:%d%+d" % (L, d)))
    # 3. limits that are not a whole number of bytes (floats as written by a user)
    for x, sizes in ((0.001, (1048, 1049)), (0.0001, (104, 105)), (1e-05, (10, 11)), (0.01, (10485, 10486)),
                     (0.003, (3145, 3146))):
        for n in sizes:
            cases.append(trip_case(rng, next(dims), {"sha": rng.randrange(1 << 30), "n": n}, lim_float(x),
                                   tag="float%s:%d" % (x, n)))
    # 4. integer limits and the environment variable: 0 MB and negative limits are cheap boundaries
    for lim in (lim_int(0), lim_env("0"), lim_env("0.9"), lim_env("-0.5"), lim_env("1e-3"), lim_env(" 0 ")):
        for n in (0, 1, 2):
            cases.append(trip_case(rng, next(dims), {"sha": 7, "n": n}, lim, tag="zero-limit:%d" % n))
    for lim in (lim_int(-1), lim_env("-1"), lim_env("-1.5"), lim_float(-0.5)):
        for n in (0, 1):
            cases.append(trip_case(rng, next(dims), {"sha": 7, "n": n}, lim, tag="negative-limit:%d" % n))
    # 5. one-MB limits (explicit int, explicit float 1.0, environment texts): files of 2^20-1, 2^20, 2^20+1 bytes
    mb_lims = [lim_int(1), lim_env("1"), lim_env("1.9"), lim_float(1.0), lim_env("1e0"), lim_env(" 1 "), lim_env("+1.5")]
    for i, lim in enumerate(mb_lims if not quick else mb_lims[:4]):
        for d in (-1, 0, 1):
            spec = {"sha": rng.randrange(1 << 30), "n": MB + d} if (d <= 0 or i % 2 == 0) else {"zeros": 1, "n": MB + d}
            cases.append(trip_case(rng, next(dims), spec, lim, out_content={"sha": 3, "n": 10},
                                   tag="one-MB%+d" % d, cassette=cassettes[(i + d) % 3]))
    # 6. files well below / above the default 500 MB and an environment limit of 2-3 MB: multi-MB contents
    big = [(LIM_DEFAULT, MB + 1), (LIM_DEFAULT, 2 * MB + MB // 2 + 7), (lim_env("3"), 3 * MB), (lim_env("2"), 2 * MB - 5)]
    if not quick:
        big += [(LIM_DEFAULT, 5 * MB + 2), (lim_env("8"), 8 * MB), (LIM_DEFAULT, 3 * MB + 1), (lim_int(4), 4 * MB - 1)]
    for i, (lim, n) in enumerate(big):
        for cas in (cassettes if not quick else [cassettes[i % 3]]):
            cases.append(trip_case(rng, next(dims), {"sha": rng.randrange(1 << 30), "n": n}, lim,
                                   out_content={"sha": rng.randrange(1 << 30), "n": n // 2 + 1},
                                   tag="big:%d" % n, cassette=cas))
    for i, (lim, n) in enumerate([(lim_env("2"), 2 * MB + 1), (lim_int(1), 3 * MB), (lim_env("3"), 40 * MB)]):
        cases.append(trip_case(rng, next(dims), {"zeros": 1, "n": n}, lim, out_content={"zeros": 1, "n": n},
                               tag="sparse-above:%d" % n, cassette=cassettes[i % 3]))
    # 7. default limit with the small catalogue (keyword / position / cassettes are cycled by `dims`)
    for tag, spec in cat:
        for _ in range(1 if quick else 3):
            cases.append(trip_case(rng, next(dims), spec, rng.choice([LIM_DEFAULT, lim_env("500"), lim_int(500), lim_float(0.5)]),
                                   out_content=rng.choice(cat)[1], tag="default:" + tag))
    # 8. calls the handlers cannot serve (the recorder must discard; correspondence only)
    for i in range(6 if quick else 30):
        c = trip_case(rng, next(dims), rng.choice(cat)[1], LIM_DEFAULT, tag="unservable")
        side = c["in"] if i % 2 == 0 else c["out"]
        side["rec"] = side["play"] = "pos"
        side["index"] = rng.choice([7, -9, len(side["extras"]) + 3])
        c["expect"] = "discard"
        cases.append(c)
    # 9. the replayed path cannot be opened for writing (directory missing): correspondence only
    for i in range(4 if quick else 20):
        c = trip_case(rng, next(dims), rng.choice(cat)[1], LIM_DEFAULT, tag="unwritable")
        c["unwritable"] = True
        c["pre"], c["pre_kind"] = None, "none"
        c["expect"] = "unwritable"
        cases.append(c)
    # 10. several recordings replayed one after another into the same path, and replayed twice
    small = [spec for _, spec in cat if size_of(spec) <= 300]
    def seq_case(contents, order, lim, pre, tag):
        d = next(dims)
        return {"kind": "seq", "cassette": d[0], "limit": lim, "name": rng.choice(["path", "file_path"]),
                "dir": rng.choice(["plain", "plain", "unicode"]),
                "in": make_side(rng, "in", d[1], rng.choice([0, 0, 1]), d[3], d[4], rng.random() < 0.2),
                "contents": contents, "order": order, "pre": pre, "tag": tag}
    rnd = lambda n: {"sha": rng.randrange(1 << 30), "n": n}
    for rep in range(3 if quick else 25):
        shrinking = [rnd(n) for n in sorted(rng.sample(range(0, 4000), 3), reverse=True)] + [hexspec(b"")]
        cases.append(seq_case(shrinking, [0, 1, 2, 3], LIM_DEFAULT, None, "shrinking"))
        cases.append(seq_case(shrinking, [3, 2, 1, 0], LIM_DEFAULT, None, "growing"))
        cases.append(seq_case(shrinking, [0, 3, 1, 1, 0, 2, 2], LIM_DEFAULT, rnd(5000), "back-and-forth"))
        mix = [rng.choice(small) for _ in range(rng.randrange(2, 5))]
        order = [rng.randrange(len(mix)) for _ in range(rng.randrange(2, 7))]
        cases.append(seq_case(mix, order, LIM_DEFAULT, rng.choice([None, rnd(rng.randrange(0, 400))]), "catalogue-mix"))
        cases.append(seq_case([rnd(rng.randrange(1, 600))], [0, 0], LIM_DEFAULT, rng.choice([None, rnd(700)]), "twice"))
        # with a limit: an above-limit recording (placeholder, 24 bytes) after / before real contents
        L = rng.choice([30, 100, 1000])
        with_ph = [rnd(L), rnd(L + 1), rnd(L - 1), hexspec(PLACEHOLDER), rnd(3 * L)]
        cases.append(seq_case(with_ph, [0, 1, 2, 3, 4, 0, 3, 1], lim_explicit_bytes(L), rnd(2 * L), "around-limit"))
        one_off = [rnd(n) for n in (50, 49, 51, 50)]
        cases.append(seq_case(one_off, [0, 1, 2, 3, 1], lim_env("1"), None, "one-byte-steps"))

    # 11. histories on ONE recorded path: the file is rewritten between two interceptions - other bytes of the same
    #     length (or of another length), the writer leaving the clock's modification time, setting it to a fixed
    #     stamp or putting the previous one back, in place or through a temporary file - (a) across recordings made
    #     one after another with one recorder, (b) inside one operation that hands the path to intercepted inputs
    #     and outputs several times.  What is recorded at an interception is what the file holds at that moment.
    STAMP = 1500000000
    for rep in range(2 if quick else 12):
        for stamp_kind in ("same", "keep"):
            n = rng.choice([1, 24, 57, 300]) if rep else 64
            fam = same_size_family(rng, n, 4)
            stamps = [STAMP] * 4 if stamp_kind == "same" else [None, "keep", "keep", "keep"]
            c = seq_case(fam, [0, 1, 2, 3, 1], LIM_DEFAULT, None, "same-size-rewrite:" + stamp_kind)
            c["stamps"], c["how"] = stamps, ("inplace" if rep % 2 == 0 else "replace")
            cases.append(c)
        grow = [rnd(40), rnd(40), rnd(41), rnd(40), rnd(39)]
        c = seq_case(grow, [0, 1, 2, 3, 4], LIM_DEFAULT, None, "rewrite-mixed-sizes")
        c["stamps"], c["how"] = [rng.choice([STAMP, None, "keep"]) for _ in grow], rng.choice(["inplace", "replace"])
        cases.append(c)
    probes = [("in", "in"), ("out", "out"), ("in", "out"), ("out", "in")]
    for cas in cassettes:
        for pi_, vias in enumerate(probes):            # the small region, deterministically: every pair of handlers
            for stamp_kind in (("same", "keep") if not quick else (("same", "keep")[(pi_ + cassettes.index(cas)) % 2],)):
                fam = same_size_family(rng, rng.choice([1, 16, 64, 200]), 2)
                steps = [hist_step(v, fam[i], True, STAMP if stamp_kind == "same" else ("keep" if i else None))
                         for i, v in enumerate(vias)]
                cases.append(hist_case(rng, next(dims), steps, tag="pair:%s-%s:%s" % (vias[0], vias[1], stamp_kind),
                                       cassette=cas))
    for rep in range(18 if quick else 200):
        k = rng.randrange(2, 6)
        n = rng.choice([1, 2, 24, 100, 333])
        same = rng.random() < 0.7
        fam = same_size_family(rng, n, k) if same else [rnd(max(0, n + rng.choice([-1, 0, 0, 1, 5]))) for _ in range(k)]
        pattern = rng.choice(["same", "same", "keep", "natural", "mixed"])
        steps = []
        for i in range(k):
            fresh = i == 0 or rng.random() < 0.75
            stamp = {"same": STAMP, "keep": "keep" if i else None, "natural": None,
                     "mixed": rng.choice([STAMP, STAMP + 1, None, "keep"])}[pattern]
            content = fam[i] if fresh else steps[-1]["content"]
            steps.append(hist_step(rng.choice(["in", "out"]), content, fresh, stamp if fresh else None))
        lim = LIM_DEFAULT
        if rng.random() < 0.25:      # a limit the history crosses: some versions are above it
            lim = lim_explicit_bytes(max(0, n + rng.choice([-1, 0, 0, 1])))
        cases.append(hist_case(rng, next(dims), steps, lim=lim, how=rng.choice(["inplace", "replace"]),
                               pre=rng.choice([None, None, rnd(rng.randrange(0, 700))]),
                               tag="random:%s:%s" % ("same-size" if same else "sizes-vary", pattern)))

    # ---- unit level ----
    n_rand = 40 if quick else 400
    for tag, spec in cat:
        cases.append({"kind": "b64", "content": spec, "tag": tag})
    for n in list(range(0, 13)) + [rng.randrange(13, 600) for _ in range(n_rand)]:
        cases.append({"kind": "b64", "content": {"sha": rng.randrange(1 << 30), "n": n}, "tag": "random"})
    for b in range(0, 256, 5 if quick else 1):      # single bytes and byte pairs: every 6-bit digit in every position
        cases.append({"kind": "b64", "content": hexspec(bytes([b, (b * 7 + 3) % 256, 255 - b])), "tag": "triple"})
        cases.append({"kind": "b64", "content": hexspec(bytes([b])), "tag": "single"})
    # size limit: boundary sizes of many limits
    lims = [lim_explicit_bytes(L) for L in (0, 1, 2, 1023, 1024, 4096, 65536, MB, 3 * MB + 17)]
    lims += [lim_float(x) for x in (0.001, 0.1, 0.3, 1.0, 1.5, 2.5e-07, 499.99999, 1e-9, -0.25, 1234.5678)]
    lims += [lim_int(m) for m in (0, 1, 2, 10, 500, -1)]
    lims += [lim_env(t) for t in ("0", "1", "2", "1.5", "0.999", "-0.999", "-1.5", "1e1", " 7 ", "500", "3.0", "1_0", "0x10", "")]
    lims += [LIM_DEFAULT]
    for lim in lims:
        dl = documented_limit(lim)
        if dl is None:
            cases.append({"kind": "above", "limit": lim, "size": 1, "fake_getsize": False, "tag": "junk-env"})
            continue
        edge = (dl * MB).__floor__()
        for s in sorted({edge - 1, edge, edge + 1, edge + 2, 0, 1}):
            if s < 0:
                continue
            cases.append({"kind": "above", "limit": lim, "size": s, "fake_getsize": s > 600 * MB, "tag": "edge%+d" % (s - edge)})
    for m in (1 << 33, (1 << 53) // MB - 1):        # very large files: sizes up to 2^53 - 1 through a substituted getsize
        for s in (m * MB - 1, m * MB, m * MB + 1):
            if s < (1 << 53):
                cases.append({"kind": "above", "limit": lim_int(m), "size": s, "fake_getsize": True, "tag": "huge"})
    cases.append({"kind": "above", "limit": lim_float(float((1 << 53) - 2) / MB), "size": (1 << 53) - 1, "fake_getsize": True, "tag": "huge"})
    cases.append({"kind": "above", "limit": lim_float(float((1 << 53) - 2) / MB), "size": (1 << 53) - 2, "fake_getsize": True, "tag": "huge"})
    # path lookup
    vals = [None, "", "p1", "p2", {"o": "list0"}, {"o": "list1"}, {"o": "float0"}, {"o": "float1"}, {"o": "dict0"}, {"o": "tuple1"}]
    for _ in range(120 if quick else 1500):
        nargs = rng.randrange(0, 4)
        args = [rng.choice(vals) for _ in range(nargs)]
        kwargs = {}
        name = rng.choice(["path", "file_path"])
        if rng.random() < 0.6:
            kwargs[name] = rng.choice(vals)
        if rng.random() < 0.3:
            kwargs["other"] = rng.choice(vals)
        cases.append({"kind": "path", "index": rng.randrange(-5, 5), "name": name, "args": args, "kwargs": kwargs, "tag": ""})
    # 12. contents that are themselves encodings (deflated / archived blobs, base64 and other transfer encodings, json
    #     envelopes, pickles, byte-order marks): every one once as the input file and once as the output file of a trip
    #     (default limit / a limit of exactly its size / 1 MB from the environment), through the envelope at unit
    #     level, and replayed one after another into one path.  Drawn last: the cases above stay what they were.
    enc = encoded_catalogue(rng)
    for i, (tag, spec) in enumerate(enc):
        lim = [LIM_DEFAULT, lim_explicit_bytes(size_of(spec)), lim_env("1")][i % 3]
        cases.append(trip_case(rng, next(dims), spec, lim, out_content=enc[(i + 7) % len(enc)][1], tag="encoded:" + tag))
        cases.append({"kind": "b64", "content": spec, "tag": "encoded:" + tag})
    for rep in range(2 if quick else 10):
        mix = [spec for _, spec in rng.sample(enc, 5)]
        cases.append(seq_case(mix, [0, 1, 2, 3, 4, 1, 0], LIM_DEFAULT, None, "encoded-mix"))
    if not quick:
        for i, (tag, spec) in enumerate(enc):
            for cas in cassettes:
                cases.append(trip_case(rng, next(dims), spec, LIM_DEFAULT, out_content=enc[(i + 3) % len(enc)][1],
                                       tag="encoded:" + tag, cassette=cas))
    # 13. the FORM of the paths (all of the above are absolute paths in an existing directory): the case runs with its
    #     scratch directory as the current directory and hands the handlers / holder.to_file a bare file name, './name',
    #     'sub/name' (directory present), 'sub/../name', an absolute path in a sub-directory - the recorded paths, the
    #     replayed paths and the path the holder is written to vary independently.  (a) the small region replayed form x
    #     positional / keyword x cassette deterministically, (b) 'nosuch/name' (directory absent: cannot be opened for
    #     writing; correspondence only, as in 9.), (c) sequences replayed into a relative path, (d) a share of the trips
    #     above.  Drawn last: the cases above stay what they were.
    forms = ["bare", "dot", "sub", "abs-sub", "dotdot", "abs"]
    k = 0
    for cas in cassettes:
        for form in forms:
            for mode in ("pos", "kw"):
                d = list(next(dims))
                d[0], d[4], d[6] = cas, mode, mode
                k += 1
                tag, spec = cat[k % len(cat)] if size_of(cat[k % len(cat)][1]) <= 300 else cat[1]
                c = trip_case(rng, tuple(d), spec, LIM_DEFAULT, out_content=rng.choice(small), tag="path-form:" + tag)
                c["path_form"] = {"play": form, "rec": forms[(k + 2) % len(forms)], "holder": forms[(k // 2) % len(forms)]}
                cases.append(c)
    for cas in cassettes:
        c = trip_case(rng, next(dims), rng.choice(small), LIM_DEFAULT, tag="unwritable", cassette=cas)
        c["unwritable"], c["pre"], c["pre_kind"], c["expect"] = True, None, "none", "unwritable"
        c["path_form"] = {"play": "sub-missing", "rec": rng.choice(forms), "holder": rng.choice(forms)}
        cases.append(c)
    for form in forms[:5] if quick else forms[:5] * 3:
        mix = [rng.choice(small) for _ in range(3)]
        c = seq_case(mix, [0, 1, 2, 1], LIM_DEFAULT, rng.choice([None, rnd(rng.randrange(0, 400))]), "path-form")
        c["path_form"] = {"play": form, "rec": rng.choice(forms)}
        cases.append(c)
    for c in cases:
        if c["kind"] == "trip" and "path_form" not in c and not c.get("expect") and size_of(c["content"]) <= MB \
                and rng.random() < 0.2:
            c["path_form"] = {"play": rng.choice(forms), "rec": rng.choice(forms), "holder": rng.choice(forms)}
    # 14. (round 7) the KIND of the intercepted file and the FILESYSTEM of the replayed path: implementation only
    env_cases = env_stream(rng, quick)
    # heavy trips first, then dealt round-robin so that every Coq shard gets its share of the long byte strings
    heavy = lambda c: sum(size_of(x) for x in c["contents"]) if c["kind"] == "seq" else \
        sum(size_of(st["content"]) for st in c["steps"]) if c["kind"] == "hist" else size_of(c["content"])
    trips = sorted([c for c in cases if c["kind"] in ("trip", "seq", "hist")], key=lambda c: -heavy(c))
    rest = [c for c in cases if c["kind"] not in ("trip", "seq", "hist")]
    k = max(1, (len(cases) + SHARD - 1) // SHARD)
    per = (len(cases) + k - 1) // k
    buckets = [[] for _ in range(k)]
    for i, c in enumerate(trips):
        buckets[i % k].append(c)
    order = {"b64": 1, "above": 2, "path": 3}
    rest.sort(key=lambda c: order[c["kind"]])
    for b in buckets:
        while len(b) < per and rest:
            b.append(rest.pop())
    out = [c for b in buckets for c in b] + rest
    return out + env_cases


def env_stream(rng, quick):
    """Files whose reported size says nothing about their content (pseudo files of procfs: st_size 0; named pipes fed by a
    producer thread: st_size 0, content arrives while it is read) as intercepted input and output files, and replayed
    paths on ANOTHER filesystem than the default temporary directory (the replay path on /dev/shm, or the temporary
    directory moved there) - next to the regular-file / same-filesystem combination as a control.  The bytes the file
    delivered are what the replay restores; a machine without procfs / with one writable filesystem skips those cases."""
    out = []
    contents = [{"hex": b"pipe content\n".hex()}, {"hex": ""}, {"hex": bytes(range(256)).hex()},
                {"sha": 77, "n": 70000}, {"hex": PLACEHOLDER.hex() if isinstance(PLACEHOLDER, bytes) else PLACEHOLDER.encode().hex()}]
    k = 0
    for source in ("regular", "pseudo", "fifo"):
        for replay_fs, tmpdir in (("same", "default"), ("other", "default"), ("same", "other"), ("other", "other")):
            for rep in range(1 if quick else 3):
                k += 1
                out.append(dict(kind="env", source=source, pseudo=["/proc/version", "/proc/filesystems", "/proc/self/cmdline"][k % 3],
                                replay_fs=replay_fs, tmpdir=tmpdir, cassette=["mem", "file", "s3"][k % 3],
                                in_mode=["pos", "kw"][k % 2], content=contents[k % len(contents)],
                                out_content=contents[(k + 2) % len(contents)], tag="env"))
    return out


# ---------------------------------------------------------------------------------------------- Gallina
EXN = {"IndexError": "IndexError", "KeyError": "KeyError", "TypeError": "TypeError", "OSError": "OSError",
       "FileNotFoundError": "OSError", "IsADirectoryError": "OSError", "PermissionError": "OSError",
       "ValueError": "ValueError", "Error": "ValueError"}


def g_arg(a):
    if a is None:
        return "ANone"
    if isinstance(a, dict):
        return "(AOther %s)" % gbool(filespec.truthy(a))
    return "(AStr %s)" % gstr(a)


def g_kwargs(kw):
    return glist(["(%s, %s)" % (gstr(k), g_arg(v)) for k, v in sorted(kw.items())])


def g_res(x, raises=None):
    if raises is not None:
        return "(Raises %s)" % EXN.get(raises, "KeyError")
    return "(Ans %s)" % x


def unhex(shown):
    if not isinstance(shown, dict) or "hex" not in shown:
        return None
    return bytes.fromhex(shown["hex"])


class Pool(object):
    """share long byte literals inside one case through let-bindings"""
    def __init__(self):
        self.names = {}

    def lit(self, b):
        if len(b) < 12:
            return gbytes(b)
        if b not in self.names:
            self.names[b] = "b%d" % len(self.names)
        return self.names[b]

    def wrap(self, term):
        for b, nm in self.names.items():
            term = "(let %s := %s in %s)" % (nm, gbytes(b), term)
        return term


def model_calls(case, which):
    """arguments as the recorder receives them (self included for instance methods), for both phases"""
    side = case[which]
    out = []
    for phase, role in (("rec", "RI" if which == "in" else "RO"), ("play", "PI" if which == "in" else "PO")):
        args, kwargs = filespec.call_args(side["extras"], side[phase], role, case["name"])
        if not side["static"]:
            args = [{"o": "list1"}] + args          # self: some truthy object
        out.append("(%s, %s)" % (glist([g_arg(a) for a in args]), g_kwargs(kwargs)))
    return out


BAD_OBS = "(Obs 9 [] [] [] [] [] [] (Raises KeyError) [] (Raises KeyError) (Raises KeyError))"


def g_obs(obs, pool):
    st = obs.get("status")
    roles = lambda l: glist([gstr(r) for r in l])
    if st == "discarded":
        return "(Obs 1 [] [] [] [] %s [] (Raises KeyError) [] (Raises KeyError) (Raises KeyError))" % roles(obs["opened_rec"])
    if st != "ok":
        return BAD_OBS
    ri, ro = obs["raw_in"], obs["raw_out"]
    bi, bo = unhex(ri.get("content")), unhex(ro.get("content"))
    if bi is None or bo is None:
        return BAD_OBS
    written = []
    for r, shown in obs["written"]:
        b = unhex(shown)
        if b is None:
            return BAD_OBS
        written.append("(%s, %s)" % (gstr(r), pool.lit(b)))

    def holder(h):
        if "raises" in h:
            return g_res(None, h["raises"])
        b = unhex(h.get("content"))
        if b is None:
            return None
        return g_res("(%s, %s)" % (pool.lit(b), gstr(h["path"])))
    hr = holder(obs["holder_rec"])
    if obs.get("play_exc"):            # the replayed input call raised: the operation ended there
        ret = g_res(None, obs["play_exc"])
        hp = g_res(None, "KeyError") if obs["holder_play"].get("count") == 0 else None
    else:
        ret = g_res(gstr(obs["play_ret"])) if obs.get("play_ret") is not None else None
        hp = holder(obs["holder_play"])
    if hr is None or hp is None or ret is None:
        return BAD_OBS
    return "(Obs 0 %s %s %s %s %s %s %s %s %s %s)" % (
        pool.lit(bi), gstr(ri["path"]), pool.lit(bo), gstr(ro["path"]), roles(obs["opened_rec"]), roles(obs["opened_play"]),
        ret, glist(written), hr, hp)


def model_file(spec, lim, pool):
    """(size, content) as the model sees the file; the content of a big file above the limit is elided
    (the model does not consult it there); None if the case cannot be given to Coq"""
    n = size_of(spec)
    if n <= filespec.INLINE_MAX:
        return "(%s, %s)" % (gZ(n), pool.lit(expand(spec)))
    dl = documented_limit(lim)
    if dl is not None and Fraction(n) > dl * MB:
        return "(%s, [])" % gZ(n)
    return None


def to_gallina(case, obs):
    if case["kind"] == "env":
        return None           # implementation only: file kinds and mounts are outside the model (bytes in, bytes out)
    if "driver_exception" in obs:
        return "CPath 0%Z [] [] [] (Ans (AOther true))"       # a driver failure is a mismatch (get_path raises IndexError)
    k = case["kind"]
    if k == "b64":
        content = expand(case["content"])
        enc = unhex(obs.get("enc"))
        if enc is None:
            return None
        if "dec_raises" in obs:
            dec = g_res(None, obs["dec_raises"])
        else:
            d = unhex(obs.get("dec"))
            if d is None:
                return None
            dec = g_res(gbytes(d))
        return "CB64 %s %s %s" % (gbytes(content), gbytes(enc), dec)
    if k == "above":
        lim = case["limit"]
        if "raises" in obs:
            il = ia = g_res(None, obs["raises"])
        else:
            il = g_res(gQ(Fraction(obs["limit"][0], obs["limit"][1])))
            ia = g_res(gbool(obs["above"])) if "above" in obs else g_res(None, obs.get("above_raises"))
        return "CAbove %s %s %s %s %s" % (g_explicit(lim), g_env(lim), gZ(case["size"]), il, ia)
    if k == "path":
        if "raises" in obs:
            impl = g_res(None, obs["raises"])
        else:
            p = obs["path"]
            impl = g_res("ANone" if "none" in p else "(AStr %s)" % gstr(p["s"]) if "s" in p else "(AOther %s)" % gbool(p["other"]))
        return "CPath %s %s %s %s %s" % (gZ(case["index"]), gstr(case["name"]), glist([g_arg(a) for a in case["args"]]),
                                         g_kwargs(case["kwargs"]), impl)
    if k == "seq":
        return seq_gallina(case, obs)
    if k == "hist":
        return hist_gallina(case, obs)
    pool = Pool()
    lim = case["limit"]
    pre = []
    for r in ("RI", "PI"):
        spec = (case.get("pre") or {}).get(r)
        if spec is not None:
            if size_of(spec) > 2 * filespec.INLINE_MAX:
                return None
            pre.append("(%s, %s)" % (gstr(r), pool.lit(expand(spec))))
    fin, fout = model_file(case["content"], lim, pool), model_file(case["out_content"], lim, pool)
    if fin is None or fout is None:
        return None                                  # multi-MB content below the limit: implementation side only
    in_rec, in_play = model_calls(case, "in")
    out_rec, out_play = model_calls(case, "out")
    term = "CTrip (Trip %s %s %s %s %s %s %s %s %s %s %s %s %s %s %s)" % (
        g_explicit(lim), g_env(lim), gstr(case["name"]), gZ(case["in"]["index"]), gZ(case["out"]["index"]),
        gbool(case["out"]["static"]),
        glist(["(%s, %s)" % (gstr("RI"), fin), "(%s, %s)" % (gstr("RO"), fout)]),
        glist(["(%s, %s)" % (gstr("PO"), fout)]),
        glist(pre), gbool(bool(case.get("unwritable"))),
        in_rec, in_play, out_rec, out_play, g_obs(obs, pool))
    return pool.wrap(term)


def seq_gallina(case, obs):
    pool = Pool()
    lim = case["limit"]
    files = []
    for spec in case["contents"]:
        files.append("(%s, %s)" % (gZ(size_of(spec)), pool.lit(expand(spec))))
    fake = {"in": case["in"], "name": case["name"]}
    rec, play = model_calls(fake, "in")
    pre = [] if case.get("pre") is None else ["(%s, %s)" % (gstr("PI"), pool.lit(expand(case["pre"])))]
    if obs.get("status") != "ok":
        impl = "[None; None; None; None; None; None; None; None; None; None; None]"       # mismatch
    else:
        steps = []
        for sh in obs["steps"]:
            b = None if sh is None else unhex(sh)
            if sh is not None and b is None:
                return None
            steps.append(gopt(None if b is None else pool.lit(b)))
        impl = glist(steps)
    term = "CSeq (Seq %s %s %s %s %s %s %s %s %s %s)" % (
        g_explicit(lim), g_env(lim), gstr(case["name"]), gZ(case["in"]["index"]), glist(files), rec, play,
        glist(pre), glist(["%d%%nat" % i for i in case["order"]]), impl)
    return pool.wrap(term)


def hist_gallina(case, obs):
    pool = Pool()
    lim = case["limit"]

    def call(which, phase, role):
        side = case[which]
        args, kwargs = filespec.call_args(side["extras"], side[phase], role, case["name"])
        if not side["static"]:
            args = [{"o": "list1"}] + args
        return "(%s, %s)" % (glist([g_arg(a) for a in args]), g_kwargs(kwargs))
    steps = []
    for st in case["steps"]:
        steps.append("(%s, %s, (%s, %s))" % ("HIn" if st["via"] == "in" else "HOut", gbool(st["fresh"]),
                                             gZ(size_of(st["content"])), pool.lit(expand(st["content"]))))
    pre = [] if case.get("pre") is None else ["(%s, %s)" % (gstr("PI"), pool.lit(expand(case["pre"])))]
    if obs.get("status") != "ok":
        impl = "[None; None; None; None; None; None; None; None; None; None; None]"       # mismatch
    else:
        out = []
        for st, o in zip(case["steps"], obs["steps"]):
            b = unhex(o.get("restored") if st["via"] == "in" else o.get("holder_rec"))
            out.append(gopt(None if b is None else pool.lit(b)))
        impl = glist(out)
    term = "CHist (Hist %s %s %s %s %s %s %s %s %s %s %s %s)" % (
        g_explicit(lim), g_env(lim), gstr(case["name"]), gZ(case["in"]["index"]), gZ(case["out"]["index"]),
        gbool(case["out"]["static"]), glist(steps), call("in", "rec", "RI"), call("in", "play", "PI"),
        call("out", "rec", "RI"), glist(pre), impl)
    return pool.wrap(term)


def explain(case, obs):
    t = to_gallina(case, obs)
    return "model_obs (%s)" % t if t else "0"


# ---------------------------------------------------------------------------------------------- direct predicate
def direct_env(case, obs):
    fails = []
    if obs.get("status") == "skipped":
        return fails
    what = "%s file as intercepted input, replayed path on %s filesystem as the temporary directory%s" % (
        case["source"] if case["source"] != "pseudo" else "pseudo (%s, st_size 0)" % case["pseudo"],
        "the same" if (case["replay_fs"] == "other") == (case["tmpdir"] == "other") else "ANOTHER",
        " (temporary directory moved)" if case["tmpdir"] == "other" else "")
    if obs.get("status") != "ok":
        fails.append(("input-not-restored" if obs.get("status") == "replay-raises" and not obs.get("restored")
                      else "trip-failed", "%s: %s %s %s" % (what, obs.get("status"), obs.get("replay_raises"), obs.get("cause"))))
        return fails
    if obs.get("restored") is None:
        fails.append(("input-not-restored", "%s: no file at the path of the replayed call" % what))
    elif obs.get("restored") != obs.get("delivered_in"):
        fails.append(("input-bytes-differ", "%s: the file delivered %s, the replay restored %s" %
                      (what, str(obs.get("delivered_in"))[:80], str(obs.get("restored"))[:80])))
    for which in ("holder_rec", "holder_play"):
        if obs.get(which) != obs.get("delivered_out"):
            fails.append(("output-bytes-differ:" + which[7:], "%s: the output file delivered %s, the holder has %s" %
                          (what, str(obs.get("delivered_out"))[:80], str(obs.get(which))[:80])))
    return fails


def direct(case, obs):
    if "driver_exception" in obs:
        return [("driver", obs["driver_exception"])]
    k = case["kind"]
    if k == "env":
        return direct_env(case, obs)
    fails = []
    if k == "b64":
        content = expand(case["content"])
        if "dec_raises" in obs or not same_bytes(obs.get("dec"), content):
            fails.append(("envelope-roundtrip", "_deserialize_file(_serialize_file(b)) != b for %d bytes (%s)" %
                          (len(content), obs.get("dec_raises", "differs"))))
        enc = unhex(obs.get("enc"))
        if enc is not None and enc == PLACEHOLDER:
            fails.append(("envelope-is-placeholder", "serialized content equals the placeholder"))
        return fails
    if k == "above":
        dl = documented_limit(case["limit"])
        if dl is None or "raises" in obs:
            return fails
        if "above" not in obs:
            return [("limit-check-raises", "size check raised %s" % obs.get("above_raises"))]
        want = Fraction(case["size"]) > dl * MB
        if obs["above"] != want:
            fails.append(("limit-boundary", "file of %d bytes against a limit of %s MB (%s bytes): judged %s" %
                          (case["size"], dl, dl * MB, "above" if obs["above"] else "not above")))
        if obs.get("reads"):
            fails.append(("size-check-reads-file", "the size check opened the file for reading"))
        return fails
    if k == "path":
        return fails          # correspondence only: what the documentation promises is covered by the trips
    if k == "seq":
        if obs.get("status") != "ok":
            return [("seq-" + str(obs.get("status")), "recording / replaying the sequence did not complete")]
        lim = case["limit"]
        for step, (i, shown, ret) in enumerate(zip(case["order"], obs["steps"], obs["rets"])):
            spec = case["contents"][i]
            if ret != "PI":
                fails.append(("sequence-replay-failed", "replay #%d (recording %d) returned %s" % (step, i, ret)))
            elif not is_above_documented(size_of(spec), lim) and not same_bytes(shown, expand(spec)):
                prev = "nothing" if step == 0 and case.get("pre") is None else "%d bytes" % (
                    size_of(case["pre"]) if step == 0 else len(bytes.fromhex(obs["steps"][step - 1]["hex"]))
                    if obs["steps"][step - 1] and "hex" in obs["steps"][step - 1] else -1)
                other = [j for j, sp in enumerate(case["contents"]) if j != i and expand(sp) != expand(spec)
                         and same_bytes(shown, expand(sp))]
                if other and case.get("stamps"):
                    fails.append(("input-bytes-differ-rewritten",
                                  "replay #%d: recording %d was made of %d bytes found at the recorded path, rewritten since "
                                  "recording %d was made there (mtime %s, %s); the replay restored the bytes of recording %d" %
                                  (step, i, size_of(spec), other[0], case["stamps"][i], case.get("how"), other[0])))
                else:
                    fails.append(("input-bytes-differ-on-existing-file",
                                  "replay #%d of a %d byte recording into a path holding %s left %s" %
                                  (step, size_of(spec), prev, str(shown)[:100])))
                break
        return fails
    if k == "hist":
        if obs.get("status") != "ok":
            return [("hist-" + str(obs.get("status")), "recording / replaying the history did not complete: %s" %
                     obs.get("replay_raises", ""))]
        lim = case["limit"]
        steps = case["steps"]
        if obs.get("bodies_play"):
            fails.append(("input-body-ran-in-replay", "the intercepted input function was executed during replay"))
        any_above = any(is_above_documented(size_of(st["content"]), lim) for st in steps)

        def describe(shown, i):
            for j in range(i - 1, -1, -1):
                if same_bytes(shown, expand(steps[j]["content"])):
                    return "the bytes the file held at interception #%d" % j
            return str(shown)[:100]
        for i, (st, o) in enumerate(zip(steps, obs["steps"])):
            content = expand(st["content"])
            which = "input" if st["via"] == "in" else "output"
            if is_above_documented(len(content), lim):
                if o["reads_rec"]:
                    fails.append((which + "-above-limit-read", "interception #%d: file of %d bytes (limit %s MB) was opened "
                                  "for reading" % (i, len(content), documented_limit(lim))))
                continue
            rewritten = any(s2["fresh"] for s2 in steps[1:i + 1])
            suffix = "-rewritten" if rewritten else ""         # signatures stay below 40 characters (replay file names)
            how = "interception #%d of the path (%s handler; %d bytes; rewritten before: %s, mtime %s, %s)" % (
                i, which, len(content), st["fresh"] and i > 0, st.get("stamp"), case.get("how"))
            if st["via"] == "in":
                if not same_bytes(o.get("restored"), content):
                    fails.append(("input-bytes-differ" + suffix, "%s: the file restored at the replayed path holds %s" %
                                  (how, describe(o.get("restored"), i))))
            else:
                if not same_bytes(o.get("holder_rec"), content):
                    fails.append(("output-bytes-differ" + suffix + ":rec", "%s: the holder of the recorded output "
                                  "holds %s" % (how, describe(o.get("holder_rec"), i))))
                if not any_above and not same_bytes(o.get("holder_play"), content):
                    fails.append(("output-bytes-differ" + suffix + ":play", "%s: the holder of the replayed output "
                                  "holds %s" % (how, describe(o.get("holder_play"), i))))
        return fails
    if case.get("expect") in ("discard", "unwritable"):
        return fails
    lim = case["limit"]
    st = obs.get("status")
    if st != "ok":
        return [("trip-" + str(st), "record/replay did not complete: %s %s" % (st, obs.get("replay_raises", "")))]
    cin, cout = case["content"], case["out_content"]
    above_in = is_above_documented(size_of(cin), lim)
    above_out = is_above_documented(size_of(cout), lim)
    written = dict((r, s) for r, s in obs["written"])
    if "fetch" in obs.get("bodies_play", []):
        fails.append(("input-body-ran-in-replay", "the intercepted input function was executed during replay"))
    if above_in:
        if "RI" in obs["opened_rec"]:
            fails.append(("input-above-limit-read", "input file of %d bytes (limit %s MB) was opened for reading" %
                          (size_of(cin), documented_limit(lim))))
        if not same_bytes(obs["raw_in"].get("content"), PLACEHOLDER):
            fails.append(("input-above-limit-not-placeholder", "recording of an above-limit input does not hold the placeholder"))
    else:
        stale = (case.get("pre") or {}).get("RI")
        if "RI" in written and (stale is None or not same_bytes(written["RI"], expand(stale))):
            fails.append(("input-restored-at-recorded-path", "replay wrote the file at the recorded path"))
        if "PI" not in written:
            fails.append(("input-not-restored", "no file at the path of the replayed call (path given as: %s%s)" % (
                (case.get("path_form") or {}).get("play", "abs"),
                "; the replayed input call raised %s" % obs["play_exc"] if obs.get("play_exc") else "")))
        elif not same_bytes(written["PI"], expand(cin)):
            had = (case.get("pre") or {}).get("PI")
            fails.append(("input-bytes-differ" if had is None else "input-bytes-differ-on-existing-file",
                          "restored input differs from the %d recorded bytes (replayed path held %s before; got %s)" %
                          (size_of(cin), "nothing" if had is None else "%d bytes" % size_of(had), str(written["PI"])[:120])))
    if obs.get("play_ret") != "PI":
        fails.append(("input-return-path", "replayed input call returned %s, not the replayed path" % obs.get("play_ret")))
    for which, content, opened, role in (("holder_rec", cout, obs["opened_rec"], "RO"), ("holder_play", cout, obs["opened_play"], "PO")):
        h = obs[which]
        if above_out:
            if role in opened:
                fails.append(("output-above-limit-read", "output file of %d bytes (limit %s MB) was opened for reading" %
                              (size_of(content), documented_limit(lim))))
            if which == "holder_rec" and not same_bytes(obs["raw_out"].get("content"), PLACEHOLDER):
                fails.append(("output-above-limit-not-placeholder", "recording of an above-limit output does not hold the placeholder"))
        else:
            if "content" not in h or not same_bytes(h["content"], expand(content)):
                fails.append(("output-bytes-differ:" + which, "%s content differs from the %d bytes written (got %s)" %
                              (which, size_of(content), str(h)[:120])))
            if which == "holder_rec" and not same_bytes(obs.get("holder_file"), expand(content)):
                fails.append(("output-holder-file-differs", "holder.to_file(path given as: %s) wrote different bytes: %s" %
                              ((case.get("path_form") or {}).get("holder", "abs"), str(obs.get("holder_file"))[:80])))
    return fails


# ---------------------------------------------------------------------------------------------- evidence
def features(case):
    k = case["kind"]
    f = {"kind:" + k}
    if k == "env":
        f |= {"intercepted-file-kind:" + case["source"], "cassette:" + case["cassette"],
              "replay-path-filesystem:%s,tmpdir:%s" % (case["replay_fs"], case["tmpdir"])}
        return f
    if k == "trip":
        lim = case["limit"]
        f.add("cassette:" + case["cassette"])
        f.add("limit:" + ("env" if lim.get("env") is not None else "default" if lim["explicit"] is None else "explicit-" + lim["type"]))
        dl = documented_limit(lim)
        if dl is not None:
            d = size_of(case["content"]) - dl * MB
            f.add("size-limit:" + ("+1" if d == 1 else "0" if d == 0 else "-1" if d == -1 else "above" if d > 0 else "below"))
        f.add("in:%s->%s" % (case["in"]["rec"], case["in"]["play"]))
        f.add("out:%s->%s" % (case["out"]["rec"], case["out"]["play"]))
        f.add("in:" + ("static" if case["in"]["static"] else "instance"))
        f.add("out:" + ("static" if case["out"]["static"] else "instance"))
        n = size_of(case["content"])
        f.add("size:" + ("0" if n == 0 else "<=4096" if n <= 4096 else "<=1MiB" if n <= MB else ">1MiB"))
        f.add("content:" + case["tag"].split("@")[0].split(":")[0])
        if case["tag"].startswith("encoded:"):
            f.add("content-encoded-as:" + re.match(r"[a-z]*", case["tag"].split(":")[1]).group(0))
        if case["in"]["index"] < 0 or case["out"]["index"] < 0:
            f.add("negative-index")
        if case.get("dir") == "unicode":
            f.add("unicode-path")
        f.add("replay-path-before:" + case.get("pre_kind", "none"))
        if case.get("unwritable"):
            f.add("replay-path-unwritable")
        for side, form in sorted((case.get("path_form") or {"play": "abs", "rec": "abs", "holder": "abs"}).items()):
            f.add("path-form:%s=%s" % (side, form))
    elif k == "seq":
        f.add("cassette:" + case["cassette"])
        f.add("seq:" + case["tag"])
        f.add("seq-steps:%d" % len(case["order"]))
        f.add("seq-before:" + ("file" if case.get("pre") is not None else "nothing"))
        for side, form in sorted((case.get("path_form") or {"play": "abs", "rec": "abs"}).items()):
            f.add("path-form:%s=%s" % (side, form))
        sizes = [size_of(case["contents"][i]) for i in case["order"]]
        if any(a > b for a, b in zip(sizes, sizes[1:])):
            f.add("seq:shrinking-step")
        if any(a == b for a, b in zip(case["order"], case["order"][1:])):
            f.add("seq:same-recording-twice")
        if case.get("stamps"):
            f.add("seq:recorded-path-rewritten:" + case.get("how", "inplace"))
            cs = case["contents"]
            for a, b, sb in zip(cs, cs[1:], case["stamps"][1:]):
                if size_of(a) == size_of(b) and expand(a) != expand(b) and sb is not None:
                    f.add("seq:rewritten-same-size-same-mtime")
    elif k == "hist":
        f.add("cassette:" + case["cassette"])
        f.add("hist:" + case["tag"].split(":")[0])
        f.add("hist-steps:%d" % len(case["steps"]))
        f.add("hist-write:" + case.get("how", "inplace"))
        f.add("in:" + ("static" if case["in"]["static"] else "instance"))
        f.add("out:" + ("static" if case["out"]["static"] else "instance"))
        f.add("in:%s->%s" % (case["in"]["rec"], case["in"]["play"]))
        st = case["steps"]
        for a, b in zip(st, st[1:]):
            f.add("hist-pair:%s-%s" % (a["via"], b["via"]))
            if b["fresh"] and size_of(a["content"]) == size_of(b["content"]) and a["content"] != b["content"]:
                f.add("hist:rewritten-same-size:mtime-%s" % ("clock" if b["stamp"] is None else "kept" if b["stamp"] == "keep"
                                                            else "stamped"))
            if not b["fresh"]:
                f.add("hist:same-file-handed-on")
        if any(is_above_documented(size_of(x["content"]), case["limit"]) for x in st):
            f.add("hist:some-version-above-limit")
        f.add("hist-before:" + ("file" if case.get("pre") is not None else "nothing"))
    elif k == "above":
        f.add("above:" + case["tag"])
        f.add("limit:" + ("env" if case["limit"].get("env") is not None else "default" if case["limit"]["explicit"] is None
                          else "explicit-" + case["limit"]["type"]))
    elif k == "b64":
        f.add("b64:len%%3=%d" % (size_of(case["content"]) % 3))
    else:
        f.add("path:" + ("kw" if case["name"] in case["kwargs"] else "nokw"))
    return f


def nontrivial(case):
    k = case["kind"]
    if k in ("trip", "seq", "hist", "env"):
        return True
    if k == "above":
        return case["tag"] in ("edge-1", "edge+0", "edge+1", "huge")
    if k == "b64":
        return size_of(case["content"]) > 0
    return bool(case["kwargs"])


def shrink_candidates(case):
    if case["kind"] == "env":
        if case["cassette"] != "mem":
            yield dict(case, cassette="mem")
        if case["tmpdir"] == "other" and case["replay_fs"] == "other":
            yield dict(case, tmpdir="default")
        return
    if case["kind"] == "seq":
        if case["cassette"] != "mem":
            yield dict(case, cassette="mem")
        for j in range(len(case["order"])):
            if len(case["order"]) > 1:
                yield dict(case, order=case["order"][:j] + case["order"][j + 1:])
        if case["in"]["extras"] or case["in"]["rec"] != "pos" or case["in"]["play"] != "pos" or not case["in"]["static"]:
            yield dict(case, **{"in": {"static": True, "extras": [], "rec": "pos", "play": "pos", "index": 0}})
        return
    if case["kind"] == "hist":
        if case["cassette"] != "mem":
            yield dict(case, cassette="mem")
        st = case["steps"]
        for j in range(len(st)):
            if len(st) > 1:
                rest = [dict(x) for x in st[:j] + st[j + 1:]]
                rest[0]["fresh"] = True
                if rest[0].get("stamp") == "keep":
                    rest[0]["stamp"] = None
                if all(r["fresh"] or r["content"] == p["content"] for p, r in zip(rest, rest[1:])):
                    yield dict(case, steps=rest)
        for which in ("in", "out"):
            side = case[which]
            if side["extras"] or side["rec"] != "pos" or side["play"] != "pos" or not side["static"]:
                yield dict(case, **{which: {"static": True, "extras": [], "rec": "pos", "play": "pos", "index": 0}})
        if case.get("pre") is not None:
            yield dict(case, pre=None)
        if case.get("dir") != "plain":
            yield dict(case, dir="plain")
        return
    if case["kind"] != "trip":
        return
    if case["cassette"] != "mem":
        yield dict(case, cassette="mem")
    if case.get("dir") != "plain":
        yield dict(case, dir="plain")
    for which in ("in", "out"):
        side = case[which]
        if side["extras"] or side["rec"] != "pos" or side["play"] != "pos" or not side["static"]:
            yield dict(case, **{which: {"static": True, "extras": [], "rec": "pos", "play": "pos", "index": 0}})
    if case["out_content"] != case["content"] and size_of(case["out_content"]) > size_of(case["content"]):
        yield dict(case, out_content=case["content"])
    if size_of(case["out_content"]) > 0 and case["limit"]["explicit"] is None:
        yield dict(case, out_content={"hex": ""})


def search_harder(rng, bad_cases):
    extra = [c for c in generate(rng, "thorough") if c["kind"] in ("trip", "seq", "hist")]
    rng.shuffle(extra)
    return extra[:400]


MANIFEST = dict(
    design_ref='6/C20',
    text='Coq theorems for every byte string, path, way of passing the path (keyword / position), file-system and quoted-printable oracle: record -> cassette -> replay writes exactly the recorded bytes at the path of the REPLAYED call (input handler) / yields a holder with exactly those bytes (output handler), also when the content is the placeholder text; above the limit the placeholder is recorded and the file is never opened; the size test is the exact rational comparison size > limit*2^20 with the three boundary corollaries and int(float(env)) for the environment variable; a concrete RFC 4648 base64 codec with b64dec(b64enc b) = b, alphabet and length laws. Model tied to /repo on every run: the real handlers are driven end to end through the real TapeRecorder and the three real cassettes (in-memory, file, S3 over a fake bucket) on contents {empty, all 256 byte values, newlines, placeholder and near-placeholder texts, random binary, multi-MB, and 48 contents that are themselves valid encodings (deflated / archived blobs at several levels and framings incl. truncated, bad-checksum and concatenated streams, base64 family and other transfer encodings, json / jsonpickle-looking / serialized-envelope texts, pickles, byte-order marks) - the bytes come back as recorded whatever they spell} x sizes limit-1/limit/limit+1 x explicit float / int / environment limits x keyword / position x static / instance, and at unit level (base64 text, size check, path lookup); Coq compares with the model by vm_compute; the direct predicate (restored bytes == original at the replayed path, holder content == original, above-limit files never opened and recorded as the placeholder) searches for a failing input. Histories on one path (theorems C20_history_input/_output: the k-th recording of a path is made of what the file holds at the k-th interception): the same recorded path intercepted repeatedly - across recordings and 2-5 times inside one operation, by input and output handlers in every order - with the file rewritten in between (same length, modification time stamped / kept / clock, in place / replaced). Path forms: trips and sequences also run with the scratch directory as current directory and the recorded / replayed / holder.to_file paths written as a bare file name, ./name, sub/name, sub/../name, an absolute path in a sub-directory (replayed form x positional / keyword x cassette deterministically in the quick tier) and nosuch/name (absent directory: correspondence only) - a path is an opaque name for the model, the bytes land at the file the replayed call names however it is written. Environment trips (implementation only, direct predicate): the intercepted file is also a procfs pseudo file (st_size 0) or a named pipe fed by a producer thread - what reading the file delivers is what is restored, whatever size the file system reports - and the replayed path lies on another mount than the default temporary directory (/dev/shm, in either direction); machines without procfs / a second writable filesystem skip those cases.',
    note='Trusted: Coq kernel + vm_compute; hand-written model; correspondence harness (fake bucket behind the real S3BasicFacade, journalling wrapper around open, substituted os.path.getsize for sizes that cannot be materialised); jsonpickle\'s coding of bytes is an oracle (model A) exercised end to end; float comparison exact for sizes < 2^53.',
    technique='Coq proof (lia + finite sweep over the 64 base64 digits, exact rationals for the limit) + model/implementation correspondence by vm_compute + direct predicate end to end',
)
