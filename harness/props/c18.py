"""C18 - recording metadata tells the truth about the run."""
from lib import recdsl as rd
from lib import pyvals as pv
from props.rec_common import *  # noqa: F401,F403

ID = "C18"
RUN_MODULE = "RunC18"
RULE = ("one case = a history of 2-5 runs on one real recorder: operations of two or three classes (instance and class-level, "
        "the same class several times with different extractors: dict / raises / junk int / junk pairs / none) terminating by "
        "return, ordinary exception or interrupt at a random step incl. inside intercepted bodies and after outputs were "
        "captured, with discards and replays in between; non-trivial = a run that is saved; distinct = distinct history")
ASSUMPTIONS = ["duration and timestamp come from the OS clock: only sanity (0 <= duration < 1h; the timestamp is a naive UTC time "
               "within two minutes of the save, also when the process's local time zone is not UTC) is checked by the harness, "
               "they are excluded from the model comparison",
               "output aliases / user keys do not contain '_tape_recorder_operation' (hypothesis sites_ok clean)"]
TRUSTED = ["harness-side undecorated twin interpreter (termination mode of the run) used by the direct predicate"]
THEOREMS = ["C18_metadata_truth", "C18_flags", "C18_clean_sufficient"]
# the same histories again in an interpreter whose local time is far from UTC: the recording timestamp is a UTC time
ALT_ENVS = [{"TZ": "Asia/Kolkata"}]
ERROR_SHAPED = pv.dct([["error_type", pv.s("ValueError")], ["error_repr", pv.s("ValueError('boom')")]])


def set_final_ret(c, lit):
    """make every normal end of the operation return the given literal"""
    while True:
        if c["k"] == "try":
            set_final_ret(c["c"], lit)
            c = c["h"]
            continue
        if "next" in c:
            c = c["next"]
            continue
        if c["k"] == "ret":
            c["e"] = {"lit": lit}
        return

INTERRUPT_KINDS = ["custom", "keyboard", "sysexit", "genexit"]   # which BaseException an "interrupt" of the program is
W = dict(rd.DEFAULT_W, fault=0.1, discard=0.25, force=0.3, interrupt=0.3, raise_=0.3, enable=0.05, unser=0.0,
         prep_discards=0.02, handler=0.15, playdata=0.1)


def rand_extractor(rng):
    r = rng.random()
    if r < 0.3:
        return {"kind": "none"}
    if r < 0.6:
        return {"kind": "dict", "d": [[k, pv.rand_pyval(rng, 1, objs=False)] for k in
                                      rng.sample(["tenant", "size", "k", "flag é", "zone"], rng.randrange(0, 4))]}
    if r < 0.75:
        return {"kind": "raises"}
    return {"kind": "junk", "junk": rng.choice(["int", "pairs"])}


def generate(rng, tier):
    cases = []
    n = 220 if tier == "quick" else 3000
    for i in range(n):
        runs = []
        classes = rng.sample(["OpA", "OpB", "Op_C"], rng.choice([1, 2]))
        for _ in range(rng.randrange(2, 6)):
            recs = [r for r in runs if r["kind"] == "record"]
            if recs and rng.random() < 0.25:
                t = rng.randrange(len(recs))
                runs.append(dict(kind="play", target=t, pf={"kind": "op", "op": rd.clean(recs[t]["op"])}, enabled=True))
                continue
            op = rd.rand_opdef(rng, W, budget=rng.choice([3, 6, 10]), cls=rng.choice(classes))
            op["extractor"] = rand_extractor(rng)
            op["classlevel"] = (op["cls"] == "OpB")
            if rng.random() < 0.12:
                # a run that RETURNS a value shaped like the stored form of an exception did not end in an exception
                set_final_ret(op["body"], ERROR_SHAPED)
            runs.append(dict(kind="record", enabled=True, prm=dict(rate=[1, 1], ignore=False, skipped=False, copy=False),
                             op=op, save_fails=False, in_handler=rng.random() < 0.3))
        cases.append(dict(interrupt_kind=rng.choice(INTERRUPT_KINDS), draws=[], runs=runs, cassette="memory", lookup=True))
    return cases


def direct(case, obs):
    if "driver_exception" in obs:
        return [("driver", obs["driver_exception"] + obs.get("trace", "")[-400:])]
    if f07c_affected(obs):
        return []          # region of known finding F07c (reported by C01): nothing is concluded from such a case
    fails = []
    ordn = 0
    want_lookup = {}
    for i, (run, ob) in enumerate(zip(case["runs"], obs["runs"])):
        if run["kind"] != "record":
            continue
        created = any(c["c"] == "create" for c in ob["cass"])
        saves = [c for c in ob["cass"] if c["c"] == "save"]
        if created:
            my_ord = ordn
            ordn += 1
        if not saves:
            continue
        meta = dict((k, v) for k, v in saves[0]["meta"])
        o, _ = rd.twin_run(run["op"]["body"])
        op = run["op"]
        if meta.get("_tape_recorder_operation_class") != {"t": "clsref", "v": op["cls"]}:
            fails.append(("wrong-class", "run %d: %s" % (i, meta.get("_tape_recorder_operation_class"))))
        inc = meta.get("_tape_recorder_incomplete_recording")
        if inc != {"t": "bool", "v": o["o"] == "int"}:
            fails.append(("wrong-incomplete-flag", "run %d ended by %s but incomplete flag is %s" % (i, o["o"], inc)))
        exc = meta.get("_tape_recorder_exception_in_operation")
        if o["o"] != "int" and exc != {"t": "bool", "v": o["o"] == "exn"}:
            fails.append(("wrong-exception-flag", "run %d ended by %s but exception flag is %s" % (i, o["o"], exc)))
        user = {k: v for k, v in meta.items() if not k.startswith("_tape_recorder_")}
        ex = op["extractor"]
        want = {k: pv.canon_json(v) for k, v in ex["d"]} if ex["kind"] == "dict" else {}
        if {k: pv.canon_json(v) for k, v in user.items()} != want:
            fails.append(("wrong-user-metadata", "run %d: extractor %s, user metadata saved: %s" %
                          (i, ex["kind"], sorted(user))))
        ck = saves[0].get("clock", {})
        if not ck.get("duration_ok") or not ck.get("recorded_at_ok") or not ck.get("recorded_at_utc_ok"):
            fails.append(("bad-clock-metadata", "run %d: %s" % (i, ck)))
        for k, alt in enumerate(obs.get("alt", [])):
            try:
                ack = [c for c in alt["runs"][i]["cass"] if c["c"] == "save"][0]["clock"]
            except (KeyError, IndexError, TypeError):
                continue
            if not ack.get("duration_ok") or not ack.get("recorded_at_utc_ok"):
                fails.append(("bad-clock-metadata", "run %d under %s: the recording timestamp is not the UTC time of the "
                              "save: %s" % (i, ALT_ENVS[k], ack)))
        if o["o"] != "int":
            want_lookup.setdefault(op["cls"], []).append(my_ord)
    lk = obs.get("lookup")
    if lk is not None:
        for cat in set(list(lk) + list(want_lookup)):
            if sorted(lk.get(cat, [])) != sorted(want_lookup.get(cat, [])):
                fails.append(("default-lookup-wrong", "default find_matching_recording_ids for %s returned recordings %s, "
                              "the complete saved ones are %s" % (cat, sorted(lk.get(cat, [])), sorted(want_lookup.get(cat, [])))))
    return fails


MANIFEST = dict(
    design_ref="6/C18",
    text="Coq theorem for every program, fault placement and termination mode at every step (also inside intercepted bodies and "
         "after outputs were captured), instance and class-level: the metadata of every saved recording equals the documented "
         "function metadata_spec of (class, outcome seen by the caller, extractor) - incomplete iff cut short by an "
         "interrupt-style exception, exception flag iff ordinary exception and absent when cut short, user keys exactly the "
         "extractor's dict or none of it when it raises / returns junk - proved through the write-key invariant of rec_exec "
         "(no other written key looks like the operation-output entry) and snapshot/lookup lemmas. Tie: histories of "
         "operations with all termination modes and extractor kinds (same class repeatedly, replays and discards in between) "
         "on the real recorder, full metadata (minus the two clock values) compared with the model. Direct predicate: flags vs "
         "the harness-side twin's termination mode, user keys vs the extractor, clock sanity, and the default "
         "find_matching_recording_ids returns exactly the complete saved recordings.",
    note="Partial: 'duration consistent with wall time' is about the OS clock (sanity-checked by the harness, not modelled). "
         "Hypothesis: aliases / user keys not containing the reserved operation alias. Trusted: Coq kernel + vm_compute, "
         "hand-written model, harness twin.",
    technique="Coq proof (write-key invariant by structural induction + association-list lemmas) + differential correspondence "
              "by vm_compute")
