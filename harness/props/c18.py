"""C18 - recording metadata tells the truth about the run."""
from lib import recdsl as rd
from lib import pyvals as pv
from props.rec_common import *  # noqa: F401,F403
from props import rec_common as _rc
from props import rec2_cases as r2

ID = "C18"
LOG_LEVEL_INVARIANT = True      # (harness/vp.py: a sample of the cases again with logging at DEBUG; same observables)
RUN_MODULE = "RunC18"
RULE = ("one case = a history of 2-5 runs on one real recorder: operations of two or three classes (instance and class-level, "
        "the same class several times with different extractors: dict / raises / junk int / junk pairs / none; the dict handed "
        "back as a dict or in any other form dict() accepts: OrderedDict, defaultdict, MappingProxyType, ChainMap, UserDict, an "
        "object with keys()/__getitem__, list / tuple / generator of pairs, an items view - randomly and as a deterministic "
        "grid shape x termination; a grid in which recording is switched off, and on again, while the operation is in flight) "
        "terminating by "
        "return, ordinary exception or interrupt at a random step incl. inside intercepted bodies and after outputs were "
        "captured, with discards and replays in between; operation classes that derive from another class of the service "
        "(base plain or with registered recording parameters, derived class registered or not, the decorated operation defined "
        "in the derived class or inherited; a deterministic grid over level x inherited x termination x extractor); after each "
        "history the lookup is asked through properties objects in every state reached after construction (skip_incomplete "
        "switched on / off / toggled, .metadata reassigned, one object for all categories and looked up twice); "
        "a recorded operation inside which a replay / another decorated operation runs before it returns, raises or is "
        "interrupted (kind nested_scope: the saved metadata and the default lookup speak about the ENCLOSING run); a grid in "
        "which the reserved text '_tape_recorder_operation' turns up in input arguments / keyword arguments / input aliases / "
        "record_data keys / output arguments of returning, raising and interrupted runs (both implementation only); "
        "non-trivial = a run that is saved; distinct = distinct history")
ASSUMPTIONS = ["duration and timestamp come from the OS clock: only sanity (0 <= duration < 1h; the timestamp is a naive UTC time "
               "within two minutes of the save, also when the process's local time zone is not UTC) is checked by the harness, "
               "they are excluded from the model comparison",
               "output aliases do not contain '_tape_recorder_operation' (hypothesis sites_ok clean of the theorem; the direct predicate "
               "also runs input arguments / input aliases / data keys carrying that text)"]
TRUSTED = ["harness-side undecorated twin interpreter (termination mode of the run) used by the direct predicate"]
THEOREMS = ["C18_metadata_truth", "C18_flags", "C18_clean_sufficient"]
# the same histories again in an interpreter whose local time is far from UTC: the recording timestamp is a UTC time
ALT_ENVS = [{"TZ": "Asia/Kolkata"}]
ERROR_SHAPED = pv.dct([["error_type", pv.s("ValueError")], ["error_repr", pv.s("ValueError('boom')")]])


def set_final_ret(c, lit):
    """make every normal end of the operation return the given literal"""
    while True:
        if c["k"] == "try":
            set_final_ret(c["c"], lit)
            c = c["h"]
            continue
        if "next" in c:
            c = c["next"]
            continue
        if c["k"] == "ret":
            c["e"] = {"lit": lit}
        return

INTERRUPT_KINDS = ["custom", "keyboard", "sysexit", "genexit"]   # which BaseException an "interrupt" of the program is
W = dict(rd.DEFAULT_W, fault=0.1, discard=0.25, force=0.3, interrupt=0.3, raise_=0.3, enable=0.05, unser=0.0,
         prep_discards=0.02, handler=0.15, playdata=0.1)


# what a metadata extractor may hand back: the recorder does metadata.update(dict(extractor())), so every form dict() accepts
# states the same key/value pairs (driver: recorder_driver.shaped)
EXTRACTOR_SHAPES = ["dict", "ordereddict", "defaultdict", "mappingproxy", "chainmap", "userdict", "keys-getitem", "pairs-list",
                    "pairs-tuple", "pairs-lists", "items-view", "pairs-generator"]


def rand_extractor(rng):
    r = rng.random()
    if r < 0.3:
        return {"kind": "none"}
    if r < 0.6:
        return {"kind": "dict", "d": [[k, pv.rand_pyval(rng, 1, objs=False)] for k in
                                      rng.sample(["tenant", "size", "k", "flag é", "zone"], rng.randrange(0, 4))]}
    if r < 0.75:
        return {"kind": "raises"}
    return {"kind": "junk", "junk": rng.choice(["int", "pairs"])}


PLAIN_PRM = dict(rate=[1, 1], ignore=False, skipped=False, copy=False)


def rand_base(rng, cls):
    """the class the operation class derives from: plain or with recording parameters of its own registered; the decorated
    operation is defined in the derived class or in the base class and inherited"""
    prm = None
    if rng.random() < 0.75:
        prm = dict(rate=rng.choice([[1, 1], [1, 1], [1, 1], [3, 2], [1, 2]]), ignore=rng.random() < 0.3, skipped=False,
                   copy=rng.random() < 0.3)
    return dict(name="Base" + cls, prm=prm, inherits_op=rng.random() < 0.5)


def hierarchy_grid():
    """deterministic core: an operation run on a class derived from a class with registered parameters, every termination
    mode, instance and class level, operation defined in the derived class or inherited, with and without an extractor"""
    term = {"return": {"k": "ret", "e": {"lit": pv.i(1)}}, "raise": {"k": "raise", "ty": "ValueError"},
            "interrupt": {"k": "interrupt"}}
    out_site = dict(k="out", cfg=dict(alias="send", static=True, handler="none", fail=True, default=pv.none()),
                    body={"k": "ret", "e": {"lit": pv.none()}}, args=[{"lit": pv.s("x")}], kwargs=[])
    for classlevel in (False, True):
        for inherits_op in (False, True):
            for how in ("return", "raise", "interrupt"):
                for ex in ({"kind": "none"}, {"kind": "dict", "d": [["tenant", pv.s("t1")]]}):
                    for own in (None, dict(PLAIN_PRM)):
                        base = dict(name="BaseOp", prm=dict(PLAIN_PRM), inherits_op=inherits_op)
                        op = dict(cls="OpD", classlevel=classlevel, extractor=rd.clean(ex), base=base,
                                  body=dict(out_site, next=rd.clean(term[how])))
                        flat = dict(cls="OpA", classlevel=classlevel, extractor=rd.clean(ex), body=rd.clean(term[how]))
                        runs = [dict(kind="record", enabled=True, prm=own, op=op, save_fails=False),
                                dict(kind="record", enabled=True, prm=dict(PLAIN_PRM), op=flat, save_fails=False),
                                dict(kind="record", enabled=True, prm=own, op=rd.clean(op), save_fails=False)]
                        yield dict(interrupt_kind="keyboard", draws=[], runs=runs, cassette="memory", lookup=True,
                                   lookup_variants=True, stream="hierarchy-grid")


def extractor_shape_grid():
    """deterministic core: every form of extractor result that dict() accepts x termination x instance / class level; the
    first run of each history uses a plain dict with the same pairs, a third run an extractor that fails (none of it)"""
    term = {"return": {"k": "ret", "e": {"lit": pv.i(1)}}, "raise": {"k": "raise", "ty": "ValueError"},
            "interrupt": {"k": "interrupt"}}
    pairs = [["tenant", pv.s("t1")], ["size", pv.i(3)], ["flag é", pv.b(True)]]
    for k, shape in enumerate(EXTRACTOR_SHAPES):
        for how in ("return", "raise", "interrupt"):
            classlevel = (k + len(how)) % 2 == 0
            mk = lambda ex, cls: dict(kind="record", enabled=True, prm=dict(PLAIN_PRM), save_fails=False,    # noqa: E731
                                      op=dict(cls=cls, classlevel=classlevel, extractor=ex, body=rd.clean(term[how])))
            runs = [mk({"kind": "dict", "d": rd.clean(pairs)}, "OpA"),
                    mk({"kind": "dict", "shape": shape, "d": rd.clean(pairs)}, "OpB"),
                    mk({"kind": "dict", "shape": shape, "d": []}, "OpB"),
                    mk({"kind": "raises"}, "Op_C")]
            yield dict(interrupt_kind="keyboard", draws=[], runs=runs, cassette="memory", lookup=True, stream="extractor-shapes")


def switched_off_grid():
    """deterministic core: recording is switched off (and on again) while the operation is in flight - the run is still
    finalised and saved, and its metadata still tells how it ended"""
    term = {"return": {"k": "ret", "e": {"lit": pv.i(1)}}, "raise": {"k": "raise", "ty": "ValueError"},
            "interrupt": {"k": "interrupt"}}
    out_site = dict(k="out", cfg=dict(alias="send", static=True, handler="none", fail=True, default=pv.none()),
                    body={"k": "ret", "e": {"lit": pv.none()}}, args=[{"lit": pv.s("x")}], kwargs=[])
    for how in ("return", "raise", "interrupt"):
        for back_on in (False, True):
            for classlevel in (False, True):
                tail = rd.clean(term[how])
                if back_on:
                    tail = {"k": "enable", "b": True, "next": tail}
                first = dict(out_site, next={"k": "enable", "b": False, "next": dict(rd.clean(out_site), next=tail)})
                early = {"k": "enable", "b": False, "next": dict(rd.clean(out_site), next=rd.clean(tail))}
                mk = lambda body, cls: dict(kind="record", enabled=True, prm=dict(PLAIN_PRM), save_fails=False,    # noqa: E731
                                            op=dict(cls=cls, classlevel=classlevel, body=body,
                                                    extractor={"kind": "dict", "d": [["tenant", pv.s("t1")]]}))
                yield dict(interrupt_kind="keyboard", draws=[], runs=[mk(first, "OpA"), mk(early, "OpB"), mk(rd.clean(first), "OpA")],
                           cassette="memory", lookup=True, lookup_variants=True, stream="switched-off-in-flight")


RESERVED = "_tape_recorder_operation"       # TapeRecorder.OPERATION_OUTPUT_ALIAS; TapeRecorder.OPERATION_CLASS = RESERVED + "_class"


def reserved_text_grid():
    """deterministic core, implementation only (the theorem's hypothesis sites_ok keeps these texts out of the model): the
    recorder's reserved text turns up in what an operation captures WITHOUT being the operation's output entry - an
    intercepted input called with the public constant TapeRecorder.OPERATION_CLASS as (keyword) argument (argument values
    are part of input keys), an input whose alias carries the text, a record_data key with that prefix, an intercepted output
    sent with that text - and then the operation returns / raises / is interrupted, right away or after one more capture"""
    term = {"return": {"k": "ret", "e": {"lit": pv.i(1)}}, "raise": {"k": "raise", "ty": "ValueError"},
            "interrupt": {"k": "interrupt"}}
    out_cfg = dict(alias="send", static=True, handler="none", fail=True, default=pv.none())

    def in_cfg(alias):
        return dict(alias=alias, resolver={"kind": "none"}, cap=None, static=True, property=False, handler="none",
                    prep_discards=False, run_missing=False, vmiss={"kind": "none"}, fallbacks={"kind": "none"})
    ret = {"k": "ret", "e": {"lit": pv.s("value")}}
    carriers = {
        "input-argument": dict(k="in", cfg=in_cfg("get_meta"), body=ret, args=[{"lit": pv.s(RESERVED + "_class")}], kwargs=[]),
        "input-keyword-argument": dict(k="in", cfg=in_cfg("get_meta"), body=ret, args=[], kwargs=[["field", {"lit": pv.s(RESERVED + "_class")}]]),
        "input-alias": dict(k="in", cfg=in_cfg("read " + RESERVED + "_class"), body=ret, args=[{"lit": pv.i(1)}], kwargs=[]),
        "data-key": dict(k="recdata", key=RESERVED + "_note", e={"lit": pv.i(7)}),
        "data-key-exact-prefix": dict(k="recdata", key=RESERVED + " #1.output", e={"lit": pv.i(7)}),
        "output-argument": dict(k="out", cfg=dict(out_cfg), body={"k": "ret", "e": {"lit": pv.none()}},
                                args=[{"lit": pv.s("output: " + RESERVED + " #1.output")}], kwargs=[]),
    }
    k = 0
    for name in sorted(carriers):
        for how in ("return", "raise", "interrupt"):
            for more in (False, True):
                k += 1
                tail = rd.clean(term[how])
                if more:
                    tail = dict(k="out", cfg=dict(out_cfg), body={"k": "ret", "e": {"lit": pv.none()}},
                                args=[{"lit": pv.s("x")}], kwargs=[], next=tail)
                body = dict(rd.clean(carriers[name]), next=tail)
                mk = lambda b, cls: dict(kind="record", enabled=True, prm=dict(PLAIN_PRM), save_fails=False,    # noqa: E731
                                         op=dict(cls=cls, classlevel=False, extractor={"kind": "none"}, body=b))
                yield dict(interrupt_kind=INTERRUPT_KINDS[k % 4], draws=[], runs=[mk(body, "OpA"), mk(rd.clean(term[how]), "OpA"),
                                                                                   mk(rd.clean(body), "OpB")],
                           cassette="memory", lookup=True, lookup_variants=more, stream="reserved-text:" + name, impl_only=True)


def generate(rng, tier):
    cases = list(hierarchy_grid()) + list(extractor_shape_grid()) + list(switched_off_grid()) + list(reserved_text_grid())
    # a recorded operation inside which other scopes of the recorder open and close (nested replay / nested operation call)
    cases += r2.nested_scope_cases()
    shape_rng = __import__("random").Random()
    shape_rng.setstate(rng.getstate())     # (a copy of the stream: the histories below stay what they were)
    n = 220 if tier == "quick" else 3000
    for i in range(n):
        runs = []
        classes = rng.sample(["OpA", "OpB", "Op_C"], rng.choice([1, 2]))
        # some operation classes derive from another class of the service (declared once per history)
        bases = {c: rand_base(rng, c) if rng.random() < 0.3 else None for c in classes}
        registered = {c: (rng.random() < 0.4) if bases[c] else True for c in classes}
        for _ in range(rng.randrange(2, 6)):
            recs = [r for r in runs if r["kind"] == "record"]
            if recs and rng.random() < 0.25:
                t = rng.randrange(len(recs))
                runs.append(dict(kind="play", target=t, pf={"kind": "op", "op": rd.clean(recs[t]["op"])}, enabled=True))
                continue
            op = rd.rand_opdef(rng, W, budget=rng.choice([3, 6, 10]), cls=rng.choice(classes))
            op["extractor"] = rand_extractor(rng)
            if op["extractor"]["kind"] == "dict" and shape_rng.random() < 0.5:
                op["extractor"]["shape"] = shape_rng.choice(EXTRACTOR_SHAPES[1:])
            op["classlevel"] = (op["cls"] == "OpB")
            if rng.random() < 0.12:
                # a run that RETURNS a value shaped like the stored form of an exception did not end in an exception
                set_final_ret(op["body"], ERROR_SHAPED)
            if bases[op["cls"]]:
                op["base"] = rd.clean(bases[op["cls"]])
            runs.append(dict(kind="record", enabled=True, prm=dict(PLAIN_PRM) if registered[op["cls"]] else None,
                             op=op, save_fails=False, in_handler=rng.random() < 0.3))
        cases.append(dict(interrupt_kind=rng.choice(INTERRUPT_KINDS), draws=[], runs=runs, cassette="memory", lookup=True,
                          lookup_variants=True))
    return cases


def direct(case, obs):
    if "driver_exception" in obs:
        return [("driver", obs["driver_exception"] + obs.get("trace", "")[-400:])]
    if r2.is_rec2(case):
        return r2.direct_metadata(case, obs)
    if f07c_affected(obs):
        return []          # region of known finding F07c (reported by C01): nothing is concluded from such a case
    fails = []
    ordn = 0
    want_lookup, want_all, want_returned = {}, {}, {}
    for i, (run, ob) in enumerate(zip(case["runs"], obs["runs"])):
        if run["kind"] != "record":
            continue
        created = any(c["c"] == "create" for c in ob["cass"])
        saves = [c for c in ob["cass"] if c["c"] == "save"]
        if created:
            my_ord = ordn
            ordn += 1
        if not saves:
            continue
        meta = dict((k, v) for k, v in saves[0]["meta"])
        o, _ = rd.twin_run(run["op"]["body"])
        op = run["op"]
        if meta.get("_tape_recorder_operation_class") != {"t": "clsref", "v": op["cls"]}:
            fails.append(("wrong-class", "run %d was an operation of class %s%s; the metadata states %s" %
                          (i, op["cls"], " (derived from %s)" % op["base"]["name"] if op.get("base") else "",
                           meta.get("_tape_recorder_operation_class"))))
        inc = meta.get("_tape_recorder_incomplete_recording")
        if inc != {"t": "bool", "v": o["o"] == "int"}:
            fails.append(("wrong-incomplete-flag", "run %d ended by %s but incomplete flag is %s" % (i, o["o"], inc)))
        exc = meta.get("_tape_recorder_exception_in_operation")
        if o["o"] != "int" and exc != {"t": "bool", "v": o["o"] == "exn"}:
            fails.append(("wrong-exception-flag", "run %d ended by %s but exception flag is %s" % (i, o["o"], exc)))
        user = {k: v for k, v in meta.items() if not k.startswith("_tape_recorder_")}
        ex = op["extractor"]
        want = {k: pv.canon_json(v) for k, v in ex["d"]} if ex["kind"] == "dict" else {}
        if {k: pv.canon_json(v) for k, v in user.items()} != want:
            fails.append(("wrong-user-metadata", "run %d: extractor %s%s, user metadata saved: %s" %
                          (i, ex["kind"], " (returns its pairs %s as %s, a form dict() accepts)" % (sorted(want), ex["shape"])
                           if ex.get("shape") else "", sorted(user))))
        ck = saves[0].get("clock", {})
        if not ck.get("duration_ok") or not ck.get("recorded_at_ok") or not ck.get("recorded_at_utc_ok"):
            fails.append(("bad-clock-metadata", "run %d: %s" % (i, ck)))
        for k, alt in enumerate(obs.get("alt", [])):
            try:
                ack = [c for c in alt["runs"][i]["cass"] if c["c"] == "save"][0]["clock"]
            except (KeyError, IndexError, TypeError):
                continue
            if not ack.get("duration_ok") or not ack.get("recorded_at_utc_ok"):
                fails.append(("bad-clock-metadata", "run %d under %s: the recording timestamp is not the UTC time of the "
                              "save: %s" % (i, ALT_ENVS[k], ack)))
        want_all.setdefault(op["cls"], []).append(my_ord)
        if o["o"] != "int":
            want_lookup.setdefault(op["cls"], []).append(my_ord)
        if o["o"] == "val":
            want_returned.setdefault(op["cls"], []).append(my_ord)
    lk = obs.get("lookup")
    if lk is not None:
        for cat in set(list(lk) + list(want_lookup)):
            if sorted(lk.get(cat, [])) != sorted(want_lookup.get(cat, [])):
                fails.append(("default-lookup-wrong", "default find_matching_recording_ids for %s returned recordings %s, "
                              "the complete saved ones are %s" % (cat, sorted(lk.get(cat, [])), sorted(want_lookup.get(cat, [])))))
    # the same question asked through lookup-properties objects that reached their state after construction: what counts
    # is skip_incomplete / metadata at the time of the lookup
    expect = {"late_on": want_lookup, "meta_none": want_lookup, "meta_empty": want_lookup, "late_off": want_all,
              "ctor_off": want_all, "meta_filter": want_returned, "ctor_filter": want_returned}
    how = {"late_on": "constructed with skip_incomplete=False, skip_incomplete switched on afterwards",
           "late_off": "constructed with the default, skip_incomplete switched off afterwards",
           "ctor_off": "constructed with skip_incomplete=False",
           "meta_none": "default skip_incomplete, .metadata reassigned (None) after construction",
           "meta_empty": "default skip_incomplete, .metadata reassigned ({}) after construction",
           "meta_filter": "default skip_incomplete, .metadata reassigned to {exception flag: False} after construction",
           "ctor_filter": "default skip_incomplete, metadata={exception flag: False} given to the constructor"}
    lv = obs.get("lookup_variants") or {}
    cats = set(run["op"]["cls"] for run in case["runs"] if run["kind"] == "record")

    def compare(label, got, want, sig="adjusted-lookup-wrong"):
        for cat in sorted(cats):
            if sorted(got.get(cat, [])) != sorted(want.get(cat, [])):
                fails.append((sig, "find_matching_recording_ids for %s with lookup properties (%s) returned recordings %s, "
                              "expected %s (saved: %s, of which complete: %s)" %
                              (cat, label, sorted(got.get(cat, [])), sorted(want.get(cat, [])), sorted(want_all.get(cat, [])),
                               sorted(want_lookup.get(cat, [])))))
                return
    for name in sorted(lv):
        v = lv[name]
        if "error" in v:
            fails.append(("lookup-error", "lookup with properties (%s) failed: %s" % (how.get(name, name), v["error"])))
        elif name == "toggle":
            compare("default; first lookup", v["on1"], want_lookup)
            compare("same object, skip_incomplete switched off after a lookup", v["off"], want_all)
            compare("same object, skip_incomplete switched on again", v["on2"], want_lookup)
        elif name == "own_filter":
            compare("caller's own filter dict, default skip_incomplete", v["on"], want_lookup)
            compare("caller's own filter dict, same object after skip_incomplete was switched off", v["off"], want_all,
                    sig="lookup-filter-leaks")
            compare("caller's own filter dict given to a NEW properties object with skip_incomplete=False, after a default "
                    "lookup used that dict", v["other_object"], want_all, sig="lookup-filter-leaks")
        elif name in expect:
            compare(how[name], v["fresh"], expect[name])
            compare(how[name] + "; one object for all categories, second lookup", v["shared"], expect[name])
    return fails


_hist_features = features     # (from rec_common)


def features(case):      # noqa: F811
    if r2.is_rec2(case):
        return r2.features(case)
    fs = _hist_features(case)
    if case.get("lookup_variants"):
        fs.add("lookup:properties-adjusted-after-construction")
    if case.get("stream"):
        fs.add("stream:" + case["stream"])
    for r in case["runs"]:
        if r["kind"] == "record" and r["op"]["extractor"].get("shape"):
            fs.add("extractor-returns:" + r["op"]["extractor"]["shape"])
    return fs


# ---- round-7 case kinds are implementation only: the hooks of rec_common apply to history cases --------------------------------
def to_gallina(case, obs):      # noqa: F811
    return None if r2.is_rec2(case) or case.get("impl_only") else _rc.to_gallina(case, obs)


def explain(case, obs):      # noqa: F811
    return "0%nat" if r2.is_rec2(case) or case.get("impl_only") else _rc.explain(case, obs)


def nontrivial(case):      # noqa: F811
    return True if r2.is_rec2(case) else _rc.nontrivial(case)


def shrink_candidates(case):      # noqa: F811
    return [] if r2.is_rec2(case) else _rc.shrink_candidates(case)


MANIFEST = dict(
    design_ref="6/C18",
    text="Coq theorem for every program, fault placement and termination mode at every step (also inside intercepted bodies and "
         "after outputs were captured), instance and class-level: the metadata of every saved recording equals the documented "
         "function metadata_spec of (class, outcome seen by the caller, extractor) - incomplete iff cut short by an "
         "interrupt-style exception, exception flag iff ordinary exception and absent when cut short, user keys exactly the "
         "extractor's dict or none of it when it raises / returns junk - proved through the write-key invariant of rec_exec "
         "(no other written key looks like the operation-output entry) and snapshot/lookup lemmas. Tie: histories of "
         "operations with all termination modes and extractor kinds (same class repeatedly, replays and discards in between) "
         "on the real recorder, full metadata (minus the two clock values) compared with the model. Direct predicate: flags vs "
         "the harness-side twin's termination mode, user keys vs the extractor, clock sanity, and the default "
         "find_matching_recording_ids returns exactly the complete saved recordings - also when the lookup properties reached "
         "their state after construction (skip_incomplete / metadata assigned later, one object reused): the state at lookup time "
         "decides (skip_incomplete off: all saved recordings; an exception-flag filter: the complete runs that returned). An "
         "extractor that succeeds states its pairs whatever form dict() accepts it hands back (mapping views, chained / user "
         "mappings, sequences and generators of pairs: deterministic grid). The "
         "class stated is the class the operation ran on, also for classes derived from a class with registered parameters.",
    note="Partial: 'duration consistent with wall time' is about the OS clock (sanity-checked by the harness, not modelled). "
         "Hypothesis: aliases / user keys not containing the reserved operation alias. Trusted: Coq kernel + vm_compute, "
         "hand-written model, harness twin.",
    technique="Coq proof (write-key invariant by structural induction + association-list lemmas) + differential correspondence "
              "by vm_compute")
