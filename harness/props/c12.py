"""C12 - asynchronous recording stores exactly what synchronous recording would."""
import collections
import itertools
import json

from lib import pyvals as pv
from lib.gallina import gbool, glist, gN, gZ
from lib.gallina import gnat as _gnat

ID = "C12"
LOG_EXACT = False                # (timing-dependent observables: only the property's predicate is evaluated under DEBUG)
LOG_SAMPLE = 120
LOG_LEVEL_INVARIANT = True
RUN_MODULE = "RunC12"
DRIVER = "async_driver.py"
SHARD = 120
RULE = ("one case = one workload (1-3 producers, set_data/add_metadata/save/abort_recording on 1-3 recordings, failing storage "
        "calls; short: up to 18 requests, or a long history: 10^2 .. 5*10^3 requests in the quick tier, up to 1.2*10^4 in the "
        "thorough tier, plus one (thorough: three) history of > 10^4 (2^14, 2^15) requests that arrives while the flusher is "
        "stalled inside a storage call - every request has to return without the flusher moving) "
        "under one schedule (token schedule: producers' requests interleaved with the flusher's atomic steps) or under a "
        "family of schedules explored by the driver (bounded-preemption exhaustive or seeded random, at atomic or source-line "
        "granularity; the evidence counts such a case once, its schedules are in input_distribution as runs:*); "
        "long histories run under token schedules that leave hundreds to thousands of requests pending when close() is "
        "called (timer never fires / flusher inside a storage call while the burst arrives / one big batch flushed midway / "
        "timer fires a few times), input_distribution shows pending-at-close:* and largest-flush-batch:* as measured on the "
        "implementation's trace; values: unique ints in the schedule-oriented streams, and a value-shape stream (one "
        "deterministic probe + random workloads) whose values are None, booleans / ints / floats that compare equal "
        "(0, False, 0.0, -0.0; 1, True, 1.0), containers that compare equal ([0] / [False], {a: 1} / {a: True}), empty "
        "str / list / dict / tuple, the same value written again - stored values are compared with their types, in the "
        "direct predicate and in Coq (val := pyval); input_distribution shows value:*, same-value-written-again, "
        "overwritten-by-==-value-of-other-type, None-written-to-new-key; an abort stream (recordings ended by save, by "
        "abort_recording, by both in either order, by another caller: exhaustive token schedules of 7 small workloads, "
        "random workloads, explorations; input_distribution shows abort-after-save / save-after-abort / "
        "abort-instead-of-save / abort-with-other-callers); a key-text stream: data keys, metadata keys and categories (hence "
        "recording ids) as free text - TapeRecorder-style input keys embedding json, a route with a {placeholder}, format "
        "fields, lone braces, percent directives, non-ASCII - x a failing storage call at every position of two small "
        "workloads + random workloads with frequent failures (key-and-category-texts:*, failing-storage-call-with-key-texts:*); "
        "non-trivial = at least two requests; distinct = distinct (workload, schedule)")
EXHAUSTIVE = {"quick": True, "thorough": True}
ASSUMPTIONS = [
    "atomic-step reduction: lock-protected regions are atomic and steps on disjoint state commute (gated by the ast check "
    "that every access to _recording_operation_buffer outside __init__ is lexically inside `with self._lock:`)",
    "join(timeout_on_close) does not expire before the flusher finishes (the scheduled join never times out; with real "
    "storage a backlog of thousands of operations can take longer than timeout_on_close - runtime, not checked)",
    "history length: the theorems have no bound; the runs cover backlogs at close() up to ~11k requests (quick) / ~34k "
    "(thorough), chosen to straddle 100, 256, 1000, 1024, 2048, 4096, 10000 (thorough: 16384, 32768) - a size-dependent "
    "change that only shows beyond that is not exercised; histories > 4000 requests (quick) are implementation-only",
    "waiting callers: a request counts as waiting for the storage when, with the flusher held inside a storage call, it "
    "blocks on a scheduled primitive (Lock / Condition / Semaphore of the module under test) or passes more than 400 "
    "yield points without returning; a wait implemented by time.sleep polling or by a primitive that is not substituted "
    "ends in the wall-clock watchdogs (hang) instead",
    "abort_recording: the closed flag of an aborted wrapped recording OBJECT is not compared (synchronously the wrapped "
    "recording is closed, asynchronously the AsyncRecording in front of it); its contents and everything stored are",
    "wrapped storage failures are Exceptions (a BaseException would end the flusher thread)",
    "requests are issued through set_data / add_metadata / save_recording / abort_recording (Recording.__setitem__ bypasses the closed "
    "check of the AsyncRecording and is outside the modelled request alphabet)",
    "values are never mutated by the caller after the call: the model's values are immutable trees (pyval: None, bool, "
    "int, float, str, list, tuple, dict - with their types), the in-memory recording keeps references in both "
    "worlds; a caller mutating a value object between the request and the flush is outside the modelled domain; "
    "metadata dicts may be changed by the caller after the call (AddMetaMut) - covered since /repo ba7c02c",
    "value domain exercised: the 27 shaped values of SHAPED (None, False/True, 0/1/2, 0.0/-0.0/1.0/2.5, '', 'a', '1', "
    "empty and one-element list / tuple / dict, [[]], [None], {a: None}) and unique ints; NaN (not equal to itself), "
    "sets, objects with a custom __eq__ and str-vs-bytes are not drawn",
    "a write that repeats what the recording already holds counts as a write: the predicate reports lost-op when it "
    "does not reach the wrapped cassette (the property says every write is applied exactly once), even though the "
    "stored recording would be the same"]
TRUSTED = ["cooperative scheduler of the driver (one OS thread per logical thread, exactly one running; Thread/Lock/Event "
           "of the module under test substituted as module attributes, Condition / Semaphore / BoundedSemaphore too if it "
           "imports them; sys.settrace line stepping)",
           "spy subclass of the real InMemoryTapeCassette / MemoryRecording as wrapped storage",
           "trace projection: flusher lock acquire/release = CLock/CSwap, first lock acquisition inside a producer call = "
           "CProduce, spy call entry on the flusher = CExec"]
THEOREMS = ["C12_inv_init", "C12_inv_step", "C12_inv_reachable", "C12_async_refines_sync", "C12_argument_alias_refuted",
            "C12_argument_alias_repaired", "C12_schedule_independent",
            "C12_single_producer", "C12_failure_does_not_block", "C12_producers_never_blocked",
            "C12_not_blocked_during_storage", "C12_progress", "C12_progress_every_step", "C12_progress_enabled",
            "C12_runner_sound", "C12_abort_never_blocked", "C12_abort_not_seen_by_wrapped", "C12_abort_sync_saved"]

_FAILING = {}     # case key -> explicit failing schedule (filled by direct, used by shrink_candidates)
_BACKLOG = {}     # case key -> (requests pending at close, largest batch) of token cases (filled by direct, used by features)
_NRUNS = {}       # case key -> (schedules executed by the driver, distinct observations) (filled by direct, used by features)


# --------------------------------------------------------------------------------------------------
# workloads
# --------------------------------------------------------------------------------------------------
def _val(p, i, j=0):
    # unique per (producer, request, item): the spy identifies a storage call by its arguments.  Requests of the short
    # workloads (i < 100) keep the small numbers they always had; long histories move to a wider stride.
    return 1000 * (p + 1) + 10 * i + j if i < 100 else 10**6 * (p + 1) + 10 * i + j


def op_set(rec, key, p, i, fail=0):
    d = dict(rec=rec, k="set", key=key, val=_val(p, i))
    if fail:
        d["fail"] = fail
    return d


def op_meta(rec, keys, p, i, fail=0):
    d = dict(rec=rec, k="meta", items=[[k, _val(p, i, j)] for j, k in enumerate(keys)])
    if fail:
        d["fail"] = fail
    return d


def op_metamut(rec, keys, mkey, p, i, fail=0):
    """d = {..}; add_metadata(d); d[mkey] = value   - the caller goes on using its dict (F12, repaired by ba7c02c)"""
    d = dict(rec=rec, k="metamut", items=[[k, _val(p, i, j)] for j, k in enumerate(keys)], mkey=mkey, mval=_val(p, i, 9))
    if fail:
        d["fail"] = fail
    return d


def op_save(rec, fail=0):
    d = dict(rec=rec, k="save")
    if fail:
        d["fail"] = fail
    return d


def op_abort(rec):
    """cassette.abort_recording(recording): closes the recording it is given, stores nothing (tape_cassette.py:52-59)"""
    return dict(rec=rec, k="abort")


def vkey(v):
    """hashable, type-exact form of a workload value (plain int, or tagged value of lib.pyvals)"""
    return v if type(v) is int else json.dumps(v, sort_keys=True)


def op_class(op):
    """what the wrapped cassette can tell about a request: recording, kind, arguments (a metadata call by its first
    item, as the driver's spy does).  Requests of one class are interchangeable there."""
    if op["k"] == "set":
        return (op["rec"], "set", op["key"], vkey(op["val"]))
    if op["k"] in ("save", "abort"):
        return (op["rec"], op["k"])
    return (op["rec"], "meta") + tuple((k, vkey(v)) for k, v in op["items"][:1])


def normalise(work):
    """identical requests (saves of one recording, repeated writes of one value) share their failure flag: the spy
    decides by content"""
    fl = {}
    for ops in work:
        for op in ops:
            if op.get("fail"):
                fl[op_class(op)] = op["fail"]
    if not fl:
        return work
    for ops in work:
        for op in ops:
            c = op_class(op)
            if c in fl:
                op["fail"] = fl[c]
    return work


def rand_work(rng, nprod, max_ops, nrec, pfail=0.15, after_save=0.1):
    work = []
    for p in range(nprod):
        n = rng.randrange(1, max_ops + 1)
        ops = []
        saved = set()
        for i in range(n):
            rec = rng.randrange(nrec)
            if rec in saved and rng.random() > after_save:
                free = [r for r in range(nrec) if r not in saved]
                if not free:
                    break
                rec = rng.choice(free)
            fail = rng.randrange(1, 5) if rng.random() < pfail else 0
            x = rng.random()
            if x < 0.55:
                ops.append(op_set(rec, rng.randrange(3), p, i, fail))
            elif x < 0.67:
                ks = rng.sample(range(3), rng.randrange(1, 3))
                ops.append(op_meta(rec, ks, p, i, fail))
            elif x < 0.75:
                ks = rng.sample(range(3), rng.randrange(1, 3))
                ops.append(op_metamut(rec, ks, rng.randrange(3), p, i, fail))
            else:
                ops.append(op_save(rec, fail))
                saved.add(rec)
        if ops:
            work.append(ops)
    if not work:
        work = [[op_set(0, 0, 0, 0)]]
    return normalise(work)


def with_fail_at(work, pos, f=1):
    """copy of the workload with the pos-th request (flattened order) failing"""
    out = json.loads(json.dumps(work))
    k = 0
    for ops in out:
        for op in ops:
            if k == pos:
                op["fail"] = f
            k += 1
    return normalise(out)


def nops(work):
    return sum(len(o) for o in work)


def nrec_of(work):
    return 1 + max([op["rec"] for ops in work for op in ops] or [0])


# --------------------------------------------------------------------------------------------------
# schedules
# --------------------------------------------------------------------------------------------------
def merges(counts):
    seq = [p for p, c in enumerate(counts) for _ in range(c)]
    return sorted(set(itertools.permutations(seq)))


def token_schedules(work, fmax, cplaces):
    """every interleaving of the producers' requests (each atomic) with 0..fmax flusher steps in every gap"""
    for merge in merges([len(o) for o in work]):
        for gaps in itertools.product(range(fmax + 1), repeat=len(merge)):
            for c in cplaces:
                toks = []
                for g, p in zip(gaps, merge):
                    toks += [["F"]] * g + [["P", p]]
                toks += [["F"]] * c + [["C"]]
                yield toks


def rand_tokens(rng, work, pf=0.55):
    left = [len(o) for o in work]
    toks = []
    while any(left):
        if rng.random() < pf:
            toks.append(["F"])
        else:
            p = rng.choice([i for i, n in enumerate(left) if n])
            left[p] -= 1
            toks.append(["P", p])
    toks += [["F"]] * rng.randrange(0, 8)
    toks.append(["C"])
    toks += [["F"]] * rng.randrange(0, 4)
    return toks


def mk(work, sched, label):
    return dict(nrec=nrec_of(work), work=work, sched=sched, label=label)


# --------------------------------------------------------------------------------------------------
# long histories: "every write requested before close is applied" has no bound on how many are pending
# --------------------------------------------------------------------------------------------------
def long_work(rng, nprod, total, nrec, pfail=0.003, own=False):
    """A long recording session: `total` requests over nprod producers and nrec recordings.  Every recording is saved
    once, by one producer, near the end of that producer's requests (so the tail of the history holds the saves and
    whole small recordings); data keys repeat (later values overwrite), a few storage calls fail.  own: every producer
    writes only the recordings it saves (free-running threads: their relative pace is not controlled)."""
    nrec = max(nrec, nprod) if own else nrec
    cuts = sorted(rng.sample(range(1, total), nprod - 1)) if nprod > 1 else []
    sizes = [b - a for a, b in zip([0] + cuts, cuts + [total])]
    while min(sizes) < nrec + 2:                      # room for the saves
        k = sizes.index(min(sizes))
        sizes[sizes.index(max(sizes))] -= nrec + 2
        sizes[k] += nrec + 2
    saver = [r % nprod if own else rng.randrange(nprod) for r in range(nrec)]
    work = []
    for p, n in enumerate(sizes):
        mine = [r for r in range(nrec) if saver[r] == p]
        rng.shuffle(mine)
        tail = max(2 * len(mine), n // 25)
        at = dict(zip(sorted(rng.sample(range(n - tail, n), len(mine))), mine))
        ops, saved = [], set()
        for i in range(n):
            if i in at:
                ops.append(op_save(at[i], rng.randrange(1, 5) if rng.random() < 10 * pfail else 0))
                saved.add(at[i])
                continue
            free = [r for r in (mine if own else range(nrec)) if r not in saved]
            rec = rng.choice(free) if free and rng.random() > 0.01 else rng.choice(mine if own else range(nrec))
            # (else: a write after the producer's own save - refused at the caller)
            fail = rng.randrange(1, 5) if rng.random() < pfail else 0
            x = rng.random()
            if x < 0.82:
                ops.append(op_set(rec, rng.randrange(6), p, i, fail))
            elif x < 0.94:
                ops.append(op_meta(rec, rng.sample(range(4), rng.randrange(1, 3)), p, i, fail))
            else:
                ops.append(op_metamut(rec, rng.sample(range(4), rng.randrange(1, 3)), rng.randrange(4), p, i, fail))
        work.append(ops)
    return normalise(work)


def burst_merge(rng, work):
    """the producers' requests merged in bursts (runs of up to 60 requests of one producer); the producers advance at
    the same relative pace, so that the saves at the end of each workload come late in the whole history (a write on a
    recording whose save was already requested is refused at the caller and never pending)"""
    left = [len(o) for o in work]
    seq = []
    while any(left):
        p = rng.choices(range(len(left)), weights=left)[0]
        k = rng.randrange(1, 2 + min(left[p], 60 * left[p] // max(left)))
        k = min(k, left[p])
        left[p] -= k
        seq += [["P", p]] * k
    return seq


LONG_SHAPES = ("never-flushed", "slow-storage", "flushed-midway", "rare-timer")


def long_tokens(rng, work, shape):
    """Token schedules that leave a long backlog: the timer does not fire between the requests and close(), the flusher
    sits inside a storage call while the burst arrives, or one big batch is flushed in the middle of the history."""
    seq = burst_merge(rng, work)
    n = len(seq)
    if shape == "never-flushed":            # flush_interval longer than the session: everything is pending at close()
        toks = seq
    elif shape == "slow-storage":           # the flusher picked up the first few requests and is inside a storage call
        k = rng.randrange(1, 6)
        toks = seq[:k] + [["F"]] * rng.randrange(4, k + 5) + seq[k:]
    elif shape == "stalled-storage":        # the same, the flusher certainly INSIDE one of the first k storage calls (and
        k = rng.randrange(1, 6)             # it stays there until close(): the storage has stalled)
        toks = seq[:k] + [["F"]] * (4 + rng.randrange(k)) + seq[k:]
    elif shape == "flushed-midway":         # one flush in the middle: a big batch (complete, or still running while
        k = rng.randrange(n // 5, n // 2)   # the rest arrives), then a big backlog at close()
        nf = k + 8 if rng.random() < 0.5 else rng.randrange(4, k)
        toks = seq[:k] + [["F"]] * nf + seq[k:]
    else:                                   # the timer fires a few times, each time the flusher gets a few steps
        cuts = sorted(rng.sample(range(1, n), min(n - 1, rng.randrange(2, 7))))
        toks, a = [], 0
        for c in cuts + [n]:
            toks += seq[a:c] + ([["F"]] * rng.randrange(1, 40) if c < n else [])
            a = c
    return toks + [["C"]]


def long_case(rng, shape, lo, hi, nprod, nrec):
    w = long_work(rng, nprod, rng.randrange(lo, hi), nrec)
    return mk(w, dict(kind="tokens", tokens=long_tokens(rng, w, shape)), "long-history-" + shape)


def long_cases(rng, quick):
    """Sizes straddle the round numbers a batching / capacity constant would plausibly have (100, 256, 1000, 1024, 2048,
    4096, ..): a few cases per shape, the backlog at close() between ~10^2 and ~10^4 requests."""
    plan = [("never-flushed", 101, 300, 1, 1), ("never-flushed", 1100, 1400, 1, 2), ("never-flushed", 2200, 2700, 2, 3),
            ("never-flushed", 4400, 4900, 3, 3),
            ("slow-storage", 257, 600, 2, 2), ("slow-storage", 1100, 1500, 3, 3), ("slow-storage", 2500, 3300, 1, 2),
            ("flushed-midway", 300, 900, 2, 2), ("flushed-midway", 2100, 2900, 1, 3), ("flushed-midway", 3000, 4100, 3, 2),
            ("rare-timer", 1100, 2000, 2, 3)]
    if not quick:
        for shape in LONG_SHAPES:
            plan += [(shape, 60, 1000, 1 + j % 3, 1 + (j + 1) % 3) for j in range(4)]
            plan += [(shape, 1001, 3000, 1 + j % 3, 1 + (j + 1) % 3) for j in range(3)]
            plan += [(shape, 5000, 9000, 2 + j % 2, 3) for j in range(2)]
        plan += [("never-flushed", 10001, 12000, 3, 3), ("slow-storage", 10001, 12000, 3, 2)]
    out = [long_case(rng, *pl) for pl in plan]
    if quick:
        # the model follows a trace of n requests in ~n^2 list steps (10 s of one coqc for 4.8k requests): in the quick
        # tier the largest history is checked by the direct predicate only, the thorough tier compares all of them
        for c in out:
            if nops(c["work"]) > 4000:
                c["model"] = False
    return out


W_TINY2 = [[op_set(0, 0, 0, 0)], [op_set(0, 0, 1, 0)]]                                   # two producers, same key
W_ONE3 = [[op_set(0, 0, 0, 0), op_meta(0, [0], 0, 1), op_save(0)]]                       # one producer, whole recording
W_TWO3 = [[op_set(0, 0, 0, 0), op_save(0)], [op_set(1, 0, 1, 0)]]                        # same key on two recordings
W_SHARE = [[op_set(0, 0, 0, 0), op_save(0)], [op_set(0, 0, 1, 0)]]                       # write racing with the save
W_TWO4 = [[op_set(0, 0, 0, 0), op_save(0)], [op_set(1, 0, 1, 0), op_save(1)]]
W_THREE = [[op_set(0, 1, 0, 0), op_save(0)], [op_meta(1, [0, 1], 1, 0), op_save(1)], [op_set(0, 1, 2, 0), op_set(1, 1, 2, 1)]]
W_ALIAS1 = [[op_metamut(0, [0], 1, 0, 0), op_save(0)]]                                    # dict changed after the request (F12)
W_ALIAS2 = [[op_set(0, 0, 0, 0), op_metamut(0, [0, 1], 1, 0, 1), op_save(0)], [op_metamut(1, [2], 0, 1, 0), op_save(1)]]
W_RESET = [[op_set(0, 0, 0, 0), op_set(0, 0, 0, 1), op_set(0, 1, 0, 2), op_save(0)]]    # same key twice in one recording


# --------------------------------------------------------------------------------------------------
# value shapes: "stores exactly what synchronous recording would" is about the values WITH their types
# --------------------------------------------------------------------------------------------------
def _fl(text):
    return {"t": "float", "r": text}


# groups of values that compare equal in Python (==) and are different recorded values
EQ_GROUPS = [
    ("zero", [0, pv.b(False), _fl("0.0"), _fl("-0.0")]),
    ("one", [1, pv.b(True), _fl("1.0")]),
    ("none", [pv.none()]),                                  # dict.get(absent key) == None
    ("list", [pv.lst([pv.i(0)]), pv.lst([pv.b(False)]), pv.lst([_fl("0.0")])]),
    ("dict", [pv.dct([("a", pv.i(1))]), pv.dct([("a", pv.b(True))]), pv.dct([("a", _fl("1.0"))])]),
    ("tuple", [pv.tup([pv.i(1)]), pv.tup([pv.b(True)])]),
    ("str", [pv.s("a")]),
]
# values that are false in a boolean context (a filter on truthiness / emptiness drops them)
FALSY = [pv.none(), 0, pv.b(False), _fl("0.0"), pv.s(""), pv.lst([]), pv.dct([]), pv.tup([])]
SHAPED = []
for _g, _vs in EQ_GROUPS + [("falsy", FALSY)]:
    for _v in _vs:
        if not any(vkey(_v) == vkey(_x) for _x in SHAPED):
            SHAPED.append(_v)
SHAPED += [2, _fl("2.5"), pv.s("1"), pv.lst([pv.none()]), pv.dct([("a", pv.none())]), pv.lst([pv.lst([])])]


def vtype(v):
    return "int" if type(v) is int else v["t"]


def py_equal(a, b):
    """Python's == on two workload values"""
    return bool((pv.to_py(a) if isinstance(a, dict) else a) == (pv.to_py(b) if isinstance(b, dict) else b))


def op_setv(rec, key, val, fail=0):
    d = dict(rec=rec, k="set", key=key, val=val)
    if fail:
        d["fail"] = fail
    return d


def op_metav(rec, items, fail=0):
    d = dict(rec=rec, k="meta", items=[[k, v] for k, v in items])
    if fail:
        d["fail"] = fail
    return d


def shape_probes():
    """The deterministic part of the value-shape region (always run, both tiers), one producer, one recording:
      * overwrite: key written with a, then with b, for every ordered pair (a, b) of a group of ==-equal values and
        of the falsy values - including a == b exactly (the same write repeated) - as metadata and as data;
      * first write: every shaped value as the first value of a key (alone; next to an ordinary item; as data), also
        without a save (the wrapped recording object is compared);
      * the same items added again after other writes changed the recording in between."""
    out, seen = [], set()

    def add(label, work):
        k = json.dumps(work, sort_keys=True)
        if k not in seen:
            seen.add(k)
            out.append((label, work))
    for g, vals in EQ_GROUPS + [("falsy", FALSY)]:
        for a in vals:
            for b in vals:
                lab = "repeat" if vkey(a) == vkey(b) else "overwrite-" + g
                add(lab, [[op_metav(0, [(0, a)]), op_metav(0, [(0, b)]), op_save(0)]])
                add(lab, [[op_setv(0, 0, a), op_setv(0, 0, b), op_save(0)]])
    for j, v in enumerate(SHAPED):
        add("first-write", [[op_metav(0, [(0, v)]), op_save(0)]])
        add("first-write", [[op_metav(0, [(0, _val(0, 0)), (1, v)]), op_save(0)]])
        add("first-write", [[op_setv(0, 0, v), op_save(0)]])
        add("first-write", [[op_setv(0, 0, v), op_metav(0, [(1, v)])]])
        w = SHAPED[(j + 5) % len(SHAPED)]
        add("write-again", [[op_metav(0, [(0, v), (1, w)]), op_metav(0, [(1, v)]), op_metav(0, [(0, v), (1, w)]), op_save(0)]])
        add("write-again", [[op_setv(0, 0, v), op_setv(0, 0, w), op_setv(0, 0, v), op_save(0)]])
    return out


def shape_tokens(work, flushed):
    """one producer: all requests, then close - either without any flusher step in between (everything applied by the
    final flush) or with a complete flush cycle after every request (the wrapped recording is up to date before the
    next request)"""
    toks = []
    for _ in range(nops(work)):
        toks += [["P", 0]] + ([["F"]] * 8 if flushed else [])
    return toks + [["C"]]


def rand_value(rng, p, i, j=0, pshape=0.75):
    return rng.choice(SHAPED) if rng.random() < pshape else _val(p, i, j)


def rand_shape_work(rng, nprod, max_ops, nrec, pfail=0.1, after_save=0.1):
    """random workloads like rand_work, values mostly from the shaped pool, two keys (so that overwrites and repeated
    writes are frequent)"""
    work = []
    for p in range(nprod):
        ops, saved = [], set()
        for i in range(rng.randrange(2, max_ops + 1)):
            rec = rng.randrange(nrec)
            if rec in saved and rng.random() > after_save:
                free = [r for r in range(nrec) if r not in saved]
                if not free:
                    break
                rec = rng.choice(free)
            fail = rng.randrange(1, 5) if rng.random() < pfail else 0
            x = rng.random()
            if x < 0.35:
                ops.append(op_setv(rec, rng.randrange(2), rand_value(rng, p, i), fail))
            elif x < 0.8:
                ks = rng.sample(range(3), rng.randrange(1, 4))
                ops.append(op_metav(rec, [(k, rand_value(rng, p, i, j)) for j, k in enumerate(ks)], fail))
            elif x < 0.87:
                ks = rng.sample(range(3), rng.randrange(1, 3))
                d = op_metamut(rec, ks, rng.randrange(3), p, i, fail)
                d["items"] = [[k, rand_value(rng, p, i, j)] for j, k in enumerate(ks)]
                ops.append(d)
            else:
                ops.append(op_save(rec, fail))
                saved.add(rec)
        work.append(ops)
    return normalise(work)


def shape_cases(rng, quick):
    out = []
    for label, work in shape_probes():
        for flushed in (False, True):
            out.append(mk(work, dict(kind="tokens", tokens=shape_tokens(work, flushed)), "value-shapes-" + label))
    for _ in range(200 if quick else 1500):
        w = rand_shape_work(rng, rng.randrange(1, 4), 6, rng.randrange(1, 3))
        out.append(mk(w, dict(kind="tokens", tokens=rand_tokens(rng, w)), "value-shapes-random"))
    return out


def shape_walks(rng, quick):
    out = []
    for j in range(4 if quick else 24):
        w = rand_shape_work(rng, 1 + j % 3, 5, 1 + j % 2)
        gran = "line" if j % 2 else "atomic"
        out.append(mk(w, dict(kind="random", gran=gran, seed=rng.randrange(10**6), runs=30 if quick else 120,
                              p=rng.choice([0.05, 0.15, 0.3])), "value-shapes-random-" + gran))
    if not quick:       # free-running real threads: direct predicate only, must reproduce in every repetition
        for j in range(6):
            w = rand_shape_work(rng, 1 + j % 3, 6, 1 + j % 2, after_save=0.0)
            out.append(mk(w, dict(kind="threads", runs=3, delay=[0.0, 0.003][j % 2], switch=1e-5), "value-shapes-real-threads"))
    return out


# --------------------------------------------------------------------------------------------------
# abort_recording: the third way a recording ends (tape_cassette.py:52-59).  The wrapper does not override it: it closes
# the AsyncRecording and enqueues nothing; what was requested before - writes and a save - still has to be applied.
# --------------------------------------------------------------------------------------------------
W_AB_AFTER = [[op_set(0, 0, 0, 0), op_save(0), op_abort(0)]]                              # try: save .. finally: abort
W_AB_BEFORE = [[op_set(0, 0, 0, 0), op_abort(0), op_save(0)]]
W_AB_ONLY = [[op_set(0, 0, 0, 0), op_meta(0, [0], 0, 1), op_abort(0)]]
W_AB_TWICE = [[op_set(0, 0, 0, 0), op_abort(0), op_set(0, 1, 0, 2), op_abort(0)]]         # write after abort: refused
W_AB_OTHER = [[op_set(0, 0, 0, 0), op_save(0)], [op_abort(0)]]                            # aborted by another caller
W_AB_THREE = [[op_set(0, 0, 0, 0), op_set(1, 0, 0, 1), op_set(2, 0, 0, 2), op_save(0), op_abort(0), op_abort(1), op_save(2)]]
W_AB_MIX = [[op_set(0, 0, 0, 0), op_save(0), op_abort(0)], [op_set(1, 0, 1, 0), op_abort(1), op_set(0, 1, 1, 2)]]


def rand_abort_work(rng, nprod, max_ops, nrec, pfail=0.1, after=0.15):
    """random workloads whose recordings end by save, by abort, by both in either order, or not at all"""
    work = []
    for p in range(nprod):
        ops, ended = [], set()
        for i in range(rng.randrange(2, max_ops + 1)):
            rec = rng.randrange(nrec)
            x = rng.random()
            if rec in ended and x < 0.6 and rng.random() > after:
                free = [r for r in range(nrec) if r not in ended]
                if free:
                    rec = rng.choice(free)
                else:
                    x = 0.6 + 0.4 * rng.random()        # everything ended: only save / abort again
            fail = rng.randrange(1, 5) if rng.random() < pfail else 0
            if x < 0.4:
                ops.append(op_set(rec, rng.randrange(3), p, i, fail))
            elif x < 0.52:
                ops.append(op_meta(rec, rng.sample(range(3), rng.randrange(1, 3)), p, i, fail))
            elif x < 0.6:
                ops.append(op_metamut(rec, rng.sample(range(3), rng.randrange(1, 3)), rng.randrange(3), p, i, fail))
            elif x < 0.8:
                ops.append(op_save(rec, fail))
                ended.add(rec)
            else:
                ops.append(op_abort(rec))
                ended.add(rec)
        work.append(ops)
    return normalise(work)


def abort_cases(rng, quick):
    light, heavy = [], []
    for work, fmax, cpl in [(W_AB_AFTER, 3, (0, 2)), (W_AB_BEFORE, 3, (0, 2)), (W_AB_ONLY, 3, (0, 2)), (W_AB_TWICE, 2, (0,)),
                            (W_AB_OTHER, 3, (0, 2)), (W_AB_THREE, 1, (0, 3)), (W_AB_MIX, 1, (0,))]:
        for k, toks in enumerate(token_schedules(work, fmax, cpl)):
            if quick and k % 3 and nops(work) > 3:
                continue
            light.append(mk(work, dict(kind="tokens", tokens=toks), "abort-exhaustive-tokens"))
    for _ in range(200 if quick else 2000):
        w = rand_abort_work(rng, rng.randrange(1, 4), 6, rng.randrange(1, 4))
        light.append(mk(w, dict(kind="tokens", tokens=rand_tokens(rng, w)), "abort-random-tokens"))
    heavy.append(mk(W_AB_OTHER, dict(kind="explore", gran="line", budget=1, max_runs=500 if quick else 8000), "abort-explore-line"))
    heavy.append(mk(W_AB_MIX, dict(kind="explore", gran="atomic", budget=1, max_runs=500 if quick else 8000), "abort-explore-atomic"))
    for j in range(4 if quick else 40):
        w = rand_abort_work(rng, 1 + j % 3, 5, 1 + (j + 1) % 3)
        gran = "line" if j % 2 else "atomic"
        heavy.append(mk(w, dict(kind="random", gran=gran, seed=rng.randrange(10**6), runs=30 if quick else 120,
                                p=rng.choice([0.05, 0.15, 0.3])), "abort-random-" + gran))
    return light, heavy


# key / metadata-key / category texts (harness/impl/async_driver.py NAMINGS): free text of the recorder's user
NAMING_NAMES = ["tape-recorder", "route-category", "format-fields", "lone-brace", "percent", "unicode"]


def naming_cases(rng, quick):
    """Round 7.  The TEXT of data keys, metadata keys and categories (hence recording ids) is free: the TapeRecorder's own
    input keys embed the captured arguments as json (braces, quotes, brackets), categories are e.g. routes with
    placeholders.  Every naming x (a) a small workload with a failing storage call at every position under a few token
    schedules, (b) random workloads with frequent failures under random token schedules.  The model is the same (keys
    are numbers there; a naming is a bijection number <-> text)."""
    out = []
    for ni, naming in enumerate(NAMING_NAMES):
        for work in (W_ONE3, W_TWO3):
            for j in range(nops(work)):
                wv = with_fail_at(work, j, 1 + (j + ni) % 4)
                scheds = list(token_schedules(wv, 2, (0, 2)))
                for toks in rng.sample(scheds, min(len(scheds), 2 if quick else 6)):
                    out.append(dict(mk(wv, dict(kind="tokens", tokens=toks), "key-texts-fail-at-every-position"), naming=naming))
        for _ in range(8 if quick else 80):
            w = rand_work(rng, rng.randrange(1, 4), 6, rng.randrange(1, 4), pfail=0.35)
            out.append(dict(mk(w, dict(kind="tokens", tokens=rand_tokens(rng, w)), "key-texts-random"), naming=naming))
    return out


def generate(rng, tier):
    quick = tier == "quick"
    light, heavy = [], []
    # 1. exhaustive token schedules (producer requests atomic) on small workloads, a failing call at every position
    for work, fmax, cpl in ([(W_TINY2, 6, range(0, 7)), (W_TWO3, 4, (0, 2, 4)), (W_ONE3, 4, (0, 1, 3)),
                             (W_SHARE, 3, (0, 3))] if quick else
                            [(W_TINY2, 9, range(0, 10)), (W_TWO3, 7, (0, 2, 4, 6)), (W_ONE3, 7, (0, 1, 3, 5)),
                             (W_SHARE, 6, (0, 1, 3, 5)), (W_TWO4, 3, (0, 3))]):
        variants = [work] + [with_fail_at(work, j, 1 + j % 4) for j in range(nops(work))]
        for vi, wv in enumerate(variants):
            for k, toks in enumerate(token_schedules(wv, fmax, cpl)):
                # failing variants: every third schedule (the positions are what is exhaustive there)
                if vi and (k + vi) % (5 if quick else 3):
                    continue
                light.append(mk(wv, dict(kind="tokens", tokens=toks), "exhaustive-tokens"))
    # 2. random token schedules on random larger workloads
    for _ in range(300 if quick else 4000):
        w = rand_work(rng, rng.randrange(1, 4), 6, rng.randrange(1, 4))
        light.append(mk(w, dict(kind="tokens", tokens=rand_tokens(rng, w)), "random-tokens"))
    # 2b. the caller changes its dict after add_metadata(dict) returned (F12, repaired by /repo ba7c02c: must pass)
    for w, fmax, cpl in [(W_ALIAS1, 4, (0, 2)), (W_ALIAS2, 1, (0,))]:
        for k, toks in enumerate(token_schedules(w, fmax, cpl)):
            if k % (2 if quick else 1) == 0:
                light.append(mk(w, dict(kind="tokens", tokens=toks), "dict-changed-after-call"))
    heavy.append(mk(W_ALIAS2, dict(kind="explore", gran="atomic", budget=1, max_runs=700 if quick else 8000), "explore-atomic"))
    heavy.append(mk(W_ALIAS1, dict(kind="explore", gran="line", budget=1, max_runs=700 if quick else 8000), "explore-line"))
    # 3. bounded-preemption exhaustive exploration by the driver
    for w in [W_TWO3, W_SHARE, W_RESET, with_fail_at(W_TWO4, 1), with_fail_at(W_ONE3, 0), with_fail_at(W_THREE, 3)] + \
            ([] if quick else [W_THREE]):
        heavy.append(mk(w, dict(kind="explore", gran="atomic", budget=1, max_runs=700 if quick else 12000), "explore-atomic"))
    for w, cap in [(W_TINY2, 1500), (W_SHARE, 700), (with_fail_at(W_ONE3, 1), 700)] + \
            ([] if quick else [(W_TWO3, 0), (W_TWO4, 0), (W_THREE, 0), (W_RESET, 0)]):
        heavy.append(mk(w, dict(kind="explore", gran="line", budget=1, max_runs=cap if quick else 12000), "explore-line"))
    if not quick:
        for w in [W_TINY2, W_SHARE, W_TWO3]:
            heavy.append(mk(w, dict(kind="explore", gran="atomic", budget=2, max_runs=15000), "explore-atomic"))
        heavy.append(mk(W_TINY2, dict(kind="explore", gran="line", budget=2, max_runs=15000), "explore-line"))
        for w in [W_TINY2, W_SHARE, W_ONE3]:
            heavy.append(mk(w, dict(kind="explore", gran="opcode", budget=1, max_runs=12000), "explore-opcode"))
    # 4. seeded random walks (random preemption at every yield point) on random workloads
    for j in range(16 if quick else 240):
        w = rand_work(rng, rng.randrange(1, 4), 5, rng.randrange(1, 4))
        gran = "line" if j % 2 else "atomic"
        heavy.append(mk(w, dict(kind="random", gran=gran, seed=rng.randrange(10**6), runs=40 if quick else 150,
                                p=rng.choice([0.05, 0.15, 0.3])), "random-" + gran))
    # 5. real threads (thorough): direct predicate only, must reproduce in every repetition
    if not quick:
        for j in range(24):
            w = rand_work(rng, 1 + j % 3, 6, 1 + j % 3, pfail=0.1, after_save=0.0)
            heavy.append(mk(w, dict(kind="threads", runs=3, delay=[0.0, 0.003, 0.05][j % 3], switch=1e-5), "real-threads"))
    # 6. long histories (hundreds to thousands of requests, big backlog at close / big batches): token schedules, full
    #    model comparison; the text of keys / categories is a case parameter (default k<n>, m<n>, "cat"; six other namings with braces, format fields, percent directives, json, non-ASCII - always run with a failing storage call at every position): a failing call whose key or recording id holds such text is skipped like any other and nothing after it is lost; thorough adds free-running real threads with a flush interval longer than the session
    #    (drawn last: the streams above are the same cases as before for every seed)
    longs = long_cases(rng, quick)
    if not quick:
        for j, (n, interval, delay) in enumerate([(3000, 30.0, 0.0), (2600, 30.0, 0.0), (2500, 0.002, 0.0003)]):
            w = long_work(rng, 1 + j % 3, n + rng.randrange(200), 1 + (j + 1) % 3, own=True)
            longs.append(mk(w, dict(kind="threads", runs=3, delay=delay, switch=1e-5, interval=interval, burst=True),
                            "long-history-real-threads"))
    for j, c in enumerate(longs):          # spread between the random walks
        heavy.insert(min(len(heavy), len(heavy) - 2 * j), c)
    # 7. value shapes (None, bool / int / float that compare equal, empty containers, repeated equal writes): a
    #    deterministic probe of overwrite pairs / first writes under two schedules, random shaped workloads under random
    #    token schedules, a few random walks (drawn after everything else: the streams above are unchanged)
    light += shape_cases(rng, quick)
    walks = shape_walks(rng, quick)
    for j, c in enumerate(walks):
        heavy.insert(min(len(heavy), 3 + 5 * j), c)
    # 8. abort_recording before / after / instead of the save, by the same or another caller (drawn after the streams above)
    ab_light, ab_heavy = abort_cases(rng, quick)
    light += ab_light
    for j, c in enumerate(ab_heavy):
        heavy.insert(min(len(heavy), 5 + 4 * j), c)
    # 9. very long backlogs behind a stalled storage (implementation only): the flusher picked up the first requests and
    #    sits inside a storage call while more than 10^4 (thorough: also 2^14, 2^15) requests arrive; every one of them has
    #    to return without the flusher moving ("callers never wait for the wrapped storage")
    for j, (lo, hi) in enumerate([(10300, 11500)] if quick else [(10300, 11500), (16500, 17500), (33000, 34000)]):
        c = long_case(rng, "stalled-storage", lo, hi, 1 + (j + 1) % 3, 2)
        c["model"] = False
        c["label"] = "long-history-stalled-storage-huge"
        heavy.insert(min(len(heavy), 2 + 7 * j), c)
    # 10. key / category texts with braces, percent signs, non-ASCII x failing storage calls (drawn after the streams above)
    light += naming_cases(rng, quick)
    # spread the heavy cases evenly (the driver is sharded over contiguous chunks), the explorations - heaviest - first
    expl = [c for c in heavy if c["sched"]["kind"] == "explore"]
    expl.sort(key=lambda c: -c["sched"]["max_runs"] * {"atomic": 1, "line": 2, "opcode": 2}[c["sched"]["gran"]])
    rest = [c for c in heavy if c["sched"]["kind"] != "explore"]
    heavy, gap = [], max(1, len(rest) // (len(expl) + 1))
    for i, c in enumerate(rest):
        if i % gap == 0 and expl:
            heavy.append(expl.pop(0))
        heavy.append(c)
    heavy += expl
    cases = [dict(nrec=0, work=[], sched=dict(kind="gate"), label="gate")]
    step = max(1, len(light) // (len(heavy) + 1))
    hi = 0
    for i, c in enumerate(light):
        cases.append(c)
        if (i + 1) % step == 0 and hi < len(heavy):
            cases.append(heavy[hi])
            hi += 1
    cases += heavy[hi:]
    return cases


# --------------------------------------------------------------------------------------------------
# Gallina
# --------------------------------------------------------------------------------------------------
def g_val(v):
    """a recorded value as Values.PyVal.pyval: a plain JSON int is exactly an int, everything else arrives tagged"""
    return "(VInt %s)" % gZ(v) if type(v) is int else pv.to_pyval(v)


def g_dict(items):
    return glist(["(%s, %s)" % (gN(k), g_val(v)) for k, v in items])


def gnat(n):
    """nat literals are unary: indices of long histories are written in binary and converted by vm_compute"""
    return _gnat(n) if n < 64 else "(N.to_nat %d%%N)" % n


def g_op(i, op):
    if op["k"] == "set":
        kind = "(SetData %s %s)" % (gN(op["key"]), g_val(op["val"]))
    elif op["k"] == "meta":
        kind = "(AddMeta %s)" % g_dict(op["items"])
    elif op["k"] == "metamut":
        kind = "(AddMetaMut %s %s %s)" % (g_dict(op["items"]), gN(op["mkey"]), g_val(op["mval"]))
    elif op["k"] == "abort":
        kind = "Abort"
    else:
        kind = "Save"
    return "(Op %s %s %s %s)" % (gnat(i), gnat(op["rec"]), kind, gbool(bool(op.get("fail"))))


_EV = {"L": "CLock", "S": "CSwap", "X": "CExec", "W": "CWait", "A": "CWake", "C": "CClose", "D": "CDone"}


def g_run(r):
    if r.get("problems") or r.get("phantom"):
        return "(Run [] [(999, 999, false)] [] [] [])"     # the run did not complete: never matches the model
    tr, refused, started = [], [], {}
    for ev in r["trace"]:
        t = ev[0]
        if t == "B":
            started[ev[1]] = ev[2]
        elif t == "P" or t == "Q":      # Q: an abort_recording call (carried out at the caller, no lock)
            tr.append("CProduce %s" % gnat(ev[1]))
        elif t == "R":
            tr.append("CReject %s" % gnat(ev[1]))
            refused.append("(%s, %s)" % (gnat(ev[1]), gnat(started[ev[1]])))
        elif t == "K":
            tr.append("CCheck %s" % gbool(ev[1]))
        elif t in _EV:
            tr.append(_EV[t])
    applied = ["(%s, %s, %s)" % (gnat(p), gnat(i), gbool(ok)) for p, i, ok in r["applied"]]
    saved = ["(%s, (%s, %s))" % (gnat(rid), g_dict(d), g_dict(m)) for rid, d, m in r["saved"]]
    live = ["(%s, (%s, %s, %s))" % (gnat(rid), g_dict(d), g_dict(m), gbool(c)) for rid, d, m, c in r["live"]]
    return "(Run %s %s %s %s %s)" % (glist(tr), glist(applied), glist(saved), glist(live), glist(refused))


def to_gallina(case, obs, first_only=False):
    if "driver_exception" in obs:
        return "Gate false"
    if case["sched"]["kind"] == "gate":
        return "Gate %s" % gbool(obs["gate"]["ok"])
    if "runs" not in obs or case.get("model") is False:
        return None             # real threads / the largest quick-tier history: implementation side only
    work = glist([glist([g_op(i, op) for i, op in enumerate(ops)]) for ops in case["work"]])
    runs = obs["runs"][:1] if first_only else obs["runs"]
    terms = []
    for r in runs:           # schedules that differ only in where calls began/ended give the same model-level run
        t = g_run(r)
        if t not in terms:
            terms.append(t)
    return "Runs %s %s %s %s" % (gnat(case["nrec"]), work, gbool(case["sched"]["kind"] == "tokens"), glist(terms))


def explain(case, obs):
    return "model_obs (%s)" % to_gallina(case, obs, first_only=True)


# --------------------------------------------------------------------------------------------------
# direct predicate (implementation observables only)
# --------------------------------------------------------------------------------------------------
def run_failures(case, r):
    work = case["work"]
    fails = []

    def add(sig, msg):
        fails.append((sig, msg))
    for pr in r.get("problems", []):
        if pr == "deadlock" or pr == "self-deadlock":
            add("deadlock", "no thread can run and not all are finished")
        elif pr == "hang":
            add("hang", "a thread blocked outside the scheduled primitives")
        elif pr == "step-limit":
            add("no-termination", "the run did not finish within the step limit")
        elif pr.startswith("main-raised:"):
            add("start-or-close-raised", pr)
        elif pr.startswith("thread-died:"):
            add("caller-thread-died", pr)
    for v in r.get("viol", []):
        if v.startswith("flusher-died"):
            add("flusher-died", "the recording thread ended with %s; later operations are never stored" % v.split(":")[1])
        elif v == "storage-call-on-caller-thread":
            add("storage-call-on-caller-thread", "a wrapped storage call ran on a caller thread")
        elif v == "caller-blocked-by-storage-call":
            add("caller-blocked-by-storage-call", "a caller had to wait for the lock while its holder was inside a wrapped storage call")
        elif v == "caller-waits-for-storage":
            add("caller-waits-for-storage", "a caller's request did not return (it kept waiting / polling) while the flusher "
                "was inside a wrapped storage call: callers wait for the wrapped storage")
        elif v == "caller-call-does-not-return":
            add("caller-call-does-not-return", "a caller's request kept waiting / polling for something only the flusher "
                "provides (the request cannot finish by itself)")
        elif v == "thread-alive-after-close":
            add("thread-alive-after-close", "close() returned while a thread of the cassette was still running")
    if any(p in ("deadlock", "self-deadlock", "hang", "step-limit") for p in r.get("problems", [])):
        return fails
    calls = r["calls"]
    # (an abort is carried out at the caller - it closes the recording object, tape_cassette.py:59 - and never goes to the
    # storage: "accepted" are the requests that have to reach the wrapped cassette)
    accepted = [(p, i) for p, ops in enumerate(calls) for i, c in enumerate(ops) if c == "ok" and work[p][i]["k"] != "abort"]
    aborted = {work[p][i]["rec"] for p, ops in enumerate(calls) for i, c in enumerate(ops)
               if c == "ok" and work[p][i]["k"] == "abort"}
    for p, ops in enumerate(calls):
        for i, c in enumerate(ops):
            if c is None:
                add("request-not-issued", "request %s never ran" % ((p, i),))
            elif c.startswith("raised:"):
                add("request-raised", "request %s %s raised %s at the caller" % ((p, i), work[p][i], c[7:]))
            elif c == "refused" and work[p][i]["k"] in ("save", "abort"):
                add("request-raised", "%s request %s raised AssertionError at the caller" % (work[p][i]["k"], (p, i)))
    app = [(p, i) for p, i, _ in r["applied"]]
    app_set, acc_set = set(app), set(accepted)
    lost = [x for x in accepted if x not in app_set]
    if lost:
        first_fail = next((k for k, (_, _, ok) in enumerate(r["applied"]) if not ok), None)
        add("lost-op", "requests accepted before close never reached the wrapped cassette: %s%s" %
            (lost[:6], " (a storage call had failed before)" if first_fail is not None else ""))
    if len(app_set) != len(app):
        cnt = collections.Counter(app)
        add("duplicated-op", "an operation reached the wrapped cassette more than once: %s" %
            sorted(x for x in cnt if cnt[x] > 1)[:6])
    extra = [x for x in app if x not in acc_set]
    if extra:
        add("applied-unaccepted-op", "operations reached the wrapped cassette whose request did not return normally: %s" % extra[:6])
    if r.get("phantom"):
        add("phantom-op", "the wrapped cassette received calls nobody requested: %s" % r["phantom"][:4])
    # order checks.  Identical requests (saves of one recording by several producers, repeated writes of one value)
    # cannot be told apart at the wrapped cassette: the order is wrong only if no attribution of those calls to the
    # requests satisfies the checks.
    begin, end = {}, {}
    if "stamps" in r:
        for p, i, b, e in r["stamps"]:
            begin[(p, i)], end[(p, i)] = b, e
    else:
        for t, ev in enumerate(r["trace"]):
            if ev[0] == "B":
                begin[(ev[1], ev[2])] = t
            elif ev[0] == "E":
                end[(ev[1], ev[2])] = t

    def order_failures(lab):
        out = []
        for p in range(len(work)):
            idx = [i for q, i in lab if q == p]
            if idx != sorted(idx):
                out.append(("reordered-within-producer",
                            "producer %d requested in order %s but the wrapped cassette saw %s" % (p, sorted(idx), idx)))
        pos = {}
        for k, x in enumerate(lab):
            pos.setdefault(x, k)
        # real-time order: a call that returned before another one began must be applied first.  (One backward pass:
        # for every b, the earliest-returned request among those applied after b - histories of thousands of requests.)
        seq = sorted(pos, key=pos.get)
        best = None
        for b in reversed(seq):
            if best is not None and b in begin and end[best] < begin[b]:
                out.append(("reordered-across-producers",
                            "request %s returned before %s began, but was applied after it" % (best, b)))
                break
            if b in end and (best is None or end[b] < end[best]):
                best = b
        return out
    classes = {}
    for k, (p, i) in enumerate(app):
        if 0 <= p < len(work) and i < len(work[p]):
            classes.setdefault(op_class(work[p][i]), []).append(k)
    classes = [ks for ks in classes.values() if 1 < len(set(app[k] for k in ks)) and len(ks) <= 6]
    first = order_failures(app)
    if first and classes:
        for n, perms in enumerate(itertools.product(*[itertools.permutations(ks) for ks in classes])):
            lab = list(app)
            for ks, pk in zip(classes, perms):
                for dst, src in zip(ks, pk):
                    lab[dst] = app[src]
            of = order_failures(lab)
            if not of:
                first = of
                break
            if n > 300:
                break
    for sig, msg in first or []:
        add(sig, msg)
    # contents against the synchronous twin
    tw = r["twin"]
    late = r.get("twin_late")
    if aborted:
        # synchronously abort_recording closes the wrapped recording object itself, asynchronously the AsyncRecording in
        # front of it: the closed flag of an aborted recording OBJECT is not part of what is stored - its contents are
        def mask(live):
            return [[i, d, m, None if i in aborted else c] for i, d, m, c in live]
        r = dict(r, live=mask(r["live"]))
        tw = dict(tw, live=mask(tw["live"]))
        if late is not None:
            late = dict(late, live=mask(late["live"]))
    if late is not None and (r["saved"], r["live"]) != (tw["saved"], tw["live"]) and \
            (r["saved"], r["live"]) == (late["saved"], late["live"]):
        # F12 (repaired by /repo ba7c02c; a revert shows up here): exactly the difference explained by "the dict is
        # read when the flusher runs the operation"
        add("F12-argument-alias", "items added to a dict after add_metadata(dict) returned were stored: %s, synchronous "
            "twin %s" % ((r["saved"], tw["saved"]) if r["saved"] != tw["saved"] else (r["live"], tw["live"])))
    elif r["saved"] != tw["saved"]:
        add("stored-recordings-differ", "wrapped cassette after close %s != synchronous twin %s (requests in order %s)" %
            (r["saved"], tw["saved"], r["twin_order"]))
    elif r["live"] != tw["live"]:
        add("wrapped-recordings-differ", "wrapped recording objects %s != synchronous twin %s" % (r["live"], tw["live"]))
    if sorted(app) == sorted(accepted) and [ok for _, _, ok in r["applied"]] != tw["flags"]:
        add("outcome-differs", "per-operation outcomes %s != synchronous twin %s" % ([ok for _, _, ok in r["applied"]], tw["flags"]))
    if r["saved_end"] != r["saved"] or (r["closed_at"] is not None and r["closed_at"] < r["ncalls"]):
        add("storage-call-after-wrapped-close", "the wrapped cassette was closed after %s of %s storage calls" %
            (r["closed_at"], r["ncalls"]))
    if r["closed_at"] is None:
        add("wrapped-not-closed", "close() did not close the wrapped cassette")
    if r.get("leftover"):
        add("ops-left-in-buffer", "%s operations still buffered after close()" % r["leftover"])
    # a refusal at the caller needs a reason: a write on a recording whose save was requested before the call ended
    if "trace" in r:
        save_begin = {}
        for q, ops in enumerate(work):
            for j, op in enumerate(ops):
                if op["k"] in ("save", "abort") and (q, j) in begin:
                    save_begin[op["rec"]] = min(save_begin.get(op["rec"], 10**9), begin[(q, j)])
        for p, ops in enumerate(calls):
            for i, c in enumerate(ops):
                if c == "refused" and work[p][i]["k"] != "save":
                    rec = work[p][i]["rec"]
                    ok = save_begin.get(rec, 10**9) < end.get((p, i), -1)
                    if not ok:
                        add("refused-without-reason", "write %s refused although no save / abort of recording %d was requested" % ((p, i), rec))
    return fails


def backlog_at_close(trace):
    """(requests enqueued and not yet handed to the wrapped cassette when close() set the stop event,
    largest number of operations the flusher executed between two swaps)"""
    pend, at_close, batch, big = 0, None, 0, 0
    for ev in trace:
        if ev[0] == "P":
            pend += 1
        elif ev[0] == "X":
            pend -= 1
            batch += 1
            big = max(big, batch)
        elif ev[0] == "S":
            batch = 0
        elif ev[0] == "C" and at_close is None:
            at_close = pend
    return (at_close if at_close is not None else pend, big)


def _bucket(n):
    for lim, name in ((10, "<10"), (100, "10-99"), (1001, "100-1000"), (2049, "1001-2048"), (4097, "2049-4096"),
                      (10001, "4097-10000"), (16385, "10001-16384")):
        if n < lim:
            return name
    return "16385+"


def _key(case):
    return json.dumps({k: v for k, v in case.items() if k != "origin"}, sort_keys=True)


def direct(case, obs):
    if "driver_exception" in obs:
        return [("driver", obs["driver_exception"] + " " + obs.get("trace", "")[-600:])]
    kind = case["sched"]["kind"]
    if kind == "gate":
        return []       # a failed gate is a broken premise of the correspondence, not a failing input
    out = {}
    if kind == "threads":
        per = [dict(run_failures(case, r)) for r in obs["real"]]
        for r, d in zip(obs["real"], per):
            if len(r.get("slow", [])) >= 2:
                d["caller-waits-for-storage"] = "caller requests took as long as a storage call: %s" % r["slow"][:4]
        for sig in per[0]:
            if all(sig in d for d in per):      # real-time observation: must reproduce in every repetition
                out[sig + "(real-threads)"] = per[0][sig]
        return sorted(out.items())
    _NRUNS[_key(case)] = (obs.get("nruns", 1), len(obs["runs"]), bool(obs.get("truncated")))
    if kind == "tokens" and obs["runs"] and "trace" in obs["runs"][0]:
        _BACKLOG[_key(case)] = backlog_at_close(obs["runs"][0]["trace"])
    for r in obs["runs"]:
        for sig, msg in run_failures(case, r):
            if sig not in out:
                out[sig] = "%s [schedule: gran=%s choices=%s]" % (msg, r.get("gran"), r.get("choices"))
                _FAILING.setdefault((_key(case), sig), (r.get("gran"), r.get("choices")))
    return sorted(out.items())


def _fit_tokens(toks, work, head):
    """the schedule without the tokens of requests that were cut away (the first ones of a producer whose oldest
    requests were cut, else the last ones)"""
    need = [len(o) for o in work]
    have = [sum(1 for t in toks if t[0] == "P" and t[1] == p) for p in range(len(work))]
    skip = [max(0, h - n) if head else 0 for h, n in zip(have, need)]
    out = []
    for t in toks:
        if t[0] == "P" and t[1] < len(work):
            if skip[t[1]]:
                skip[t[1]] -= 1
                continue
            if not need[t[1]]:
                continue
            need[t[1]] -= 1
        out.append(t)
    return out


def shrink_candidates(case):
    sc = case["sched"]
    base = {k: v for k, v in case.items() if k not in ("origin", "model")}     # (shrunk cases are compared with the model)
    if sc["kind"] in ("explore", "random"):
        for (k, sig), (gran, choices) in list(_FAILING.items()):
            if k == _key(case) and choices:
                yield dict(base, sched=dict(kind="choices", gran=gran, choices=choices), label="replay-choices")
    elif sc["kind"] == "choices":
        ch = sc["choices"]
        for n in (len(ch) // 2, 3 * len(ch) // 4, len(ch) - 4, len(ch) - 1):
            if 0 <= n < len(ch):
                yield dict(base, sched=dict(sc, choices=ch[:n]))
    elif sc["kind"] == "tokens" and nops(case["work"]) > 40:
        # long history: first without any flusher step before close, then the producers cut by halves, quarters, ..
        # (whole producers, then the oldest / the newest requests of each; the schedule keeps the tokens of the rest); nrec stays
        toks = sc["tokens"]
        if any(t[0] == "F" for t in toks):
            yield dict(base, sched=dict(sc, tokens=[t for t in toks if t[0] != "F"]))
        if len(case["work"]) > 1:
            for p in range(len(case["work"])):
                yield dict(base, work=[o for q, o in enumerate(case["work"]) if q != p],
                           sched=dict(sc, tokens=[[t[0], t[1] - (t[1] > p)] if t[0] == "P" else t for t in toks
                                                  if not (t[0] == "P" and t[1] == p)]))
        for den in (2, 4, 8, 16, 32, 64, 128):
            for p, ops in enumerate(case["work"]):
                cut = len(ops) // den if den < 128 else 1
                if 0 < cut < len(ops):
                    for head in (True, False):      # the oldest requests first: the saves sit at the end
                        w = [list(o) for o in case["work"]]
                        w[p] = w[p][cut:] if head else w[p][:len(ops) - cut]
                        yield dict(base, work=normalise(json.loads(json.dumps(w))),
                                   sched=dict(sc, tokens=_fit_tokens(toks, w, head)))
    elif sc["kind"] == "tokens":
        toks = sc["tokens"]
        for i in range(len(toks)):
            if toks[i][0] == "F":
                yield dict(base, sched=dict(sc, tokens=toks[:i] + toks[i + 1:]))
        for p, ops in enumerate(case["work"]):
            if len(ops) > 1 or len(case["work"]) > 1:
                w = [list(o) for o in case["work"]]
                w[p] = w[p][:-1]
                if all(w) or len(w) == 1:
                    if not w[p]:
                        continue
                    yield dict(base, work=w, sched=dict(sc, tokens=[t for t in toks]))


def search_harder(rng, bad_cases):
    """Called when the model/implementation correspondence (or the lock gate) breaks although no schedule of the
    main stream failed: preemption between bytecodes of the module under test, two preemptions between lines,
    more random walks.  (Chunks of 8 = one heavy exploration + 7 random walks per driver process.)"""
    heavy = [mk(W_TINY2, dict(kind="explore", gran="opcode", budget=1, max_runs=8000), "explore-opcode"),
             mk(W_SHARE, dict(kind="explore", gran="opcode", budget=1, max_runs=8000), "explore-opcode"),
             mk(W_TINY2, dict(kind="explore", gran="line", budget=2, max_runs=6000), "explore-line"),
             mk(W_ONE3, dict(kind="explore", gran="opcode", budget=1, max_runs=8000), "explore-opcode")]
    extra = []
    for h in heavy:
        extra.append(h)
        for j in range(7):
            w = rand_work(rng, rng.randrange(1, 4), 6, rng.randrange(1, 4))
            extra.append(mk(w, dict(kind="random", gran=["atomic", "line", "opcode"][j % 3], seed=rng.randrange(10**6),
                                    runs=150, p=rng.choice([0.05, 0.15, 0.3])), "random"))
    return extra


# --------------------------------------------------------------------------------------------------
# evidence
# --------------------------------------------------------------------------------------------------
def features(case):
    sc = case["sched"]
    f = {"schedule:" + sc["kind"] + (":" + sc["gran"] if "gran" in sc else "")}
    if sc["kind"] == "gate":
        return f
    if sc["kind"] in ("explore", "random") and _key(case) in _NRUNS:
        n, d, trunc = _NRUNS[_key(case)]
        f.add("schedules-run-inside-case:%s" % ("<100" if n < 100 else "100-999" if n < 1000 else "1000-9999" if n < 10000 else "10000+"))
        if trunc:
            f.add("exploration-truncated-at-max_runs")
    w = case["work"]
    if case.get("naming"):
        f.add("key-and-category-texts:" + case["naming"])
        if any(op.get("fail") for ops in w for op in ops):
            f.add("failing-storage-call-with-key-texts:" + case["naming"])
    f.add("producers=%d" % len(w))
    f.add("requests=%s" % (nops(w) if nops(w) < 6 else "6+"))
    if nops(w) >= 100:
        f.add("requests-total:" + _bucket(nops(w)))
    if case.get("label", "").startswith("long-history"):
        f.add(case["label"])
    if case.get("model") is False:
        f.add("implementation-only(direct predicate)")
    if _key(case) in _BACKLOG:
        at_close, big = _BACKLOG[_key(case)]
        f.add("pending-at-close:" + _bucket(at_close))
        f.add("largest-flush-batch:" + _bucket(big))
    f.add("recordings=%d" % case["nrec"])
    kinds = {op["k"] for ops in w for op in ops}
    f |= {"op:" + k for k in kinds}
    if "metamut" in kinds:
        f.add("caller-changes-dict-after-add_metadata")
    if any(op.get("fail") for ops in w for op in ops):
        f.add("failing-storage-call")
    recs = [set(op["rec"] for op in ops) for ops in w]
    if any(recs[a] & recs[b] for a in range(len(w)) for b in range(a + 1, len(w))):
        f.add("recording-shared-between-producers")
    for ops in w:
        seen = set()
        for op in ops:
            if op["k"] not in ("save", "abort") and op["rec"] in seen:
                f.add("write-after-own-save")
            if op["k"] == "save":
                seen.add(op["rec"])
    if "abort" in kinds:
        flat = [op for ops in w for op in ops]
        for rec in {op["rec"] for op in flat if op["k"] == "abort"}:
            if not any(op["k"] == "save" and op["rec"] == rec for op in flat):
                f.add("abort-instead-of-save")
        for ops in w:
            st = {}
            for op in ops:
                if op["k"] == "abort":
                    f.add("abort-after-save(same caller)" if st.get(op["rec"]) == "save" else "abort")
                    st.setdefault(op["rec"], "abort")
                elif op["k"] == "save":
                    if st.get(op["rec"]) == "abort":
                        f.add("save-after-abort(same caller)")
                    st[op["rec"]] = "save"
                elif st.get(op["rec"]) == "abort":
                    f.add("write-after-own-abort")
        if len(w) > 1:
            f.add("abort-with-other-callers")
    if case.get("label", "").startswith("abort"):
        f.add("stream:" + case["label"])
    f |= shape_features(w)
    if case.get("label", "").startswith("value-shapes"):
        f.add("stream:" + case["label"])
    if sc["kind"] == "tokens":
        toks = sc["tokens"]
        if any(a[0] == "P" and b[0] == "F" for a, b in zip(toks, toks[1:])) and any(a[0] == "F" and b[0] == "P" for a, b in zip(toks, toks[1:])):
            f.add("requests-interleaved-with-flusher-steps")
    return f


def shape_features(work):
    """which part of the value-shape region a workload touches (per producer, in its request order: what a key of a
    recording held when it is written again)"""
    f = set()
    for ops in work:
        last = {}
        for op in ops:
            if op["k"] in ("save", "abort"):
                continue
            items = [[op["key"], op["val"]]] if op["k"] == "set" else op["items"]
            for k, v in items:
                t = vtype(v)
                if t != "int":
                    f.add("value:" + ("empty-" + t if t in ("list", "dict", "tuple", "str") and not v["v"] else t))
                slot = (op["rec"], op["k"] == "set", k)
                if slot in last:
                    old = last[slot]
                    if vkey(old) == vkey(v):
                        f.add("same-value-written-again")
                    elif py_equal(old, v):
                        f.add("overwritten-by-==-value-of-other-type")
                elif t == "none":
                    f.add("None-written-to-new-key")
                last[slot] = v
    return f


def nontrivial(case):
    return case["sched"]["kind"] != "gate" and nops(case["work"]) >= 2


MANIFEST = dict(
    design_ref='6/C12',
    text='Coq theorems over ALL reachable states of a producer/buffer/flusher transition system (any number of producers, any workloads of set_data/add_metadata/save with failing storage calls, any interleaving, any timer firing pattern): invariant applied++batch++buffer = enqueue order; when the flusher is done every accepted request was applied exactly once in enqueue order and the wrapped cassette and every outcome equal the synchronous run (sync_apply), also when callers keep changing a metadata dict after passing it (legacy defect F12 refuted with a witness, repaired by ba7c02c); failure does not block; producers blocked only inside the two-statement swap; termination within |buffer|+|batch|+8 flusher steps after close. Model tied to /repo on every run by driving the REAL AsyncRecordOnlyTapeCassette/AsyncRecording under deterministic schedules (cooperative scheduler over substituted Thread/Lock/Event, re-entrant spy cassette, sys.settrace line stepping): exhaustive token interleavings of small workloads, bounded-preemption exhaustive exploration at atomic and source-line granularity, seeded random walks, and long histories (10^2..10^4 requests, 1-3 producers) under schedules that leave hundreds to thousands of requests pending at close() or in one flush batch (timer never fires, flusher inside a storage call while the burst arrives, one big flush midway, rare timer), and value-shape workloads (recorded values are Python values with their types, val := pyval: None, False/0/0.0/-0.0, True/1/1.0, ==-equal containers, empty containers, the same value written again - every ordered overwrite pair and every first write, unflushed and flushed in between, plus random shaped workloads); Coq replays every implementation trace (each step must be enabled) and compares applied order, outcomes, stored recordings. ast gate: every buffer access under the lock. Direct predicate on the implementation: exactly-once, per-producer and real-time order, contents == synchronous twin compared type-exactly (True is not 1, None is not "absent"), no storage call on caller threads, callers never blocked by a storage call - also not by a bounded buffer: a burst of > 10^4 requests behind a storage call that never returns must be accepted without the flusher moving (caller-waits-for-storage) -, no deadlock; abort_recording (model: Abort request, carried out at the caller, never blocked, enqueues nothing, wrapped cassette untouched - C12_abort_*; workloads whose recordings end by save, abort, both in either order, by another caller: what was requested before the abort, the save included, is still applied and the stored recordings equal the synchronous twin that aborts too); the text of keys / categories is a case parameter (default k<n>, m<n>, "cat"; six other namings with braces, format fields, percent directives, json, non-ASCII - always run with a failing storage call at every position): a failing call whose key or recording id holds such text is skipped like any other and nothing after it is lost; thorough adds free-running real threads (also bursts of thousands of requests with a flush interval longer than the session).',
    note='Trusted: Coq kernel + vm_compute; hand-written model; atomic-step reduction (argued, gated by the ast lock check); the cooperative scheduler and trace projection of the driver; join timeout expiry, daemon-thread death at interpreter exit and true parallel lock behaviour are runtime (partial).',
    technique='Coq proof (invariant over a step relation, refinement to a synchronous fold) + trace-replay correspondence by vm_compute + systematic schedule exploration of the real code',
)
